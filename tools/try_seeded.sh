#!/bin/bash
# tools/try_seeded.sh <dir with patch.diff> <check id>...  — apply the seeded change to /repo, run the
# given checks' quick tier, undo the change. Prints one line per check.
D="$1"; shift
cd /repo || exit 2
if ! git diff --quiet; then echo "/repo has uncommitted changes"; exit 2; fi
git apply "$D/patch.diff" || { echo "patch does not apply"; exit 2; }
trap 'git -C /repo checkout -- .' EXIT
for id in "$@"; do
  start=$(date +%s)
  # the evidence file describes the unchanged tree: keep it out of the way of this run
  cp /verif/evidence/$id.json /tmp/evidence-$id.$$.json 2>/dev/null
  out=$(cd /verif && VERIF_SEED=${VERIF_SEED:-0} ./run $id quick 2>&1); code=$?
  [ -f /tmp/evidence-$id.$$.json ] && mv /tmp/evidence-$id.$$.json /verif/evidence/$id.json
  end=$(date +%s)
  {
  echo "$id seed=${VERIF_SEED:-0} exit=$code wall=$((end-start))s $(echo "$out" | grep -E '^property=' | sed 's/property=[^ ]* tier=[^ ]* seed=[^ ]* //')"
  echo "$out" | grep -E "^(VIOLATION|KNOWN-FINDING)" | head -5 | cut -c1-300
  echo "$out" | grep -E "^  sub=.*[a-z]" | grep -v "evaluations=" | head -3 | cut -c1-260
  } | tee -a "$D/try.log"
done
