#!/bin/bash
# tools/run_all.sh <seed> [tier]  — runs every claimed check once, prints one line per check
SEED="${1:-0}"; TIER="${2:-quick}"
cd /verif
for id in $(python3 -c "import json; print(' '.join(c['property_id'] for c in json.load(open('MANIFEST.json'))['checks']))"); do
  start=$(date +%s)
  out=$(VERIF_SEED=$SEED ./run $id $TIER 2>&1); code=$?
  end=$(date +%s)
  echo "$id seed=$SEED exit=$code wall=$((end-start))s $(echo "$out" | grep -E '^property=' | sed 's/property=[^ ]* tier=[^ ]* seed=[^ ]* //')"
  echo "$out" | grep -E "VIOLATION|INCONCLUSIVE|NOTE " | head -5
done
