#!/usr/bin/env python3
"""tools/keep_seeded.py <ID>... — file a confirmed seeded change under /verif/seeded/<ID>/.

Input: /tmp/seeded-out/<ID>/ {patch.diff, seeded_demo.rs, meta.json (the author's), verify.log
(tools/verify_seeded.sh), try.log (tools/try_seeded.sh)}. Refuses an item whose independent
confirmation is incomplete."""
import json, os, re, shutil, sys

BASE = {"test integration::check::test_check::case_3", "test integration::check::test_check::case_4",
        "test test_error_debug", "test test_error_display"}
for ID in sys.argv[1:]:
    src = os.environ.get("SEED_SRC", "/tmp/seeded-out") + f"/{ID}"
    dst = f"/verif/seeded/{ID}" + os.environ.get("SEED_SUFFIX", "")
    v = {}
    extra = []
    for line in open(f"{src}/verify.log", errors="replace"):
        m = re.match(r"^(demo_passes_without_change|patch_applies|demo_fails_with_change|suite_failures)=(.*)$", line.strip())
        if m:
            v[m.group(1)] = m.group(2)
        m = re.match(r"^extra_failure=(\S+) passes_alone=(\d)/3", line.strip())
        if m:
            extra.append((m.group(1), int(m.group(2))))
    fails = {f for f in v.get("suite_failures", "").split(";") if f}
    beyond = sorted(fails - BASE)
    ok = (v.get("demo_passes_without_change") == "yes" and v.get("patch_applies") == "yes"
          and v.get("demo_fails_with_change") == "yes")
    flake_only = all(any(e[0] in b and e[1] >= 1 for e in extra) for b in beyond) if beyond else True
    if not ok:
        print(f"{ID}: NOT kept, confirmation incomplete: {v}")
        continue
    meta = json.load(open(f"{src}/meta.json"))
    tries = [l.rstrip("\n") for l in open(f"{src}/try.log", errors="replace")] if os.path.exists(f"{src}/try.log") else []
    runs = [l for l in tries if re.match(r"^C\d\d seed=", l)]
    caught = sorted({l.split()[0] for l in runs if " exit=1 " in l})
    missed = sorted({l.split()[0] for l in runs if " exit=0 " in l} - set(caught))
    first_own = next((l for l in runs if l.startswith(ID + " ")), "")
    meta["confirmed_independently"] = {
        "how": "tools/verify_seeded.sh in a scratch worktree of /repo (HEAD) with its own target dir: demo test on the unmodified tree, git apply patch.diff, demo test again, then cargo test --workspace --offline --no-fail-fast -- --test-threads 4",
        "demo_passes_without_change": True,
        "patch_applies_and_compiles": True,
        "demo_fails_with_change": True,
        "suite_failures_with_change": sorted(fails),
        "suite_failures_beyond_the_4_baseline_ones": beyond,
        "note": ("the extra failure is the suite's load-dependent 'index still in use' panic (crates/core/src/index.rs, GlobalIndex::into_index inside check), unrelated to the change: see suite.log / re-runs"
                 if beyond else "exactly the 4 failures of the unmodified tree"),
    }
    meta["checks"] = {
        "how": "tools/try_seeded.sh: git -C /repo apply patch.diff; ./run <ID> quick (VERIF_SEED=0); git -C /repo checkout -- .",
        "caught_by": caught,
        "not_caught_by": missed,
        "own_check_missed_it_before_strengthening": " exit=0 " in first_own or " exit=2 " in first_own,
        "log": tries,
    }
    os.makedirs(dst, exist_ok=True)
    shutil.copy(f"{src}/patch.diff", f"{dst}/patch.diff")
    shutil.copy(f"{src}/seeded_demo.rs", f"{dst}/seeded_demo.rs")
    json.dump(meta, open(f"{dst}/meta.json", "w"), indent=1)
    print(f"{ID}: kept; caught_by={caught} missed_by={missed} beyond_baseline={beyond} flake_only={flake_only}")
