#!/usr/bin/env python3
"""Regenerates /verif/MANIFEST.json from tools/checks.json (one entry per claimed property)."""
import json, subprocess, os
root = os.path.dirname(os.path.dirname(os.path.abspath(__file__)))
checks = json.load(open(os.path.join(root, "tools", "checks.json")))
props = [json.loads(l)["id"] for l in open(os.path.join(root, "properties.jsonl"))]
hooks = subprocess.run(["git", "-C", "/repo", "log", "--format=%h %s"], capture_output=True, text=True).stdout.splitlines()
hook_commits = [l.split()[0] for l in hooks if "verif-hooks" in l]
man = {
    "version": 1,
    "setup_cmd": "cd /verif && ./run setup",
    "hooks": {
        "guard": "cargo feature `verif-hooks` (rustic_core and rustic_backend)",
        "enable": "the harness workspace depends on /repo/crates/{core,backend} by path with features=[\"verif-hooks\"]; ./run rebuilds it from /repo's working tree on every invocation",
        "baseline_off_cmd": "cd /repo && cargo nextest run --workspace --no-fail-fast --offline --test-threads 8 || cargo test --workspace --no-fail-fast --offline",
        "source_commits": hook_commits,
        "add_only": True,
    },
    "engines": [
        {
            "name": "vp",
            "path": "harness/",
            "serves_properties": [c["property_id"] for c in checks["checks"]],
            "kind_free_text": "Rust workspace: vpcore (independent restic-format codec, reference chunker / retention / index) + vpharness (in-memory fault-injecting backend, in-memory source, model, sharded seeded proptest runners with shrinking to replay files, known-findings handling, evidence writer); fuzz/ holds cargo-fuzz (libFuzzer) targets",
        }
    ],
    "checks": [],
    "notes": checks.get("notes", ""),
    "not_applicable": checks.get("not_applicable", []),
}
claimed = set()
for c in checks["checks"]:
    pid = c["property_id"]
    claimed.add(pid)
    man["checks"].append({
        "property_id": pid,
        "quick_cmd": f"./run {pid} quick",
        "thorough_cmd": f"./run {pid} thorough",
        "evidence_file": f"/verif/evidence/{pid}.json",
        "replay_cmd_template": f"./harness/target/release/vp replay {pid} {{path}}",
        "engine": "vp",
        "level_claimed": {"category": c["category"], "text": c["text"], "design_ref": c.get("design_ref", f"DESIGN.md §3 {pid}")},
        "level_note": c["note"],
        "technique": c["technique"],
    })
listed = claimed | {n["property_id"] for n in man["not_applicable"]}
missing = [p for p in props if p not in listed]
for p in missing:
    man["not_applicable"].append({"property_id": p, "reason": "check not built yet in this session (work in progress; see DESIGN.md §3 for the planned generated-input check)"})
json.dump(man, open(os.path.join(root, "MANIFEST.json"), "w"), indent=1)
print("claimed", sorted(claimed), "not_applicable", [n["property_id"] for n in man["not_applicable"]])
