#!/usr/bin/env python3
import json, jsonschema, glob, sys
m=json.load(open('/verif/MANIFEST.json')); jsonschema.validate(m, json.load(open('/root/.vp/MANIFEST.schema.json'))); print("manifest ok")
sch=json.load(open('/root/.vp/EVIDENCE.schema.json'))
for f in sorted(glob.glob('/verif/evidence/*.json')):
    try:
        jsonschema.validate(json.load(open(f)), sch); print(f, "ok")
    except Exception as e:
        print(f, "INVALID", str(e)[:300]); sys.exit(1)
