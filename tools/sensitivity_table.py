#!/usr/bin/env python3
"""Print the markdown table of DESIGN.md §5 from seeded/*/meta.json and seeded/*/cross.log."""
import glob, json, os, re
print("| seeded change | file(s) | what it needs to manifest | own check (quick, seed 0) | other checks run against it |")
print("|---|---|---|---|---|")
for d in sorted(glob.glob("/verif/seeded/*/")):
    name = os.path.basename(d.rstrip("/"))
    m = json.load(open(d + "meta.json"))
    own = m["property"]
    runs = [l for l in m["checks"]["log"] if re.match(r"^C\d\d seed=", l)]
    cross = []
    if os.path.exists(d + "cross.log"):
        cross = [l.rstrip() for l in open(d + "cross.log", errors="replace") if re.match(r"^C\d\d seed=", l)]
    def verdict(l):
        return "caught" if " exit=1 " in l else ("missed" if " exit=0 " in l else "inconclusive (exit 2)")
    own_runs = [l for l in runs if l.startswith(own + " ")]
    first, last = (own_runs[0], own_runs[-1]) if own_runs else ("", "")
    if not own_runs:
        own_txt = "not run"
    elif (verdict(first) == verdict(last) or len(own_runs) == 1) and m["checks"].get("own_check_missed_it_before_strengthening") and verdict(last) == "caught":
        own_txt = "strengthened before the first run (see meta.json) → **caught**"
    elif verdict(first) == verdict(last) or len(own_runs) == 1:
        own_txt = verdict(last)
    else:
        own_txt = f"{verdict(first)} at first → **{verdict(last)}** after strengthening"
    mv = re.search(r"violations=(\d+)", last)
    if mv and verdict(last) == "caught":
        own_txt += f" ({mv.group(1)} failing shards)"
    others = {}
    for l in [x for x in runs if not x.startswith(own + " ")] + cross:
        others[l.split()[0]] = verdict(l)
    oth = ", ".join(f"{k}: {v}" for k, v in sorted(others.items())) or "—"
    needs = m["needs"].replace("\n", " ").replace("|", "/")
    needs = needs if len(needs) < 230 else needs[:227] + "…"
    files = ", ".join(os.path.basename(f) for f in m["files"])
    print(f"| {name} | {files} | {needs} | {own_txt} | {oth} |")
