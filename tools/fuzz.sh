#!/bin/bash
# tools/fuzz.sh <chunker|crypto|index> [runs] [seed]
# Coverage-guided campaign (libFuzzer via cargo-fuzz, nightly toolchain) with the semantic oracle
# inside the target; rebuilds against /repo's working tree. A crash is copied to found/fuzz/.
set -u
T="${1:?target}"; RUNS="${2:-200000}"; SEED="${3:-${VERIF_SEED:-1}}"
[ "$SEED" = "0" ] && SEED=1
cd /verif/harness/fuzz || exit 2
export CARGO_NET_OFFLINE=true
WORK=$(mktemp -d /dev/shm/vpfuzz-XXXXXX)
cp -r /verif/corpus/$T "$WORK/corpus"
mkdir -p "$WORK/artifacts" /verif/found/fuzz
cargo +nightly fuzz run "$T" "$WORK/corpus" -- -runs="$RUNS" -seed="$SEED" -len_control=0 -max_len=131072 \
  -artifact_prefix="$WORK/artifacts/" -print_final_stats=1 2>&1 | tail -25
code=${PIPESTATUS[0]}
if ls "$WORK/artifacts"/* >/dev/null 2>&1; then
  cp "$WORK/artifacts"/* /verif/found/fuzz/
  echo "VIOLATION property=$( [ $T = chunker ] && echo C06 || ( [ $T = crypto ] && echo C04 || echo C17 ) ) replay=/verif/found/fuzz/$(ls "$WORK/artifacts" | head -1)"
  code=1
fi
rm -rf "$WORK"
exit $code
