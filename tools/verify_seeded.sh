#!/bin/bash
# tools/verify_seeded.sh <ID> [<ID>...]  — independent confirmation of a seeded change delivered in
# ${SEED_SRC:-/tmp/seeded-out}/<ID>/ (patch.diff, seeded_demo.rs): in a scratch worktree of /repo it must
# (1) apply and compile, (2) make the demo fail, (3) leave the suite's result unchanged (only the 4
# baseline failures), and (4) the demo must pass without the change. Results: /tmp/seeded-out/<ID>/verify.log
WT=${SEED_WT:-/tmp/seedverify}
export CARGO_TARGET_DIR=${SEED_WT:-/tmp/seedverify}-target CARGO_NET_OFFLINE=true
if [ ! -d $WT ]; then git -C /repo worktree add $WT HEAD >/dev/null 2>&1 || exit 2; fi
cd $WT || exit 2
git checkout -q --detach "$(git -C /repo rev-parse HEAD)" 2>/dev/null
for ID in "$@"; do
  D=${SEED_SRC:-/tmp/seeded-out}/$ID; L=$D/verify.log; : > $L
  git checkout -q -- . ; rm -f crates/core/tests/seeded_demo.rs
  cp $D/seeded_demo.rs crates/core/tests/seeded_demo.rs
  # without the change: demo passes
  if cargo test -p rustic_core --offline ${SEED_FEATURES:-} --test seeded_demo -- --test-threads 2 >>$L 2>&1; then echo "demo_passes_without_change=yes" >>$L; else echo "demo_passes_without_change=NO" >>$L; fi
  if ! git apply $D/patch.diff >>$L 2>&1; then echo "patch_applies=NO" >>$L; continue; fi
  echo "patch_applies=yes" >>$L
  if cargo test -p rustic_core --offline ${SEED_FEATURES:-} --test seeded_demo -- --test-threads 2 >>$L 2>&1; then echo "demo_fails_with_change=NO" >>$L; else echo "demo_fails_with_change=yes" >>$L; fi
  rm -f crates/core/tests/seeded_demo.rs
  cargo test --workspace --offline --no-fail-fast -- --test-threads 4 > $D/suite.log 2>&1
  fails=$(grep -E "^test .* \.\.\. FAILED" $D/suite.log | sed 's/ \.\.\. FAILED//' | sort -u | tr '\n' ';')
  echo "suite_failures=$fails" >>$L
  # a failure outside the 4 baseline ones is re-run alone: the suite has a load-dependent panic
  # ("index still in use", index.rs) that is not an effect of the change
  for t in $(grep -E "^test .* \.\.\. FAILED" $D/suite.log | sed 's/^test //; s/ \.\.\. FAILED//' | sort -u | grep -vE "^(integration::check::test_check::case_[34]|test_error_debug|test_error_display)$"); do
    ok=0
    for k in 1 2 3; do
      if cargo test -p rustic_core --offline --test integration -- --exact "$t" --test-threads 1 >>$D/suite_rerun.log 2>&1 || cargo test -p rustic_core --offline --lib -- --exact "$t" --test-threads 1 2>&1 | grep -q "1 passed"; then ok=$((ok+1)); fi
    done
    echo "extra_failure=$t passes_alone=$ok/3" >>$L
  done
  git checkout -q -- .
  grep -E "^(demo_|patch_|suite_|extra_)" $L | sed "s/^/$ID /"
done
