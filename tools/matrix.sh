#!/bin/bash
# tools/matrix.sh — run checks of OTHER properties against each filed seeded change
# (seeded/<ID>/patch.diff). Mutates /repo transiently (tools/try_seeded.sh reverts): never run it
# next to anything else that builds from /repo. Appends to seeded/<ID>/cross.log.
declare -A REL=(
 [C01]="C06 C07 C13 C18" [C02]="C10 C08" [C03]="C01 C13 C12 C16" [C04]="C19" [C05]="C12"
 [C06]="C01 C07 C13" [C07]="C01 C13 C11" [C08]="C12 C02 C05" [C10]="C02 C15" [C11]="C07 C01"
 [C12]="C15" [C14]="C15 C01" [C17]="C02 C07 C10 C08" [C19]="C05" [C20]="C18 C19"
)
for ID in $(echo "${!REL[@]}" | tr ' ' '\n' | sort); do
  [ -n "$1" ] && [ "$1" != "$ID" ] && continue
  mkdir -p /tmp/matrix/$ID; cp /verif/seeded/$ID/patch.diff /tmp/matrix/$ID/
  /verif/tools/try_seeded.sh /tmp/matrix/$ID ${REL[$ID]} >/dev/null 2>&1
  cat /tmp/matrix/$ID/try.log >> /verif/seeded/$ID/cross.log; rm -rf /tmp/matrix/$ID
  grep -E "^C[0-9][0-9] seed=" /verif/seeded/$ID/cross.log | sed "s/^/[$ID] /" | cut -c1-120
done
