//! Reference model of the in-memory index (C17): a plain map built from the `packs` sections of
//! index files. `packs_to_delete` never contributes.

use std::collections::BTreeMap;

use crate::fmt::{BType, IdxFile};

#[derive(Debug, Clone, PartialEq, Eq)]
pub struct RefLoc {
    pub pack: String,
    pub offset: u32,
    pub length: u32,
    pub uncompressed_length: Option<u32>,
}

#[derive(Debug, Default)]
pub struct RefIndex {
    pub map: BTreeMap<(BType, String), Vec<RefLoc>>,
    /// sum of sizes of non-empty packs per type
    pub size_tree: u64,
    pub size_data: u64,
    /// sum of sizes of packs without blobs (their type cannot be known)
    pub size_empty: u64,
    /// (pack id, type or None if empty, blob count)
    pub packs: Vec<(String, Option<BType>, usize)>,
}

pub fn build(files: &[IdxFile]) -> RefIndex {
    let mut idx = RefIndex::default();
    for f in files {
        for p in &f.packs {
            let tpe = p.blobs.first().and_then(|b| BType::parse(&b.tpe));
            match tpe {
                Some(BType::Tree) => idx.size_tree += p.pack_size(),
                Some(BType::Data) => idx.size_data += p.pack_size(),
                None => idx.size_empty += p.pack_size(),
            }
            idx.packs.push((p.id.clone(), tpe, p.blobs.len()));
            for b in &p.blobs {
                let t = BType::parse(&b.tpe).expect("generated type");
                idx.map.entry((t, b.id.clone())).or_default().push(RefLoc {
                    pack: p.id.clone(),
                    offset: b.offset,
                    length: b.length,
                    uncompressed_length: b.uncompressed_length,
                });
            }
        }
    }
    idx
}
