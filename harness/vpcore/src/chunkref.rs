//! Reference chunker written from the property statement (C06), independent of the library's
//! rolling hash: the Rabin fingerprint of a 64-byte window is
//! `sum_i b_i * x^(8*(63-i)) mod P` over GF(2). Nothing is carried from one position to the next.
//!
//! Two evaluation methods are provided: `fp_bitserial` (the definition, bit by bit) and `FpTable`
//! (per-position table `T[i][b] = b * x^(8*(63-i)) mod P`, itself filled with the bit-serial
//! arithmetic) which is ~50x faster and is cross-checked against the definition.

pub const WINDOW: usize = 64;

fn degree(p: u64) -> i32 {
    63 - p.leading_zeros() as i32
}

/// a mod p over GF(2), a given as u128 to have headroom
fn mod_p(mut a: u128, p: u64) -> u64 {
    let dp = degree(p);
    assert!(dp > 0);
    loop {
        let da = 127 - a.leading_zeros() as i32;
        if a == 0 || da < dp {
            return a as u64;
        }
        a ^= u128::from(p) << (da - dp);
    }
}

/// Fingerprint of `window` (any length) by definition: append the bits one at a time and reduce.
pub fn fp_bitserial(window: &[u8], poly: u64) -> u64 {
    let dp = degree(poly);
    let mut h: u64 = 0;
    for &b in window {
        for bit in (0..8).rev() {
            h = (h << 1) | u64::from((b >> bit) & 1);
            if (h >> dp) & 1 == 1 {
                h ^= poly;
            }
        }
    }
    h
}

pub struct FpTable {
    pub poly: u64,
    t: Vec<[u64; 256]>, // t[i][b] = b * x^(8*(63-i)) mod P
}

impl FpTable {
    pub fn new(poly: u64) -> Self {
        // x^(8*k) mod P for k = 0..63, computed by repeated multiplication by x
        let mut pow = [0u64; WINDOW];
        let mut cur: u64 = mod_p(1, poly);
        for item in pow.iter_mut() {
            *item = cur;
            for _ in 0..8 {
                cur = mod_p(u128::from(cur) << 1, poly);
            }
        }
        let mut t = vec![[0u64; 256]; WINDOW];
        for i in 0..WINDOW {
            let xk = pow[WINDOW - 1 - i];
            for b in 0..256usize {
                // b(x) * xk(x) mod P, carry-less multiplication done bit by bit
                let mut acc: u128 = 0;
                for bit in 0..8 {
                    if (b >> bit) & 1 == 1 {
                        acc ^= u128::from(xk) << bit;
                    }
                }
                t[i][b] = mod_p(acc, poly);
            }
        }
        Self { poly, t }
    }

    /// fingerprint of a window of exactly 64 bytes
    #[inline]
    pub fn fp(&self, window: &[u8]) -> u64 {
        debug_assert_eq!(window.len(), WINDOW);
        let mut h = 0u64;
        for (i, &b) in window.iter().enumerate() {
            h ^= self.t[i][b as usize];
        }
        h
    }
}

#[derive(Debug, Clone, Copy, PartialEq, Eq)]
pub enum CutKind {
    Fingerprint,
    Max,
    Eof,
}

#[derive(Debug, Clone, PartialEq, Eq)]
pub struct RefChunks {
    pub lens: Vec<usize>,
    pub kinds: Vec<CutKind>,
}

/// The literal reading of the property: starting at the previous cut, the chunk ends at the first
/// length `l >= min` where `l == max` or the fingerprint of the 64 bytes ending there has its low
/// bits (mask = avg-1) zero; the stream end terminates the last chunk.
/// Requires 64 <= min <= avg <= max, avg a power of two.
pub fn ref_chunks(data: &[u8], tab: &FpTable, avg: usize, min: usize, max: usize) -> RefChunks {
    ref_chunks_with(data, avg, min, max, |chunk, l| tab.fp(&chunk[l - WINDOW..l]))
}

/// Model of the implementation's observed deviation (used only to *classify* disagreements, never
/// as the oracle): after reading `min` bytes the window is pre-filled with only 63 of the last 64
/// bytes, so the byte at offset `min-1` of the chunk never enters the window.
pub fn quirk_chunks(data: &[u8], tab: &FpTable, avg: usize, min: usize, max: usize) -> RefChunks {
    ref_chunks_with(data, avg, min, max, |chunk, l| {
        let j = l - min;
        if j >= WINDOW {
            return tab.fp(&chunk[l - WINDOW..l]);
        }
        // sequence: 0, chunk[min-64 .. min-1), chunk[min .. l)   -> last 64 elements
        let mut w = [0u8; WINDOW];
        let mut seq: Vec<u8> = Vec::with_capacity(WINDOW + j);
        seq.push(0);
        seq.extend_from_slice(&chunk[min - WINDOW..min - 1]);
        seq.extend_from_slice(&chunk[min..l]);
        w.copy_from_slice(&seq[seq.len() - WINDOW..]);
        tab.fp(&w)
    })
}

fn ref_chunks_with(
    data: &[u8],
    avg: usize,
    min: usize,
    max: usize,
    fp_at: impl Fn(&[u8], usize) -> u64,
) -> RefChunks {
    assert!(min >= WINDOW && min <= avg && avg <= max && avg.is_power_of_two());
    let mask = (avg as u64) - 1;
    let mut lens = Vec::new();
    let mut kinds = Vec::new();
    let mut start = 0usize;
    while start < data.len() {
        let rest = &data[start..];
        if rest.len() < min {
            lens.push(rest.len());
            kinds.push(CutKind::Eof);
            break;
        }
        let mut l = min;
        let kind = loop {
            if l >= max {
                break CutKind::Max;
            }
            if fp_at(rest, l) & mask == 0 {
                break CutKind::Fingerprint;
            }
            if l == rest.len() {
                break CutKind::Eof;
            }
            l += 1;
        };
        lens.push(l);
        kinds.push(kind);
        start += l;
    }
    RefChunks { lens, kinds }
}

pub fn fixed_chunks(n: usize, size: usize) -> Vec<usize> {
    assert!(size > 0);
    let mut v = vec![size; n / size];
    if n % size != 0 {
        v.push(n % size);
    }
    v
}

/// Ben-Or irreducibility test over GF(2), own implementation (for the `init` polynomial check)
pub fn irreducible(p: u64) -> bool {
    let d = degree(p);
    if d < 1 {
        return false;
    }
    // x^(2^i) mod p, gcd(x^(2^i) - x, p) must be 1 for i = 1..=d/2
    let mulmod = |a: u64, b: u64| -> u64 {
        let mut acc: u128 = 0;
        for bit in 0..64 {
            if (b >> bit) & 1 == 1 {
                acc ^= u128::from(a) << bit;
            }
        }
        mod_p(acc, p)
    };
    let gcd = |mut a: u64, mut b: u64| -> u64 {
        while b != 0 {
            let r = if b == 1 { 0 } else { mod_p(u128::from(a), b) };
            a = b;
            b = r;
        }
        a
    };
    let mut xp = mod_p(2, p); // x
    for _ in 1..=d / 2 {
        xp = mulmod(xp, xp);
        let diff = xp ^ mod_p(2, p);
        if diff == 0 {
            return false;
        }
        if gcd(p, diff) != 1 {
            return false;
        }
    }
    true
}

#[cfg(test)]
mod tests {
    use super::*;

    #[test]
    fn table_matches_definition() {
        let poly = 0x3DA3358B4DC173u64;
        let tab = FpTable::new(poly);
        let mut s = 12345u64;
        for _ in 0..200 {
            let mut w = [0u8; 64];
            for b in w.iter_mut() {
                s ^= s << 13;
                s ^= s >> 7;
                s ^= s << 17;
                *b = s as u8;
            }
            assert_eq!(tab.fp(&w), fp_bitserial(&w, poly));
        }
    }

    #[test]
    fn irreducible_known() {
        assert!(irreducible(0x3DA3358B4DC173));
        assert!(!irreducible(0x3DA3358B4DC172));
        assert!(irreducible(0b111)); // x^2+x+1
        assert!(!irreducible(0b101)); // (x+1)^2
    }
}
