//! Reference implementation of the documented keep rules (C09), written from the property
//! statement. It works on generated civil date-times plus a fixed UTC offset and uses its own
//! calendar arithmetic (no date library), so bucket keys (in particular the ISO week-year) do not
//! share code with the library.

use std::collections::BTreeSet;

use serde::{Deserialize, Serialize};

#[derive(Debug, Clone, Copy, PartialEq, Eq, PartialOrd, Ord, Hash, Serialize, Deserialize)]
pub struct Civil {
    pub y: i32,
    pub mo: u8,
    pub d: u8,
    pub h: u8,
    pub mi: u8,
    pub s: u8,
}

pub fn is_leap(y: i32) -> bool {
    (y % 4 == 0 && y % 100 != 0) || y % 400 == 0
}

pub fn days_in_month(y: i32, m: u8) -> u8 {
    match m {
        1 | 3 | 5 | 7 | 8 | 10 | 12 => 31,
        4 | 6 | 9 | 11 => 30,
        2 => {
            if is_leap(y) {
                29
            } else {
                28
            }
        }
        _ => panic!("bad month"),
    }
}

/// days since 1970-01-01 (proleptic Gregorian), Howard Hinnant's algorithm
pub fn days_from_civil(y: i32, m: u8, d: u8) -> i64 {
    let y = i64::from(y) - i64::from(m <= 2);
    let era = if y >= 0 { y } else { y - 399 } / 400;
    let yoe = y - era * 400;
    let mp = (i64::from(m) + 9) % 12;
    let doy = (153 * mp + 2) / 5 + i64::from(d) - 1;
    let doe = yoe * 365 + yoe / 4 - yoe / 100 + doy;
    era * 146_097 + doe - 719_468
}

/// inverse of `days_from_civil`
pub fn civil_from_days(z: i64) -> (i32, u8, u8) {
    let z = z + 719_468;
    let era = if z >= 0 { z } else { z - 146_096 } / 146_097;
    let doe = z - era * 146_097;
    let yoe = (doe - doe / 1460 + doe / 36_524 - doe / 146_096) / 365;
    let y = yoe + era * 400;
    let doy = doe - (365 * yoe + yoe / 4 - yoe / 100);
    let mp = (5 * doy + 2) / 153;
    let d = (doy - (153 * mp + 2) / 5 + 1) as u8;
    let m = if mp < 10 { mp + 3 } else { mp - 9 } as u8;
    ((y + i64::from(m <= 2)) as i32, m, d)
}

impl Civil {
    /// wall-clock time of `instant` at `offset` seconds east of UTC
    pub fn from_instant(instant: i64, offset: i32) -> Civil {
        let local = instant + i64::from(offset);
        let days = local.div_euclid(86_400);
        let sod = local.rem_euclid(86_400);
        let (y, mo, d) = civil_from_days(days);
        Civil {
            y,
            mo,
            d,
            h: (sod / 3600) as u8,
            mi: (sod % 3600 / 60) as u8,
            s: (sod % 60) as u8,
        }
    }

    /// seconds since the epoch of this wall-clock time interpreted at `offset` seconds east of UTC
    pub fn instant(&self, offset: i32) -> i64 {
        days_from_civil(self.y, self.mo, self.d) * 86_400
            + i64::from(self.h) * 3600
            + i64::from(self.mi) * 60
            + i64::from(self.s)
            - i64::from(offset)
    }

    /// ISO 8601 (week-year, week)
    pub fn iso_week(&self) -> (i32, u8) {
        let days = days_from_civil(self.y, self.mo, self.d);
        // 1970-01-01 was a Thursday; ISO weekday Monday=1..Sunday=7
        let wd = ((days + 3).rem_euclid(7)) + 1;
        // the Thursday of this week decides the week-year
        let thursday = days - wd + 4;
        // find year of that Thursday
        let mut y = self.y;
        if thursday < days_from_civil(y, 1, 1) {
            y -= 1;
        } else if thursday >= days_from_civil(y + 1, 1, 1) {
            y += 1;
        }
        let week = (thursday - days_from_civil(y, 1, 1)) / 7 + 1;
        (y, week as u8)
    }

    pub fn add_months_clamped(&self, n: i32) -> Civil {
        let total = self.y * 12 + i32::from(self.mo) - 1 + n;
        let y = total.div_euclid(12);
        let mo = (total.rem_euclid(12) + 1) as u8;
        let d = self.d.min(days_in_month(y, mo));
        Civil { y, mo, d, ..*self }
    }
}

#[derive(Debug, Clone, PartialEq, Eq, Serialize, Deserialize)]
pub enum RDelete {
    NotSet,
    Never,
    /// instant (seconds since epoch)
    After(i64),
}

#[derive(Debug, Clone, PartialEq, Eq, Serialize, Deserialize)]
pub struct RSnap {
    pub civil: Civil,
    /// seconds east of UTC
    pub offset: i32,
    pub id_hex: String,
    pub tags: BTreeSet<String>,
    pub delete: RDelete,
}

impl RSnap {
    pub fn instant(&self) -> i64 {
        self.civil.instant(self.offset)
    }
}

#[derive(Debug, Clone, Copy, PartialEq, Eq, Serialize, Deserialize)]
pub enum RSpan {
    Years(i32),
    Months(i32),
    Weeks(i32),
    Days(i32),
    Hours(i32),
    Minutes(i32),
    Seconds(i32),
}

impl RSpan {
    pub fn is_calendar(&self) -> bool {
        matches!(self, RSpan::Years(_) | RSpan::Months(_))
    }
    fn fixed_secs(&self) -> Option<i64> {
        Some(match *self {
            RSpan::Weeks(n) => i64::from(n) * 7 * 86_400,
            RSpan::Days(n) => i64::from(n) * 86_400,
            RSpan::Hours(n) => i64::from(n) * 3600,
            RSpan::Minutes(n) => i64::from(n) * 60,
            RSpan::Seconds(n) => i64::from(n),
            _ => return None,
        })
    }
}

pub const RULES: [&str; 9] = [
    "last",
    "minutely",
    "hourly",
    "daily",
    "weekly",
    "monthly",
    "quarter-yearly",
    "half-yearly",
    "yearly",
];
pub const WITHIN: [&str; 9] = [
    "within",
    "within minutely",
    "within hourly",
    "within daily",
    "within weekly",
    "within monthly",
    "within quarter-yearly",
    "within half-yearly",
    "within yearly",
];

#[derive(Debug, Clone, PartialEq, Eq, Serialize, Deserialize, Default)]
pub struct RKeep {
    /// counters in the order of `RULES`
    pub counts: [Option<i32>; 9],
    /// spans in the order of `WITHIN`
    pub within: [Option<RSpan>; 9],
    pub tags: Vec<BTreeSet<String>>,
    pub ids: Vec<String>,
    pub none: bool,
}

impl RKeep {
    pub fn is_valid(&self) -> bool {
        self.none
            || !self.tags.is_empty()
            || !self.ids.is_empty()
            || self.counts.iter().any(Option::is_some)
            || self.within.iter().any(Option::is_some)
    }
}

/// bucket key of a snapshot under rule index `r` (None for "last": every snapshot is its own bucket)
fn bucket(r: usize, c: &Civil) -> Option<(i32, i32, i32, i32, i32)> {
    let (y, mo, d, h, mi) = (
        c.y,
        i32::from(c.mo),
        i32::from(c.d),
        i32::from(c.h),
        i32::from(c.mi),
    );
    Some(match r {
        0 => return None,
        1 => (y, mo, d, h, mi),
        2 => (y, mo, d, h, 0),
        3 => (y, mo, d, 0, 0),
        4 => {
            let (wy, w) = c.iso_week();
            (wy, i32::from(w), 0, 0, 0)
        }
        5 => (y, mo, 0, 0, 0),
        6 => (y, (mo - 1) / 3, 0, 0, 0),
        7 => (y, (mo - 1) / 6, 0, 0, 0),
        8 => (y, 0, 0, 0, 0),
        _ => unreachable!(),
    })
}

#[derive(Debug, Clone, PartialEq, Eq)]
pub struct RDecision {
    pub keep: bool,
    pub reasons: BTreeSet<String>,
}

#[derive(Debug, Clone, Copy, PartialEq, Eq)]
pub enum WithinVerdict {
    In,
    Out,
    /// "newest - span" and "snapshot + span" readings disagree (calendar units): not judged
    Ambiguous,
}

/// is `sn` within `span` counted back from `newest`?
pub fn within(sn: &RSnap, newest: &RSnap, span: RSpan) -> WithinVerdict {
    if let Some(secs) = span.fixed_secs() {
        return if sn.instant() + secs > newest.instant() {
            WithinVerdict::In
        } else {
            WithinVerdict::Out
        };
    }
    let months = match span {
        RSpan::Years(n) => n * 12,
        RSpan::Months(n) => n,
        _ => unreachable!(),
    };
    // reading 1: snapshot + span > newest  (wall clock arithmetic in the snapshot's own offset)
    let fwd = sn.civil.add_months_clamped(months).instant(sn.offset) > newest.instant();
    // reading 2: snapshot > newest - span  (wall clock arithmetic in the newest snapshot's offset)
    let back = sn.instant() > newest.civil.add_months_clamped(-months).instant(newest.offset);
    match (fwd, back) {
        (true, true) => WithinVerdict::In,
        (false, false) => WithinVerdict::Out,
        _ => WithinVerdict::Ambiguous,
    }
}

/// How snapshots carrying their own delete mark interact with the period rules; the statement
/// leaves this open, so the check accepts any of the readings.
#[derive(Debug, Clone, Copy, PartialEq, Eq)]
pub struct MarkReading {
    /// a marked snapshot still counts as "a newer snapshot of the same period" for the next one
    pub visible_for_bucket: bool,
    /// a snapshot kept by its mark uses up one unit of every counter it would have matched
    pub consumes_counter: bool,
}

pub const MARK_READINGS: [MarkReading; 4] = [
    MarkReading {
        visible_for_bucket: true,
        consumes_counter: false,
    },
    MarkReading {
        visible_for_bucket: false,
        consumes_counter: false,
    },
    MarkReading {
        visible_for_bucket: true,
        consumes_counter: true,
    },
    MarkReading {
        visible_for_bucket: false,
        consumes_counter: true,
    },
];

pub enum RefOutcome {
    Decisions(Vec<RDecision>),
    /// a within test was ambiguous for some snapshot that reached it
    Ambiguous,
}

/// `snaps` must be sorted newest first (ties in any order). `now` = instant.
pub fn reference(snaps: &[RSnap], keep: &RKeep, now: i64, reading: MarkReading) -> RefOutcome {
    let mut counts = keep.counts;
    let mut out = Vec::with_capacity(snaps.len());
    // per rule: the periods that already contain a newer snapshot
    let mut seen: [BTreeSet<(i32, i32, i32, i32, i32)>; 9] = Default::default();
    let newest = match snaps.first() {
        Some(s) => s,
        None => return RefOutcome::Decisions(out),
    };
    for (i, sn) in snaps.iter().enumerate() {
        let has_next = i + 1 < snaps.len();
        let mark_keep = match sn.delete {
            RDelete::Never => true,
            RDelete::After(t) => t >= now,
            RDelete::NotSet => false,
        };
        let mark_delete = matches!(sn.delete, RDelete::After(t) if t < now);
        let marked = mark_keep || mark_delete;

        let mut reasons = BTreeSet::new();
        if !marked || (mark_keep && reading.consumes_counter) {
            if !marked {
                if keep.ids.iter().any(|p| sn.id_hex.starts_with(p.as_str())) {
                    reasons.insert("id".to_string());
                }
                if keep.tags.iter().any(|t| t.is_subset(&sn.tags)) {
                    reasons.insert("tags".to_string());
                }
            }
            for r in 0..9 {
                let first_of_bucket = match bucket(r, &sn.civil) {
                    None => true,
                    Some(b) => !seen[r].contains(&b),
                };
                let candidate = first_of_bucket || !has_next;
                if !candidate {
                    continue;
                }
                if let Some(c) = &mut counts[r] {
                    if *c != 0 {
                        if !marked {
                            reasons.insert(RULES[r].to_string());
                        }
                        if *c > 0 {
                            *c -= 1;
                        }
                    }
                }
                if !marked {
                    if let Some(span) = keep.within[r] {
                        match within(sn, newest, span) {
                            WithinVerdict::In => {
                                reasons.insert(WITHIN[r].to_string());
                            }
                            WithinVerdict::Out => {}
                            WithinVerdict::Ambiguous => return RefOutcome::Ambiguous,
                        }
                    }
                }
            }
        }
        let decision = if mark_keep {
            RDecision {
                keep: true,
                reasons: BTreeSet::from(["snapshot".to_string()]),
            }
        } else if mark_delete {
            RDecision {
                keep: false,
                reasons: BTreeSet::from(["snapshot".to_string()]),
            }
        } else {
            RDecision {
                keep: !reasons.is_empty(),
                reasons,
            }
        };
        out.push(decision);
        if !marked || reading.visible_for_bucket {
            for (r, set) in seen.iter_mut().enumerate() {
                if let Some(b) = bucket(r, &sn.civil) {
                    _ = set.insert(b);
                }
            }
        }
    }
    RefOutcome::Decisions(out)
}

#[cfg(test)]
mod tests {
    use super::*;

    #[test]
    fn iso_weeks() {
        let c = |y, mo, d| Civil {
            y,
            mo,
            d,
            h: 0,
            mi: 0,
            s: 0,
        };
        assert_eq!(c(2015, 12, 31).iso_week(), (2015, 53));
        assert_eq!(c(2016, 1, 1).iso_week(), (2015, 53));
        assert_eq!(c(2016, 1, 4).iso_week(), (2016, 1));
        assert_eq!(c(2018, 12, 31).iso_week(), (2019, 1));
        assert_eq!(c(2018, 1, 1).iso_week(), (2018, 1));
        assert_eq!(c(2021, 1, 3).iso_week(), (2020, 53));
        assert_eq!(c(2024, 12, 30).iso_week(), (2025, 1));
        assert_eq!(days_from_civil(1970, 1, 1), 0);
        assert_eq!(days_from_civil(2000, 3, 1), 11017);
        for z in [-800_000i64, -1, 0, 1, 59, 60, 11017, 20000, 400_000] {
            let (y, m, d) = civil_from_days(z);
            assert_eq!(days_from_civil(y, m, d), z);
        }
    }
}
