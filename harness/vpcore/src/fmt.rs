//! Independent decoder / encoder for the restic repository format.
//!
//! Written from the format description (restic design document), not from the library's
//! types: only the cryptographic primitives (`aes256ctr_poly1305aes`, `sha2`, `zstd`) are shared.
//!
//! * key: 64 bytes = AES-256 key (32) || Poly1305-AES k (16) || r (16)
//! * message: nonce (16) || ciphertext || tag (16)
//! * repository file (snapshot / index / config): message whose plaintext is JSON starting with
//!   `{` or `[`, or the byte 0x02 followed by a zstd frame of that JSON
//! * pack: blob messages back to back, then a message holding the header, then `u32 LE` = length
//!   of that header message. Header entry: type byte (0 data, 1 tree, 2 compressed data,
//!   3 compressed tree), `u32 LE` stored length, for compressed entries `u32 LE` plaintext length,
//!   32-byte id.

use aes256ctr_poly1305aes::{
    Aes256CtrPoly1305Aes,
    aead::{Aead, generic_array::GenericArray},
};
use serde::{Deserialize, Serialize};
use sha2::{Digest, Sha256};

pub type Key64 = [u8; 64];
pub type Id32 = [u8; 32];

#[derive(Debug, Clone, PartialEq, Eq)]
pub enum FmtError {
    TooShort,
    Mac,
    Framing(String),
    Zstd(String),
    Header(String),
}

impl std::fmt::Display for FmtError {
    fn fmt(&self, f: &mut std::fmt::Formatter<'_>) -> std::fmt::Result {
        write!(f, "{self:?}")
    }
}

pub fn sha256(data: &[u8]) -> Id32 {
    let mut h = Sha256::new();
    h.update(data);
    let out = h.finalize();
    let mut id = [0u8; 32];
    id.copy_from_slice(&out);
    id
}

pub fn hex_id(id: &Id32) -> String {
    hex::encode(id)
}

pub fn parse_id(s: &str) -> Option<Id32> {
    let v = hex::decode(s).ok()?;
    if v.len() != 32 {
        return None;
    }
    let mut id = [0u8; 32];
    id.copy_from_slice(&v);
    Some(id)
}

/// Assemble the 64-byte key from the three parts stored in a key file / master key
pub fn key_from_parts(encrypt: &[u8], k: &[u8], r: &[u8]) -> Option<Key64> {
    if encrypt.len() != 32 || k.len() != 16 || r.len() != 16 {
        return None;
    }
    let mut key = [0u8; 64];
    key[..32].copy_from_slice(encrypt);
    key[32..48].copy_from_slice(k);
    key[48..].copy_from_slice(r);
    Some(key)
}

/// Decrypt one message: nonce || ciphertext || tag
pub fn open_message(key: &Key64, msg: &[u8]) -> Result<Vec<u8>, FmtError> {
    if msg.len() < 32 {
        return Err(FmtError::TooShort);
    }
    let cipher = Aes256CtrPoly1305Aes::new(GenericArray::from_slice(key));
    cipher
        .decrypt(GenericArray::from_slice(&msg[..16]), &msg[16..])
        .map_err(|_| FmtError::Mac)
}

/// Encrypt one message with the given nonce
pub fn seal_message(key: &Key64, nonce: &[u8; 16], plain: &[u8]) -> Vec<u8> {
    let cipher = Aes256CtrPoly1305Aes::new(GenericArray::from_slice(key));
    let ct = cipher
        .encrypt(GenericArray::from_slice(nonce), plain)
        .expect("encryption cannot fail");
    let mut out = Vec::with_capacity(16 + ct.len());
    out.extend_from_slice(nonce);
    out.extend_from_slice(&ct);
    out
}

pub fn nonce_of(msg: &[u8]) -> Option<[u8; 16]> {
    if msg.len() < 32 {
        return None;
    }
    let mut n = [0u8; 16];
    n.copy_from_slice(&msg[..16]);
    Some(n)
}

/// Decode a repository file (snapshot, index, config) to its JSON bytes
pub fn decode_file(key: &Key64, raw: &[u8]) -> Result<Vec<u8>, FmtError> {
    let plain = open_message(key, raw)?;
    match plain.first() {
        Some(b'{' | b'[') => Ok(plain),
        Some(2) => zstd::stream::decode_all(&plain[1..]).map_err(|e| FmtError::Zstd(e.to_string())),
        other => Err(FmtError::Framing(format!("first plaintext byte {other:?}"))),
    }
}

/// Encode a repository file; `zstd_level = None` stores the JSON uncompressed
pub fn encode_file(key: &Key64, nonce: &[u8; 16], json: &[u8], zstd_level: Option<i32>) -> Vec<u8> {
    match zstd_level {
        None => seal_message(key, nonce, json),
        Some(level) => {
            let mut plain = vec![2u8];
            plain.extend_from_slice(
                &zstd::stream::encode_all(json, level).expect("zstd encode cannot fail"),
            );
            seal_message(key, nonce, &plain)
        }
    }
}

#[derive(Debug, Clone, Copy, PartialEq, Eq, PartialOrd, Ord, Hash, Serialize, Deserialize)]
pub enum BType {
    Data,
    Tree,
}

impl BType {
    pub fn as_str(self) -> &'static str {
        match self {
            BType::Data => "data",
            BType::Tree => "tree",
        }
    }
    pub fn parse(s: &str) -> Option<Self> {
        match s {
            "data" => Some(BType::Data),
            "tree" => Some(BType::Tree),
            _ => None,
        }
    }
}

#[derive(Debug, Clone, PartialEq, Eq)]
pub struct TrailerEntry {
    pub tpe: BType,
    pub id: Id32,
    pub offset: u32,
    pub length: u32,
    pub uncompressed_length: Option<u32>,
}

#[derive(Debug, Clone, PartialEq, Eq)]
pub struct PackInfo {
    pub entries: Vec<TrailerEntry>,
    /// length of the encrypted header message
    pub header_len: u32,
}

/// Parse the plaintext of a pack header into entries (offsets assigned consecutively from 0)
pub fn parse_header_plain(plain: &[u8]) -> Result<Vec<TrailerEntry>, FmtError> {
    let mut entries = Vec::new();
    let mut pos = 0usize;
    let mut offset: u64 = 0;
    while pos < plain.len() {
        let t = plain[pos];
        let (tpe, compressed) = match t {
            0 => (BType::Data, false),
            1 => (BType::Tree, false),
            2 => (BType::Data, true),
            3 => (BType::Tree, true),
            x => return Err(FmtError::Header(format!("unknown entry type {x} at {pos}"))),
        };
        let need = if compressed { 41 } else { 37 };
        if plain.len() - pos < need {
            return Err(FmtError::Header(format!("truncated entry at {pos}")));
        }
        let length = u32::from_le_bytes(plain[pos + 1..pos + 5].try_into().unwrap());
        let (uncompressed_length, idpos) = if compressed {
            (
                Some(u32::from_le_bytes(plain[pos + 5..pos + 9].try_into().unwrap())),
                pos + 9,
            )
        } else {
            (None, pos + 5)
        };
        let mut id = [0u8; 32];
        id.copy_from_slice(&plain[idpos..idpos + 32]);
        if offset > u64::from(u32::MAX) {
            return Err(FmtError::Header("offset overflow".into()));
        }
        entries.push(TrailerEntry {
            tpe,
            id,
            offset: offset as u32,
            length,
            uncompressed_length,
        });
        offset += u64::from(length);
        pos += need;
    }
    Ok(entries)
}

/// Serialize entries to the plaintext pack header
pub fn header_plain(entries: &[TrailerEntry]) -> Vec<u8> {
    let mut out = Vec::new();
    for e in entries {
        let t = match (e.tpe, e.uncompressed_length.is_some()) {
            (BType::Data, false) => 0u8,
            (BType::Tree, false) => 1,
            (BType::Data, true) => 2,
            (BType::Tree, true) => 3,
        };
        out.push(t);
        out.extend_from_slice(&e.length.to_le_bytes());
        if let Some(ul) = e.uncompressed_length {
            out.extend_from_slice(&ul.to_le_bytes());
        }
        out.extend_from_slice(&e.id);
    }
    out
}

/// Decode the trailer of a complete pack file
pub fn parse_pack(key: &Key64, pack: &[u8]) -> Result<PackInfo, FmtError> {
    if pack.len() < 4 + 32 {
        return Err(FmtError::TooShort);
    }
    let header_len = u32::from_le_bytes(pack[pack.len() - 4..].try_into().unwrap());
    let hl = header_len as usize;
    if hl + 4 > pack.len() {
        return Err(FmtError::Header(format!(
            "header length {hl} exceeds pack size {}",
            pack.len()
        )));
    }
    let start = pack.len() - 4 - hl;
    let plain = open_message(key, &pack[start..pack.len() - 4])?;
    let entries = parse_header_plain(&plain)?;
    Ok(PackInfo {
        entries,
        header_len,
    })
}

/// Decode one blob of a pack to its plaintext
pub fn decode_blob(key: &Key64, pack: &[u8], e: &TrailerEntry) -> Result<Vec<u8>, FmtError> {
    let start = e.offset as usize;
    let end = start
        .checked_add(e.length as usize)
        .ok_or_else(|| FmtError::Header("blob range overflow".into()))?;
    if end > pack.len() {
        return Err(FmtError::Header(format!(
            "blob range {start}..{end} outside pack of {}",
            pack.len()
        )));
    }
    let plain = open_message(key, &pack[start..end])?;
    match e.uncompressed_length {
        None => Ok(plain),
        Some(ul) => {
            let data =
                zstd::stream::decode_all(&plain[..]).map_err(|e| FmtError::Zstd(e.to_string()))?;
            if data.len() != ul as usize {
                return Err(FmtError::Framing(format!(
                    "uncompressed length {} recorded, {} found",
                    ul,
                    data.len()
                )));
            }
            Ok(data)
        }
    }
}

/// Full self-consistency check of one pack file: trailer decodes, entries tile the blob area
/// exactly, every blob authenticates, decompresses to the recorded length and hashes to its id.
/// Returns the entries.
pub fn verify_pack(key: &Key64, name: &Id32, pack: &[u8]) -> Result<PackInfo, String> {
    if &sha256(pack) != name {
        return Err(format!(
            "pack {} : name is not the SHA-256 of its bytes",
            hex_id(name)
        ));
    }
    let info = parse_pack(key, pack).map_err(|e| format!("pack {}: {e}", hex_id(name)))?;
    let blob_area = pack.len() as u64 - 4 - u64::from(info.header_len);
    let mut expect: u64 = 0;
    for e in &info.entries {
        if u64::from(e.offset) != expect {
            return Err(format!("pack {}: entries do not tile", hex_id(name)));
        }
        expect += u64::from(e.length);
    }
    if expect != blob_area {
        return Err(format!(
            "pack {}: trailer covers {expect} bytes, blob area has {blob_area}",
            hex_id(name)
        ));
    }
    for e in &info.entries {
        let data = decode_blob(key, pack, e)
            .map_err(|err| format!("pack {} blob {}: {err}", hex_id(name), hex_id(&e.id)))?;
        if sha256(&data) != e.id {
            return Err(format!(
                "pack {} blob {}: plaintext does not hash to its id",
                hex_id(name),
                hex_id(&e.id)
            ));
        }
    }
    Ok(info)
}

/// Build a complete pack file from plaintext blobs (used to craft repository states)
pub fn build_pack(
    key: &Key64,
    blobs: &[(BType, Vec<u8>)],
    zstd_level: Option<i32>,
    nonce_seed: &mut u64,
) -> (Id32, Vec<u8>, Vec<TrailerEntry>) {
    let mut pack = Vec::new();
    let mut entries = Vec::new();
    for (tpe, data) in blobs {
        let (stored, ul) = match zstd_level {
            None => (data.clone(), None),
            Some(l) => (
                zstd::stream::encode_all(&data[..], l).unwrap(),
                Some(data.len() as u32),
            ),
        };
        let msg = seal_message(key, &next_nonce(nonce_seed), &stored);
        entries.push(TrailerEntry {
            tpe: *tpe,
            id: sha256(data),
            offset: pack.len() as u32,
            length: msg.len() as u32,
            uncompressed_length: ul,
        });
        pack.extend_from_slice(&msg);
    }
    let header = seal_message(key, &next_nonce(nonce_seed), &header_plain(&entries));
    pack.extend_from_slice(&header);
    pack.extend_from_slice(&(header.len() as u32).to_le_bytes());
    (sha256(&pack), pack, entries)
}

/// Deterministic nonce source for crafted files (never used for anything judged on nonce freshness)
pub fn next_nonce(seed: &mut u64) -> [u8; 16] {
    let mut n = [0u8; 16];
    for chunk in n.chunks_mut(8) {
        *seed ^= *seed << 13;
        *seed ^= *seed >> 7;
        *seed ^= *seed << 17;
        chunk.copy_from_slice(&seed.to_le_bytes());
    }
    n
}

/// Index file as plain data (decoded from JSON by hand-written accessors over `serde_json::Value`)
#[derive(Debug, Clone, PartialEq, Eq, Serialize, Deserialize)]
pub struct IdxBlob {
    pub id: String,
    #[serde(rename = "type")]
    pub tpe: String,
    pub offset: u32,
    pub length: u32,
    #[serde(default, skip_serializing_if = "Option::is_none")]
    pub uncompressed_length: Option<u32>,
}

#[derive(Debug, Clone, PartialEq, Eq, Serialize, Deserialize)]
pub struct IdxPack {
    pub id: String,
    pub blobs: Vec<IdxBlob>,
    #[serde(default, skip_serializing_if = "Option::is_none")]
    pub time: Option<String>,
    #[serde(default, skip_serializing_if = "Option::is_none")]
    pub size: Option<u32>,
}

#[derive(Debug, Clone, PartialEq, Eq, Serialize, Deserialize, Default)]
pub struct IdxFile {
    #[serde(default, skip_serializing_if = "Option::is_none")]
    pub supersedes: Option<Vec<String>>,
    #[serde(default)]
    pub packs: Vec<IdxPack>,
    #[serde(default, skip_serializing_if = "Vec::is_empty")]
    pub packs_to_delete: Vec<IdxPack>,
}

impl IdxPack {
    /// size as recorded, else computed from the blobs: 4 + 32 + sum(len + entry)
    pub fn pack_size(&self) -> u64 {
        match self.size {
            Some(s) => u64::from(s),
            None => {
                36 + self
                    .blobs
                    .iter()
                    .map(|b| {
                        u64::from(b.length)
                            + if b.uncompressed_length.is_some() {
                                41
                            } else {
                                37
                            }
                    })
                    .sum::<u64>()
            }
        }
    }
}

pub fn parse_index(json: &[u8]) -> Result<IdxFile, String> {
    serde_json::from_slice(json).map_err(|e| e.to_string())
}

#[cfg(test)]
mod tests {
    use super::*;

    #[test]
    fn pack_roundtrip() {
        let key = [7u8; 64];
        let mut seed = 1;
        let blobs = vec![
            (BType::Data, vec![1u8; 100]),
            (BType::Data, vec![]),
            (BType::Data, b"hello".to_vec()),
        ];
        for lvl in [None, Some(3)] {
            let (id, pack, entries) = build_pack(&key, &blobs, lvl, &mut seed);
            let info = verify_pack(&key, &id, &pack).unwrap();
            assert_eq!(info.entries, entries);
        }
    }

    #[test]
    fn file_roundtrip() {
        let key = [9u8; 64];
        for lvl in [None, Some(0), Some(19)] {
            let raw = encode_file(&key, &[1; 16], b"{\"a\":1}", lvl);
            assert_eq!(decode_file(&key, &raw).unwrap(), b"{\"a\":1}");
        }
    }
}
