//! Oracles that are independent of the library under test: format codec, reference chunker,
//! reference retention rules, reference index. Depends on `rustic_core` only for the hook
//! entry points used by the byte-level targets.
pub mod chunkref;
pub mod fmt;
pub mod indexref;
pub mod retention;
