//! Helpers to drive the library in-process: repository configurations, init/open on a
//! `MemBackend`, backup of a model tree, reading a snapshot back through every read path and
//! comparing it with the model.

use std::{
    collections::BTreeMap,
    os::unix::ffi::OsStrExt,
    path::PathBuf,
    sync::Arc,
};

use proptest::prelude::*;
use rustic_core::{
    BackupOptions, CheckOptions, Credentials, IndexedFull, IndexedFullStatus, IndexedIdsStatus,
    KeyOptions, LsOptions, OpenStatus, Repository, RepositoryBackends, RepositoryOptions,
    SnapshotOptions, WriteBackend,
    jiff::{Timestamp, Zoned, tz::TimeZone},
    repofile::{Chunker, ConfigFile, MasterKey, Node, NodeType, SnapshotFile},
};
use serde::{Deserialize, Serialize};

use crate::{
    engine::guarded,
    membe::{MemBackend, Storage},
    model::{Flat, FlatKind, MNode, MTime, MemSource, ReadSchedule},
};

pub type RepoOpen = Repository<OpenStatus>;
pub type RepoIds = Repository<IndexedIdsStatus>;
pub type RepoFull = Repository<IndexedFullStatus>;

#[derive(Debug, Clone, PartialEq, Eq, Hash, Serialize, Deserialize)]
pub enum ChunkerCfg {
    Rabin { avg_log2: u8, min: u32, max: u32 },
    Fixed { size: u32 },
    /// library defaults (1 MiB average)
    Default,
}

#[derive(Debug, Clone, PartialEq, Eq, Hash, Serialize, Deserialize)]
pub struct PackCfg {
    pub size: Option<u32>,
    pub grow: Option<u32>,
    pub limit: Option<u32>,
}

#[derive(Debug, Clone, PartialEq, Eq, Hash, Serialize, Deserialize)]
pub struct RepoCfg {
    pub version: u8,
    /// None = unset
    pub compression: Option<i32>,
    pub chunker: ChunkerCfg,
    pub tree_pack: PackCfg,
    pub data_pack: PackCfg,
    pub extra_verify: Option<bool>,
    pub poly: u64,
    pub key_seed: u64,
}

impl RepoCfg {
    pub fn simple() -> Self {
        Self {
            version: 2,
            compression: None,
            chunker: ChunkerCfg::Rabin {
                avg_log2: 9,
                min: 128,
                max: 2048,
            },
            tree_pack: PackCfg {
                size: Some(4096),
                grow: Some(0),
                limit: None,
            },
            data_pack: PackCfg {
                size: Some(8192),
                grow: Some(0),
                limit: None,
            },
            extra_verify: Some(false),
            poly: crate::props::c06::POLYS[0],
            key_seed: 1,
        }
    }

    pub fn config_file(&self) -> ConfigFile {
        let mut c = ConfigFile::default();
        c.version = u32::from(self.version);
        let mut idb = [0u8; 32];
        idb[..8].copy_from_slice(&crate::model::splitmix(self.key_seed ^ 0x1D).to_le_bytes());
        c.id = hex::encode(idb).parse().expect("repo id");
        c.chunker_polynomial = format!("{:x}", self.poly);
        match self.chunker {
            ChunkerCfg::Rabin { avg_log2, min, max } => {
                c.chunker = Some(Chunker::Rabin);
                c.chunk_size = Some(1usize << avg_log2);
                c.chunk_min_size = Some(min as usize);
                c.chunk_max_size = Some(max as usize);
            }
            ChunkerCfg::Fixed { size } => {
                c.chunker = Some(Chunker::FixedSize);
                c.chunk_size = Some(size as usize);
            }
            ChunkerCfg::Default => {}
        }
        if self.version >= 2 {
            c.compression = self.compression;
        }
        c.treepack_size = self.tree_pack.size;
        c.treepack_growfactor = self.tree_pack.grow;
        c.treepack_size_limit = self.tree_pack.limit;
        c.datapack_size = self.data_pack.size;
        c.datapack_growfactor = self.data_pack.grow;
        c.datapack_size_limit = self.data_pack.limit;
        c.extra_verify = self.extra_verify;
        c
    }

    pub fn key64(&self) -> [u8; 64] {
        let mut k = [0u8; 64];
        let mut z = self.key_seed;
        for chunk in k.chunks_mut(8) {
            z = crate::model::splitmix(z);
            chunk.copy_from_slice(&z.to_le_bytes());
        }
        k
    }

    pub fn master_key(&self) -> MasterKey {
        master_key_of(&self.key64())
    }

    pub fn credentials(&self) -> Credentials {
        Credentials::Masterkey(self.master_key())
    }

    /// (avg, min, max) if the chunking of a file can be predicted by the reference chunker
    pub fn rabin_params(&self) -> Option<(usize, usize, usize)> {
        match self.chunker {
            ChunkerCfg::Rabin { avg_log2, min, max } => {
                Some((1usize << avg_log2, min as usize, max as usize))
            }
            ChunkerCfg::Default => Some((1 << 20, 512 << 10, 8 << 20)),
            ChunkerCfg::Fixed { .. } => None,
        }
    }

    /// a typical chunk size, used to size generated files relative to the configuration
    pub fn unit(&self) -> u32 {
        match self.chunker {
            ChunkerCfg::Rabin { avg_log2, .. } => 1 << avg_log2,
            ChunkerCfg::Fixed { size } => size,
            ChunkerCfg::Default => 1 << 20,
        }
    }
}

pub fn master_key_of(k: &[u8; 64]) -> MasterKey {
    let json = serde_json::json!({
        "mac": {"k": base64(&k[32..48]), "r": base64(&k[48..64])},
        "encrypt": base64(&k[..32]),
    });
    serde_json::from_value(json).expect("master key")
}

pub fn key64_of(mk: &MasterKey) -> [u8; 64] {
    vpcore::fmt::key_from_parts(&mk.encrypt, &mk.mac.k, &mk.mac.r).expect("key parts")
}

fn base64(b: &[u8]) -> String {
    const T: &[u8; 64] = b"ABCDEFGHIJKLMNOPQRSTUVWXYZabcdefghijklmnopqrstuvwxyz0123456789+/";
    let mut out = String::new();
    for chunk in b.chunks(3) {
        let n = chunk.len();
        let v = (u32::from(chunk[0]) << 16)
            | (u32::from(*chunk.get(1).unwrap_or(&0)) << 8)
            | u32::from(*chunk.get(2).unwrap_or(&0));
        out.push(T[(v >> 18) as usize & 63] as char);
        out.push(T[(v >> 12) as usize & 63] as char);
        out.push(if n > 1 { T[(v >> 6) as usize & 63] as char } else { '=' });
        out.push(if n > 2 { T[v as usize & 63] as char } else { '=' });
    }
    out
}

/// Repository configurations: everything the library accepts, sized so that generated files
/// span several chunks and packs.
pub fn repo_cfg() -> impl Strategy<Value = RepoCfg> {
    let chunker = prop_oneof![
        6 => (6u8..=11, any::<u16>(), 0u8..4, any::<u16>()).prop_map(|(k, minr, maxk, maxr)| {
            let avg: u32 = 1 << k;
            let min = 64 + u32::from(minr) % (avg - 63);
            let max = match maxk {
                0 => avg,
                1 => avg * 2,
                2 => avg * 8,
                _ => avg + u32::from(maxr) % (7 * avg + 1),
            };
            ChunkerCfg::Rabin { avg_log2: k, min, max }
        }),
        3 => prop_oneof![1u32..64, 64u32..5000, 5000u32..70_000].prop_map(|size| ChunkerCfg::Fixed { size }),
        1 => Just(ChunkerCfg::Default),
    ];
    let pack = || {
        (
            prop_oneof![
                2 => Just(Some(0u32)),
                4 => (1u32..20_000).prop_map(Some),
                2 => (20_000u32..400_000).prop_map(Some),
                1 => Just(None),
            ],
            prop_oneof![3 => Just(Some(0u32)), 1 => Just(Some(1u32)), 1 => Just(None), 1 => Just(Some(32u32))],
            prop_oneof![3 => Just(None), 1 => (1u32..100_000).prop_map(Some)],
        )
            .prop_map(|(size, grow, limit)| PackCfg { size, grow, limit })
    };
    (
        prop_oneof![1 => Just(1u8), 3 => Just(2u8)],
        prop_oneof![
            40 => Just(None),
            40 => Just(Some(0)),
            40 => (1i32..=6).prop_map(Some),
            20 => (-7i32..=-1).prop_map(Some),
            // zstd's "ultra" levels (20–22) allocate about 1 GB per compression context, cost about a
            // second per blob and the packer compresses on one thread per core: not generated here;
            // C01 and C18 generate them with small sources, serialised by `ultra_gate`
            // levels 20–22 only where the generated source is small (C01, C18), see below
            20 => (7i32..=19).prop_map(Some),
        ],
        chunker,
        pack(),
        pack(),
        prop_oneof![Just(None), Just(Some(true)), Just(Some(false))],
        prop::sample::select(crate::props::c06::POLYS.to_vec()),
        1u64..1_000_000,
    )
        .prop_map(
            |(version, compression, chunker, tree_pack, data_pack, extra_verify, poly, key_seed)| {
                RepoCfg {
                    version,
                    compression: if version == 1 { None } else { compression },
                    chunker,
                    tree_pack,
                    data_pack,
                    extra_verify,
                    poly,
                    key_seed,
                }
            },
        )
}

pub fn repo_opts() -> RepositoryOptions {
    RepositoryOptions::default().no_cache(true)
}

pub fn backends(be: MemBackend) -> RepositoryBackends {
    RepositoryBackends::new(Arc::new(be) as Arc<dyn WriteBackend>, None)
}

pub fn estr(e: &rustic_core::RusticError) -> String {
    e.display_log()
}

static ULTRA: std::sync::Mutex<Option<std::fs::File>> = std::sync::Mutex::new(None);

/// Memory gate for zstd's ultra levels (20–22): a backup at such a level needs several GB (one
/// ~1 GB context per packer thread). At most one such case runs at a time across all worker
/// processes (advisory lock on a file in /dev/shm); the lock is held until this process passes the
/// gate again.
pub fn ultra_gate(level: Option<i32>) {
    use std::os::fd::AsRawFd;
    let mut g = ULTRA.lock().unwrap();
    *g = None;
    if level.is_some_and(|l| l >= 20) {
        let dir = if std::path::Path::new("/dev/shm").is_dir() { "/dev/shm" } else { "/tmp" };
        if let Ok(f) = std::fs::OpenOptions::new().create(true).write(true).truncate(false).open(format!("{dir}/vp-ultra.lock")) {
            // waiting for the gate is progress as far as the deadlock detector is concerned
            // SAFETY: plain system call on an open descriptor
            while unsafe { libc::flock(f.as_raw_fd(), libc::LOCK_EX | libc::LOCK_NB) } != 0 {
                _ = crate::membe::PROGRESS.fetch_add(1, std::sync::atomic::Ordering::Relaxed);
                std::thread::sleep(std::time::Duration::from_millis(50));
            }
            *g = Some(f);
        }
    }
}

/// init a repository with the given configuration on the storage
pub fn init_repo(be: MemBackend, cfg: &RepoCfg) -> Result<RepoOpen, String> {
    ultra_gate(cfg.compression);
    Repository::new(&repo_opts(), &backends(be))
        .map_err(|e| estr(&e))?
        .init_with_config(&cfg.credentials(), &KeyOptions::default(), cfg.config_file())
        .map_err(|e| format!("init: {}", estr(&e)))
}

pub fn open_repo(be: MemBackend, cfg: &RepoCfg) -> Result<RepoOpen, String> {
    Repository::new(&repo_opts(), &backends(be))
        .map_err(|e| estr(&e))?
        .open(&cfg.credentials())
        .map_err(|e| format!("open: {}", estr(&e)))
}

pub fn open_full(storage: &Arc<Storage>, cfg: &RepoCfg) -> Result<RepoFull, String> {
    open_repo(storage.handle(), cfg)?
        .to_indexed()
        .map_err(|e| format!("to_indexed: {}", estr(&e)))
}

pub fn open_ids(storage: &Arc<Storage>, cfg: &RepoCfg) -> Result<RepoIds, String> {
    open_repo(storage.handle(), cfg)?
        .to_indexed_ids()
        .map_err(|e| format!("to_indexed_ids: {}", estr(&e)))
}

pub fn zoned_utc(secs: i64) -> Zoned {
    Timestamp::from_second(secs)
        .expect("time in range")
        .to_zoned(TimeZone::UTC)
}

/// snapshot template with explicit time / host so that nothing depends on the wall clock
pub fn snap_template(time_secs: i64, host: &str, tags: &str, label: &str) -> SnapshotFile {
    let mut o = SnapshotOptions::default()
        .time(zoned_utc(time_secs))
        .host(host.to_string())
        .label(label.to_string());
    if !tags.is_empty() {
        o = o.add_tags(tags).expect("tags");
    }
    SnapshotFile::from_options(&o).expect("snapshot template")
}

pub const ROOT: &str = "s";

/// back up the model tree (its root node is the single top-level entry of the snapshot)
pub fn backup_tree<S: rustic_core::IndexedIds>(
    repo: &Repository<S>,
    root: &MNode,
    sched: &ReadSchedule,
    opts: &BackupOptions,
    snap: SnapshotFile,
) -> Result<SnapshotFile, String> {
    let src = MemSource::new(root, sched.clone());
    let path = PathBuf::from(std::ffi::OsStr::from_bytes(&root.name));
    match guarded(|| repo.archive(opts, &src, snap, &[path])) {
        Ok(Ok(s)) => Ok(s),
        Ok(Err(e)) => Err(format!("backup returned an error: {}", estr(&e))),
        Err(p) => Err(format!("backup panicked: {p}")),
    }
}

#[derive(Debug, Clone, PartialEq, Eq)]
pub struct GotEntry {
    pub node: Node,
    /// file bytes as returned by dump
    pub content: Option<Vec<u8>>,
}

pub type Got = BTreeMap<Vec<u8>, GotEntry>;

/// list the snapshot and dump every file
pub fn read_snapshot<S: IndexedFull>(
    repo: &Repository<S>,
    snap: &SnapshotFile,
    with_content: bool,
) -> Result<Got, String> {
    let r = guarded(|| -> Result<Got, String> {
        let root = repo
            .node_from_snapshot_and_path(snap, "")
            .map_err(|e| format!("root node: {}", estr(&e)))?;
        let mut got = Got::new();
        let ls = repo
            .ls(&root, &LsOptions::default())
            .map_err(|e| format!("ls: {}", estr(&e)))?;
        for item in ls {
            let (path, node) = item.map_err(|e| format!("ls item: {}", estr(&e)))?;
            let key = path.as_os_str().as_bytes().to_vec();
            let content = if with_content && node.is_file() {
                let mut buf = Vec::new();
                repo.dump(&node, &mut buf)
                    .map_err(|e| format!("dump {}: {}", path.display(), estr(&e)))?;
                Some(buf)
            } else {
                None
            };
            if got.insert(key, GotEntry { node, content }).is_some() {
                return Err(format!("ls lists {} twice", path.display()));
            }
        }
        Ok(got)
    });
    match r {
        Ok(x) => x,
        Err(p) => Err(format!("panic while reading the snapshot: {p}")),
    }
}

pub struct CmpOpts {
    /// compare uid/gid/inode/device/links (only meaningful when the source was a MemSource)
    pub full_meta: bool,
    pub content: bool,
}

pub fn show_path(p: &[u8]) -> String {
    String::from_utf8_lossy(p).into_owned()
}

/// compare what was read with the model; None = identical
pub fn compare(model: &Flat, got: &Got, o: &CmpOpts) -> Option<String> {
    for k in model.keys() {
        if !got.contains_key(k) {
            return Some(format!("path {:?} of the source is missing in the snapshot listing", show_path(k)));
        }
    }
    for k in got.keys() {
        if !model.contains_key(k) {
            return Some(format!("snapshot lists {:?} which the source did not have", show_path(k)));
        }
    }
    for (k, m) in model {
        let g = &got[k];
        let p = show_path(k);
        match (&m.kind, &g.node.node_type) {
            (FlatKind::Dir, NodeType::Dir) => {}
            (FlatKind::File(bytes), NodeType::File) => {
                if g.node.meta.size != bytes.len() as u64 {
                    return Some(format!("{p:?}: size {} in the snapshot, source had {}", g.node.meta.size, bytes.len()));
                }
                if o.content {
                    match &g.content {
                        None => return Some(format!("{p:?}: no content read")),
                        Some(c) if c[..] != bytes[..] => {
                            return Some(format!("{p:?}: dumped content differs from the source ({} vs {} bytes, first difference at {:?})",
                                c.len(), bytes.len(), c.iter().zip(bytes.iter()).position(|(a, b)| a != b)));
                        }
                        _ => {}
                    }
                }
            }
            (FlatKind::Symlink(t), nt @ NodeType::Symlink { .. }) => {
                if nt.to_link().as_os_str().as_bytes() != &t[..] {
                    return Some(format!("{p:?}: link target differs"));
                }
            }
            (mk, nt) => {
                return Some(format!("{p:?}: entry type differs: source {}, snapshot {nt}", match mk {
                    FlatKind::Dir => "dir", FlatKind::File(_) => "file", FlatKind::Symlink(_) => "symlink" }));
            }
        }
        // permission bits + type bits (Go mode)
        let want_mode = go_mode(m);
        if g.node.meta.mode != Some(want_mode) {
            return Some(format!("{p:?}: mode {:?} in the snapshot, source had {want_mode:#o}", g.node.meta.mode));
        }
        if g.node.meta.mtime.map(MTime::from_jiff) != Some(m.mtime) {
            return Some(format!("{p:?}: mtime {:?} in the snapshot, source had {:?}", g.node.meta.mtime, m.mtime));
        }
        if o.full_meta {
            let gm = &g.node.meta;
            if gm.uid != Some(m.uid) || gm.gid != Some(m.gid) || gm.inode != m.inode || gm.device_id != m.device || gm.links != m.links {
                return Some(format!("{p:?}: uid/gid/inode/device/links differ from the source"));
            }
        }
    }
    None
}

fn go_mode(m: &crate::model::FlatEntry) -> u32 {
    let mut g = m.perm & 0o777;
    if m.perm & 0o4000 != 0 {
        g |= 1 << 23;
    }
    if m.perm & 0o2000 != 0 {
        g |= 1 << 22;
    }
    if m.perm & 0o1000 != 0 {
        g |= 1 << 20;
    }
    match m.kind {
        FlatKind::Dir => g | (1 << 31),
        FlatKind::Symlink(_) => g | (1 << 27),
        FlatKind::File(_) => g,
    }
}

#[derive(Debug, Clone, PartialEq, Eq)]
pub enum CheckVerdict {
    Clean,
    /// check returned Err, panicked, or reported Error-level findings
    Errors(String),
    /// the index hand-back race (`GlobalIndex::into_index` "index still in use") persisted over
    /// several retries on a saturated machine: infrastructure noise, never judged
    Inconclusive(String),
}

/// `check` with or without reading pack data
pub fn check_verdict<S: rustic_core::Open>(repo: &Repository<S>, read_data: bool) -> CheckVerdict {
    let run = || {
        guarded(|| {
            let opts = CheckOptions::default().read_data(read_data);
            match repo.check(opts) {
                Err(e) => Err(format!("check returned an error: {}", estr(&e))),
                Ok(res) => {
                    if res.is_ok().is_err() {
                        let errs: Vec<String> = res
                            .0
                            .iter()
                            .filter(|e| format!("{:?}", e.0) == "Error")
                            .map(|e| format!("{:?}", e.1))
                            .take(4)
                            .collect();
                        Err(format!("check reports errors: {errs:?}"))
                    } else {
                        Ok(())
                    }
                }
            }
        })
    };
    let mut last = String::new();
    for attempt in 0..5 {
        match run() {
            Ok(Ok(())) => return CheckVerdict::Clean,
            Ok(Err(e)) => return CheckVerdict::Errors(e),
            Err(p) if p.contains("index still in use") => {
                last = p;
                std::thread::sleep(std::time::Duration::from_millis(40 * (attempt + 1)));
            }
            Err(p) => return CheckVerdict::Errors(format!("check panicked: {p}")),
        }
    }
    CheckVerdict::Inconclusive(last)
}

/// `check_verdict` on a handle given away, with deadlock detection: `Err` = the check never returns
/// (see `engine::run_detecting_deadlock`)
pub fn check_verdict_owned<S: rustic_core::Open + Send + Sync + 'static>(
    repo: Repository<S>,
    read_data: bool,
) -> Result<CheckVerdict, String> {
    crate::engine::run_detecting_deadlock(move || check_verdict(&repo, read_data))
}

/// Ok(()) = no Error-level finding. The (rare) persistent index hand-back race is reported as Ok
/// and counted by the caller through `check_verdict` where it matters.
pub fn check_repo<S: rustic_core::Open>(repo: &Repository<S>, read_data: bool) -> Result<(), String> {
    match check_verdict(repo, read_data) {
        CheckVerdict::Clean | CheckVerdict::Inconclusive(_) => Ok(()),
        CheckVerdict::Errors(e) => Err(e),
    }
}

/// convenience: backup options that never use a parent
pub fn force_opts() -> BackupOptions {
    let mut o = BackupOptions::default();
    o.parent_opts.force = true;
    o
}
