//! In-memory storage backend owned by the harness, with everything the properties need to
//! observe or disturb a command: a totally ordered operation log, crash cut, single-operation
//! fault, per-handle gate, seeded latency and a cold-store mode that rejects reads of packs that
//! were not warmed up first.
//!
//! The `Config` file type is one overwritable slot (like the directory backend), every other type
//! is a map from id to bytes.

use std::{
    collections::{BTreeMap, BTreeSet},
    sync::{
        Arc, Condvar, Mutex,
        atomic::{AtomicU64, AtomicUsize, Ordering},
    },
    time::Duration,
};

use bytes::Bytes;
use rustic_core::{ErrorKind, FileType, Id, ReadBackend, RusticError, RusticResult, WriteBackend};
use serde::{Deserialize, Serialize};

pub fn tidx(t: FileType) -> u8 {
    match t {
        FileType::Config => 0,
        FileType::Index => 1,
        FileType::Key => 2,
        FileType::Snapshot => 3,
        FileType::Pack => 4,
    }
}

pub fn tfrom(i: u8) -> FileType {
    match i {
        0 => FileType::Config,
        1 => FileType::Index,
        2 => FileType::Key,
        3 => FileType::Snapshot,
        _ => FileType::Pack,
    }
}

pub const TYPES: [FileType; 5] = [
    FileType::Config,
    FileType::Index,
    FileType::Key,
    FileType::Snapshot,
    FileType::Pack,
];

pub fn id_bytes(id: &Id) -> [u8; 32] {
    let mut b = [0u8; 32];
    hex::decode_to_slice(id.to_hex().as_str(), &mut b).expect("hex id");
    b
}

pub type Files = BTreeMap<(u8, Id), Bytes>;

/// Bumped by every backend operation and every source read of this process: a command that has
/// not returned while this counter and the process CPU time both stand still is blocked for good
/// (C13's deadlock detector).
pub static PROGRESS: std::sync::atomic::AtomicU64 = std::sync::atomic::AtomicU64::new(0);

#[derive(Debug, Clone, Copy, PartialEq, Eq, Serialize, Deserialize)]
pub enum OpKind {
    Create,
    List,
    ReadFull,
    ReadPartial,
    Write,
    Remove,
    WarmUp,
}

impl OpKind {
    pub fn mutating(self) -> bool {
        matches!(self, OpKind::Write | OpKind::Remove)
    }
}

#[derive(Debug, Clone)]
pub struct Op {
    pub seq: usize,
    pub handle: u32,
    /// label of the store (0 = main / cold, 1 = hot)
    pub store: u8,
    pub kind: OpKind,
    pub tpe: FileType,
    pub id: Id,
    pub offset: u32,
    pub len: u32,
    /// the operation changed the store
    pub applied: bool,
    /// what the caller was told
    pub ok: bool,
    /// for Write: the file existed before (overwrite)
    pub existed: bool,
    pub data: Option<Bytes>,
}

/// A shared log, so that several stores (hot + cold) can be ordered totally.
#[derive(Debug, Default)]
pub struct OpLog {
    ops: Mutex<Vec<Op>>,
}

impl OpLog {
    pub fn snapshot(&self) -> Vec<Op> {
        self.ops.lock().unwrap().clone()
    }
    pub fn len(&self) -> usize {
        self.ops.lock().unwrap().len()
    }
    pub fn clear(&self) {
        self.ops.lock().unwrap().clear();
    }
    fn push(&self, mut op: Op) {
        let mut ops = self.ops.lock().unwrap();
        op.seq = ops.len();
        ops.push(op);
    }
}

#[derive(Debug)]
pub struct Storage {
    files: Mutex<Files>,
    pub log: Arc<OpLog>,
    pub label: u8,
    /// keep written data in the log (needed to materialise prefixes)
    pub log_data: bool,
    /// cold-store mode: packs must be warmed before they are read
    cold: Mutex<Option<ColdState>>,
    next_handle: AtomicUsize,
}

#[derive(Debug, Default, Clone)]
pub struct ColdState {
    pub warmed: BTreeSet<(u8, Id)>,
    /// reads of packs that had not been warmed: (kind, id)
    pub violations: Vec<(OpKind, Id)>,
}

#[derive(Debug, Clone, Copy, PartialEq, Eq, Serialize, Deserialize)]
pub enum FailMode {
    /// the operation is not applied and an error is returned
    NotApplied,
    /// the operation is applied but an error is returned
    AppliedButReported,
}

#[derive(Debug, Default)]
pub struct Control {
    /// count of mutating ops seen on this handle so far
    pub mut_seen: usize,
    /// count of all ops seen on this handle so far
    pub ops_seen: usize,
    /// after this many mutating ops have been applied, every further op fails (crash)
    pub cut_after_mut: Option<usize>,
    /// fail the mutating op with this index
    pub fail_mut_at: Option<(usize, FailMode)>,
    /// fail every read (full/partial) of this file
    pub fail_reads_of: Option<(u8, Id)>,
    /// park the caller right before op number `gate_at` (counting all ops of this handle)
    pub gate_at: Option<usize>,
    pub parked: bool,
    pub released: bool,
    /// seeded latency: (seed, max microseconds for reads, max microseconds for writes)
    pub latency: Option<(u64, u64, u64)>,
    /// the cut happened
    pub cut_hit: bool,
    pub fail_hit: bool,
}

#[derive(Debug)]
pub struct HandleCtl {
    pub id: u32,
    pub ctl: Mutex<Control>,
    pub cv: Condvar,
    lat_counter: AtomicU64,
}

/// One handle onto a `Storage`; implements the backend traits.
#[derive(Debug, Clone)]
pub struct MemBackend {
    pub storage: Arc<Storage>,
    pub h: Arc<HandleCtl>,
}

impl Storage {
    pub fn new() -> Arc<Self> {
        Self::with_log(Arc::new(OpLog::default()), 0)
    }

    pub fn with_log(log: Arc<OpLog>, label: u8) -> Arc<Self> {
        Arc::new(Self {
            files: Mutex::new(Files::new()),
            log,
            label,
            log_data: true,
            cold: Mutex::new(None),
            next_handle: AtomicUsize::new(0),
        })
    }

    pub fn from_files(files: Files) -> Arc<Self> {
        let s = Self::new();
        *s.files.lock().unwrap() = files;
        s
    }

    pub fn files(&self) -> Files {
        self.files.lock().unwrap().clone()
    }

    pub fn set_files(&self, files: Files) {
        *self.files.lock().unwrap() = files;
    }

    pub fn with_files<R>(&self, f: impl FnOnce(&mut Files) -> R) -> R {
        f(&mut self.files.lock().unwrap())
    }

    /// deep copy of the content into a fresh, independent storage (fresh log)
    pub fn fork(&self) -> Arc<Self> {
        Self::from_files(self.files())
    }

    pub fn enable_cold(&self) {
        *self.cold.lock().unwrap() = Some(ColdState::default());
    }

    /// oracle privilege: mark every pack as warmed (so that the harness can read the repository
    /// back without being judged for it)
    pub fn warm_everything(&self) {
        let ids: Vec<(u8, Id)> = self.files.lock().unwrap().keys().copied().collect();
        if let Some(c) = self.cold.lock().unwrap().as_mut() {
            c.warmed.extend(ids);
        }
    }

    /// everything is cold again
    pub fn cool_down(&self) {
        if let Some(c) = self.cold.lock().unwrap().as_mut() {
            c.warmed.clear();
        }
    }

    pub fn cold_state(&self) -> Option<ColdState> {
        self.cold.lock().unwrap().clone()
    }

    pub fn handle(self: &Arc<Self>) -> MemBackend {
        let id = self.next_handle.fetch_add(1, Ordering::SeqCst) as u32;
        MemBackend {
            storage: self.clone(),
            h: Arc::new(HandleCtl {
                id,
                ctl: Mutex::new(Control::default()),
                cv: Condvar::new(),
                lat_counter: AtomicU64::new(0),
            }),
        }
    }

    pub fn ids(&self, tpe: FileType) -> Vec<Id> {
        let t = tidx(tpe);
        self.files
            .lock()
            .unwrap()
            .keys()
            .filter(|(ft, _)| *ft == t)
            .map(|(_, id)| *id)
            .collect()
    }

    pub fn get(&self, tpe: FileType, id: &Id) -> Option<Bytes> {
        self.files.lock().unwrap().get(&(tidx(tpe), *id)).cloned()
    }

    pub fn put(&self, tpe: FileType, id: Id, data: impl Into<Bytes>) {
        _ = self
            .files
            .lock()
            .unwrap()
            .insert((tidx(tpe), id), data.into());
    }

    pub fn del(&self, tpe: FileType, id: &Id) -> bool {
        self.files
            .lock()
            .unwrap()
            .remove(&(tidx(tpe), *id))
            .is_some()
    }

    /// total number of bytes stored
    pub fn total_bytes(&self) -> usize {
        self.files.lock().unwrap().values().map(Bytes::len).sum()
    }
}

fn key_of(tpe: FileType, id: &Id) -> (u8, Id) {
    if tpe == FileType::Config {
        (0, Id::default())
    } else {
        (tidx(tpe), *id)
    }
}

fn err(msg: &str) -> Box<RusticError> {
    RusticError::new(ErrorKind::Backend, msg.to_string())
}

fn splitmix(mut z: u64) -> u64 {
    z = z.wrapping_add(0x9E37_79B9_7F4A_7C15);
    z = (z ^ (z >> 30)).wrapping_mul(0xBF58_476D_1CE4_E5B9);
    z = (z ^ (z >> 27)).wrapping_mul(0x94D0_49BB_1331_11EB);
    z ^ (z >> 31)
}

enum Gatekeeper {
    Proceed,
    /// crashed: nothing is applied any more
    Dead,
    Fail(FailMode),
}

impl MemBackend {
    pub fn control<R>(&self, f: impl FnOnce(&mut Control) -> R) -> R {
        f(&mut self.h.ctl.lock().unwrap())
    }

    /// wait until the handle is parked at its gate, or `done()` says the command ended
    pub fn wait_parked(&self, done: impl Fn() -> bool) -> bool {
        let mut g = self.h.ctl.lock().unwrap();
        loop {
            if g.parked {
                return true;
            }
            if done() {
                return false;
            }
            let (ng, _) = self
                .h
                .cv
                .wait_timeout(g, Duration::from_millis(2))
                .unwrap();
            g = ng;
        }
    }

    pub fn release(&self) {
        let mut g = self.h.ctl.lock().unwrap();
        g.released = true;
        g.gate_at = None;
        self.h.cv.notify_all();
    }

    /// common entry for every operation: gate, latency, cut / fault decision
    fn enter(&self, kind: OpKind) -> Gatekeeper {
        _ = PROGRESS.fetch_add(1, Ordering::Relaxed);
        let mut g = self.h.ctl.lock().unwrap();
        let my_idx = g.ops_seen;
        g.ops_seen += 1;
        if g.gate_at == Some(my_idx) && !g.released {
            g.parked = true;
            self.h.cv.notify_all();
            while !g.released {
                g = self.h.cv.wait(g).unwrap();
            }
            g.parked = false;
        }
        let latency = g.latency;
        let mut verdict = Gatekeeper::Proceed;
        if let Some(k) = g.cut_after_mut {
            if g.cut_hit || (kind.mutating() && g.mut_seen >= k) {
                g.cut_hit = true;
                verdict = Gatekeeper::Dead;
            }
        }
        if kind.mutating() {
            let my_mut = g.mut_seen;
            g.mut_seen += 1;
            if let Some((k, mode)) = g.fail_mut_at {
                if k == my_mut && matches!(verdict, Gatekeeper::Proceed) {
                    g.fail_hit = true;
                    verdict = Gatekeeper::Fail(mode);
                }
            }
        }
        drop(g);
        if let Some((seed, rmax, wmax)) = latency {
            let n = self.h.lat_counter.fetch_add(1, Ordering::SeqCst);
            let r = splitmix(seed ^ n.wrapping_mul(0x1234_5678_9ABC_DEF1) ^ u64::from(self.h.id));
            let max = if kind.mutating() { wmax } else { rmax };
            if max > 0 {
                // mostly short, occasionally 10x
                let base = r % (max + 1);
                let us = if (r >> 40) % 16 == 0 { base * 10 } else { base };
                if us > 0 {
                    std::thread::sleep(Duration::from_micros(us));
                } else {
                    std::thread::yield_now();
                }
            }
        }
        verdict
    }

    fn log(&self, op: Op) {
        self.storage.log.push(op);
    }

    fn mkop(&self, kind: OpKind, tpe: FileType, id: &Id) -> Op {
        Op {
            seq: 0,
            handle: self.h.id,
            store: self.storage.label,
            kind,
            tpe,
            id: *id,
            offset: 0,
            len: 0,
            applied: false,
            ok: false,
            existed: false,
            data: None,
        }
    }

    fn check_cold(&self, kind: OpKind, tpe: FileType, id: &Id) -> RusticResult<()> {
        if tpe != FileType::Pack {
            return Ok(());
        }
        let mut c = self.storage.cold.lock().unwrap();
        if let Some(c) = c.as_mut() {
            if !c.warmed.contains(&(tidx(tpe), *id)) {
                c.violations.push((kind, *id));
                return Err(err("cold store: pack was read without being warmed up"));
            }
        }
        Ok(())
    }

    fn fail_read(&self, tpe: FileType, id: &Id) -> bool {
        self.h.ctl.lock().unwrap().fail_reads_of == Some(key_of(tpe, id))
    }
}

impl ReadBackend for MemBackend {
    fn location(&self) -> String {
        format!("vpmem:{}", self.storage.label)
    }

    fn list_with_size(&self, tpe: FileType) -> RusticResult<Vec<(Id, u32)>> {
        let gate = self.enter(OpKind::List);
        let mut op = self.mkop(OpKind::List, tpe, &Id::default());
        if !matches!(gate, Gatekeeper::Proceed) {
            self.log(op);
            return Err(err("injected: backend unavailable"));
        }
        let t = tidx(tpe);
        let res: Vec<(Id, u32)> = self
            .storage
            .files
            .lock()
            .unwrap()
            .iter()
            .filter(|((ft, _), _)| *ft == t)
            .map(|((_, id), data)| (*id, data.len() as u32))
            .collect();
        op.ok = true;
        op.len = res.len() as u32;
        self.log(op);
        Ok(res)
    }

    fn read_full(&self, tpe: FileType, id: &Id) -> RusticResult<Bytes> {
        let gate = self.enter(OpKind::ReadFull);
        let mut op = self.mkop(OpKind::ReadFull, tpe, id);
        if !matches!(gate, Gatekeeper::Proceed) || self.fail_read(tpe, id) {
            self.log(op);
            return Err(err("injected: read failed"));
        }
        if let Err(e) = self.check_cold(OpKind::ReadFull, tpe, id) {
            self.log(op);
            return Err(e);
        }
        let data = self.storage.files.lock().unwrap().get(&key_of(tpe, id)).cloned();
        match data {
            Some(d) => {
                op.ok = true;
                op.len = d.len() as u32;
                self.log(op);
                Ok(d)
            }
            None => {
                self.log(op);
                Err(err("file not found"))
            }
        }
    }

    fn read_partial(
        &self,
        tpe: FileType,
        id: &Id,
        _cacheable: bool,
        offset: u32,
        length: u32,
    ) -> RusticResult<Bytes> {
        let gate = self.enter(OpKind::ReadPartial);
        let mut op = self.mkop(OpKind::ReadPartial, tpe, id);
        op.offset = offset;
        op.len = length;
        if !matches!(gate, Gatekeeper::Proceed) || self.fail_read(tpe, id) {
            self.log(op);
            return Err(err("injected: read failed"));
        }
        if let Err(e) = self.check_cold(OpKind::ReadPartial, tpe, id) {
            self.log(op);
            return Err(e);
        }
        let data = self.storage.files.lock().unwrap().get(&key_of(tpe, id)).cloned();
        match data {
            Some(d) => {
                let start = offset as usize;
                let end = start.saturating_add(length as usize);
                if end > d.len() {
                    self.log(op);
                    return Err(err("read_partial: range beyond end of file"));
                }
                op.ok = true;
                self.log(op);
                Ok(d.slice(start..end))
            }
            None => {
                self.log(op);
                Err(err("file not found"))
            }
        }
    }

    fn warmup_path(&self, tpe: FileType, id: &Id) -> String {
        format!("{}/{}", tpe.dirname(), id.to_hex().as_str())
    }

    fn needs_warm_up(&self) -> bool {
        self.storage.cold.lock().unwrap().is_some()
    }

    fn warm_up(&self, tpe: FileType, id: &Id) -> RusticResult<()> {
        let gate = self.enter(OpKind::WarmUp);
        let mut op = self.mkop(OpKind::WarmUp, tpe, id);
        if !matches!(gate, Gatekeeper::Proceed) {
            self.log(op);
            return Err(err("injected: backend unavailable"));
        }
        if let Some(c) = self.storage.cold.lock().unwrap().as_mut() {
            _ = c.warmed.insert((tidx(tpe), *id));
        }
        op.ok = true;
        self.log(op);
        Ok(())
    }
}

impl WriteBackend for MemBackend {
    fn create(&self) -> RusticResult<()> {
        let gate = self.enter(OpKind::Create);
        let mut op = self.mkop(OpKind::Create, FileType::Config, &Id::default());
        if !matches!(gate, Gatekeeper::Proceed) {
            self.log(op);
            return Err(err("injected: backend unavailable"));
        }
        op.ok = true;
        self.log(op);
        Ok(())
    }

    fn write_bytes(
        &self,
        tpe: FileType,
        id: &Id,
        _cacheable: bool,
        content: rustic_core::BytesList,
    ) -> RusticResult<()> {
        let gate = self.enter(OpKind::Write);
        let mut op = self.mkop(OpKind::Write, tpe, id);
        let parts = content.into_vec();
        let data: Bytes = if parts.len() == 1 {
            parts.into_iter().next().unwrap()
        } else {
            let mut v = Vec::with_capacity(parts.iter().map(Bytes::len).sum());
            for p in &parts {
                v.extend_from_slice(p);
            }
            v.into()
        };
        op.len = data.len() as u32;
        if self.storage.log_data {
            op.data = Some(data.clone());
        }
        let apply = match gate {
            Gatekeeper::Proceed => true,
            Gatekeeper::Dead => false,
            Gatekeeper::Fail(FailMode::NotApplied) => false,
            Gatekeeper::Fail(FailMode::AppliedButReported) => true,
        };
        if apply {
            let prev = self
                .storage
                .files
                .lock()
                .unwrap()
                .insert(key_of(tpe, id), data);
            op.existed = prev.is_some();
            op.applied = true;
            // a freshly written pack is hot by definition of the cold-store model
            if let Some(c) = self.storage.cold.lock().unwrap().as_mut() {
                _ = c.warmed.remove(&(tidx(tpe), *id));
            }
        }
        op.ok = matches!(gate, Gatekeeper::Proceed);
        let ok = op.ok;
        self.log(op);
        if ok {
            Ok(())
        } else {
            Err(err("injected: write failed"))
        }
    }

    fn remove(&self, tpe: FileType, id: &Id, _cacheable: bool) -> RusticResult<()> {
        let gate = self.enter(OpKind::Remove);
        let mut op = self.mkop(OpKind::Remove, tpe, id);
        let apply = match gate {
            Gatekeeper::Proceed => true,
            Gatekeeper::Dead => false,
            Gatekeeper::Fail(FailMode::NotApplied) => false,
            Gatekeeper::Fail(FailMode::AppliedButReported) => true,
        };
        let mut found = true;
        if apply {
            found = self
                .storage
                .files
                .lock()
                .unwrap()
                .remove(&key_of(tpe, id))
                .is_some();
            op.applied = found;
            op.existed = found;
        }
        op.ok = matches!(gate, Gatekeeper::Proceed) && found;
        let ok = op.ok;
        self.log(op);
        if ok {
            Ok(())
        } else if !found {
            Err(err("remove: file not found"))
        } else {
            Err(err("injected: remove failed"))
        }
    }
}

/// Apply the first `k` *applied* mutating ops of `log` (in order) to a copy of `base`.
pub fn materialise_prefix(base: &Files, log: &[Op], k: usize) -> Files {
    let mut files = base.clone();
    let mut n = 0;
    for op in log {
        if !op.kind.mutating() || !op.applied {
            continue;
        }
        if n == k {
            break;
        }
        n += 1;
        match op.kind {
            OpKind::Write => {
                _ = files.insert(
                    key_of(op.tpe, &op.id),
                    op.data.clone().expect("log_data must be on"),
                );
            }
            OpKind::Remove => {
                _ = files.remove(&key_of(op.tpe, &op.id));
            }
            _ => {}
        }
    }
    files
}

pub fn count_applied_mut(log: &[Op]) -> usize {
    log.iter().filter(|o| o.kind.mutating() && o.applied).count()
}
