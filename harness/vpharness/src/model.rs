//! In-memory model of a directory tree and a `ReadSource` that feeds it to the archiver exactly
//! the way the library's own local source does (pre-order, siblings sorted by name bytes, a reader
//! per regular file, `meta.size` = content length).

use std::{
    collections::BTreeMap,
    ffi::OsStr,
    io::Read,
    os::unix::ffi::OsStrExt,
    path::PathBuf,
    sync::Arc,
};

use rustic_core::{
    ReadSource, ReadSourceEntry, RusticResult,
    repofile::{Metadata, Node, NodeType},
};
use serde::{Deserialize, Serialize};

pub fn splitmix(mut z: u64) -> u64 {
    z = z.wrapping_add(0x9E37_79B9_7F4A_7C15);
    z = (z ^ (z >> 30)).wrapping_mul(0xBF58_476D_1CE4_E5B9);
    z = (z ^ (z >> 27)).wrapping_mul(0x94D0_49BB_1331_11EB);
    z ^ (z >> 31)
}

#[inline]
fn rand_byte(seed: u64, pos: u64) -> u8 {
    (splitmix(seed ^ (pos / 8).wrapping_mul(0xA076_1D64_78BD_642F)) >> (8 * (pos % 8))) as u8
}

mod hexbytes {
    use serde::{Deserialize, Deserializer, Serializer};
    pub fn serialize<S: Serializer>(v: &[u8], s: S) -> Result<S::Ok, S::Error> {
        s.serialize_str(&hex::encode(v))
    }
    pub fn deserialize<'de, D: Deserializer<'de>>(d: D) -> Result<Vec<u8>, D::Error> {
        let s = String::deserialize(d)?;
        hex::decode(s).map_err(serde::de::Error::custom)
    }
}

/// A piece of file content: a deterministic function of a few numbers, so that generated cases
/// stay small, shrink and replay. `skip` addresses into the piece's infinite stream so that
/// edits (split / insert / delete) never have to materialise bytes in the case description.
#[derive(Debug, Clone, PartialEq, Eq, Hash, Serialize, Deserialize)]
pub enum Piece {
    Zeros { len: u32 },
    Rand { seed: u64, skip: u32, len: u32 },
    Period { seed: u64, p: u32, skip: u32, len: u32 },
    Lit(#[serde(with = "hexbytes")] Vec<u8>),
}

impl Piece {
    pub fn len(&self) -> usize {
        match self {
            Piece::Zeros { len } | Piece::Rand { len, .. } | Piece::Period { len, .. } => {
                *len as usize
            }
            Piece::Lit(v) => v.len(),
        }
    }

    pub fn write_to(&self, out: &mut Vec<u8>) {
        match self {
            Piece::Zeros { len } => out.resize(out.len() + *len as usize, 0),
            Piece::Rand { seed, skip, len } => {
                out.reserve(*len as usize);
                for j in 0..u64::from(*len) {
                    out.push(rand_byte(*seed, u64::from(*skip) + j));
                }
            }
            Piece::Period { seed, p, skip, len } => {
                let p = u64::from((*p).max(1));
                out.reserve(*len as usize);
                for j in 0..u64::from(*len) {
                    out.push(rand_byte(*seed, (u64::from(*skip) + j) % p));
                }
            }
            Piece::Lit(v) => out.extend_from_slice(v),
        }
    }

    /// sub-piece [from, from+len)
    pub fn slice(&self, from: usize, len: usize) -> Piece {
        debug_assert!(from + len <= self.len());
        match self {
            Piece::Zeros { .. } => Piece::Zeros { len: len as u32 },
            Piece::Rand { seed, skip, .. } => Piece::Rand {
                seed: *seed,
                skip: skip + from as u32,
                len: len as u32,
            },
            Piece::Period { seed, p, skip, .. } => Piece::Period {
                seed: *seed,
                p: *p,
                skip: skip + from as u32,
                len: len as u32,
            },
            Piece::Lit(v) => Piece::Lit(v[from..from + len].to_vec()),
        }
    }
}

#[derive(Debug, Clone, PartialEq, Eq, Hash, Serialize, Deserialize, Default)]
pub struct Content(pub Vec<Piece>);

impl Content {
    pub fn len(&self) -> usize {
        self.0.iter().map(Piece::len).sum()
    }
    pub fn bytes(&self) -> Vec<u8> {
        let mut out = Vec::with_capacity(self.len());
        for p in &self.0 {
            p.write_to(&mut out);
        }
        out
    }
    pub fn lit(v: Vec<u8>) -> Self {
        Content(vec![Piece::Lit(v)])
    }
    /// content[from..to)
    pub fn slice(&self, from: usize, to: usize) -> Content {
        let mut out = Vec::new();
        let mut pos = 0usize;
        for p in &self.0 {
            let l = p.len();
            let a = from.max(pos);
            let b = to.min(pos + l);
            if a < b {
                out.push(p.slice(a - pos, b - a));
            }
            pos += l;
        }
        Content(out)
    }
    pub fn concat(mut self, other: Content) -> Content {
        self.0.extend(other.0);
        self
    }
    /// insert `ins` at `at` (clamped)
    pub fn insert(&self, at: usize, ins: Content) -> Content {
        let n = self.len();
        let at = at.min(n);
        self.slice(0, at).concat(ins).concat(self.slice(at, n))
    }
    /// delete [at, at+len) (clamped)
    pub fn delete(&self, at: usize, len: usize) -> Content {
        let n = self.len();
        let at = at.min(n);
        let end = (at + len).min(n);
        self.slice(0, at).concat(self.slice(end, n))
    }
    /// overwrite starting at `at` with `with` (clamped to current length: size unchanged)
    pub fn overwrite(&self, at: usize, with: Content) -> Content {
        let n = self.len();
        let at = at.min(n);
        let end = (at + with.len()).min(n);
        let with = with.slice(0, end - at);
        self.slice(0, at).concat(with).concat(self.slice(end, n))
    }
}

/// seconds + nanoseconds since the epoch
#[derive(Debug, Clone, Copy, PartialEq, Eq, Hash, Serialize, Deserialize, PartialOrd, Ord)]
pub struct MTime(pub i64, pub u32);

impl MTime {
    pub fn to_jiff(self) -> jiff::Timestamp {
        jiff::Timestamp::new(self.0, self.1 as i32).expect("generated time in range")
    }
    pub fn from_jiff(t: jiff::Timestamp) -> Self {
        // floor division semantics: jiff gives (second, subsec_nanosecond) with sign; normalise
        let mut s = t.as_second();
        let mut n = i64::from(t.subsec_nanosecond());
        if n < 0 {
            s -= 1;
            n += 1_000_000_000;
        }
        MTime(s, n as u32)
    }
}

#[derive(Debug, Clone, PartialEq, Eq, Hash, Serialize, Deserialize)]
pub enum MKind {
    File { content: Content },
    Dir { children: Vec<MNode> },
    Symlink {
        #[serde(with = "hexbytes")]
        target: Vec<u8>,
    },
}

#[derive(Debug, Clone, PartialEq, Eq, Hash, Serialize, Deserialize)]
pub struct MNode {
    /// raw name bytes (one path component)
    #[serde(with = "hexbytes")]
    pub name: Vec<u8>,
    pub kind: MKind,
    /// permission bits (0o7777)
    pub perm: u32,
    pub mtime: MTime,
    pub ctime: MTime,
    pub uid: u32,
    pub gid: u32,
    pub inode: u64,
    pub device: u64,
    pub links: u64,
}

impl MNode {
    pub fn is_dir(&self) -> bool {
        matches!(self.kind, MKind::Dir { .. })
    }
    pub fn is_file(&self) -> bool {
        matches!(self.kind, MKind::File { .. })
    }
    pub fn children(&self) -> &[MNode] {
        match &self.kind {
            MKind::Dir { children } => children,
            _ => &[],
        }
    }
    pub fn children_mut(&mut self) -> Option<&mut Vec<MNode>> {
        match &mut self.kind {
            MKind::Dir { children } => Some(children),
            _ => None,
        }
    }
    /// sort children by name bytes recursively and drop duplicate names (keeps the first)
    pub fn normalise(&mut self) {
        if let MKind::Dir { children } = &mut self.kind {
            children.sort_by(|a, b| a.name.cmp(&b.name));
            children.dedup_by(|b, a| a.name == b.name);
            for c in children {
                c.normalise();
            }
        }
    }
    pub fn count(&self) -> usize {
        1 + self.children().iter().map(MNode::count).sum::<usize>()
    }
    /// Go file mode as the local source would report it
    pub fn go_mode(&self) -> u32 {
        let mut m = self.perm & 0o777;
        if self.perm & 0o4000 != 0 {
            m |= 1 << 23; // ModeSetuid
        }
        if self.perm & 0o2000 != 0 {
            m |= 1 << 22; // ModeSetgid
        }
        if self.perm & 0o1000 != 0 {
            m |= 1 << 20; // ModeSticky
        }
        match self.kind {
            MKind::Dir { .. } => m | (1 << 31),
            MKind::Symlink { .. } => m | (1 << 27),
            MKind::File { .. } => m,
        }
    }
}

/// Flat view of a model tree: path bytes (components joined by '/') -> entry
#[derive(Debug, Clone, PartialEq, Eq)]
pub struct FlatEntry {
    pub kind: FlatKind,
    pub perm: u32,
    pub mtime: MTime,
    pub uid: u32,
    pub gid: u32,
    pub inode: u64,
    pub device: u64,
    pub links: u64,
}

#[derive(Debug, Clone, PartialEq, Eq)]
pub enum FlatKind {
    File(Arc<Vec<u8>>),
    Dir,
    Symlink(Vec<u8>),
}

pub type Flat = BTreeMap<Vec<u8>, FlatEntry>;

pub fn flatten(root: &MNode) -> Flat {
    fn rec(n: &MNode, prefix: &[u8], out: &mut Flat) {
        let mut path = prefix.to_vec();
        if !path.is_empty() {
            path.push(b'/');
        }
        path.extend_from_slice(&n.name);
        let kind = match &n.kind {
            MKind::File { content } => FlatKind::File(Arc::new(content.bytes())),
            MKind::Dir { .. } => FlatKind::Dir,
            MKind::Symlink { target } => FlatKind::Symlink(target.clone()),
        };
        _ = out.insert(
            path.clone(),
            FlatEntry {
                kind,
                perm: n.perm,
                mtime: n.mtime,
                uid: n.uid,
                gid: n.gid,
                inode: n.inode,
                device: n.device,
                links: n.links,
            },
        );
        for c in n.children() {
            rec(c, &path, out);
        }
    }
    let mut out = Flat::new();
    rec(root, b"", &mut out);
    out
}

/// How the reader handed to the chunker fragments its reads
#[derive(Debug, Clone, PartialEq, Eq, Hash, Serialize, Deserialize, Default)]
pub struct ReadSchedule {
    /// maximal sizes of successive reads (cycled); empty = unrestricted
    pub sizes: Vec<u16>,
    /// every n-th call returns `ErrorKind::Interrupted` first (0 = never)
    pub interrupt_every: u8,
}

pub struct SchedReader {
    data: Arc<Vec<u8>>,
    pos: usize,
    sched: ReadSchedule,
    calls: usize,
    step: usize,
    interrupted_last: bool,
}

impl SchedReader {
    pub fn new(data: Arc<Vec<u8>>, sched: ReadSchedule) -> Self {
        Self {
            data,
            pos: 0,
            sched,
            calls: 0,
            step: 0,
            interrupted_last: false,
        }
    }
}

impl Read for SchedReader {
    fn read(&mut self, buf: &mut [u8]) -> std::io::Result<usize> {
        _ = crate::membe::PROGRESS.fetch_add(1, std::sync::atomic::Ordering::Relaxed);
        self.calls += 1;
        if self.sched.interrupt_every > 0
            && !self.interrupted_last
            && self.calls % usize::from(self.sched.interrupt_every) == 0
        {
            self.interrupted_last = true;
            return Err(std::io::Error::from(std::io::ErrorKind::Interrupted));
        }
        self.interrupted_last = false;
        let mut n = buf.len().min(self.data.len() - self.pos);
        if !self.sched.sizes.is_empty() && n > 0 {
            let lim = usize::from(self.sched.sizes[self.step % self.sched.sizes.len()]).max(1);
            self.step += 1;
            n = n.min(lim);
        }
        buf[..n].copy_from_slice(&self.data[self.pos..self.pos + n]);
        self.pos += n;
        Ok(n)
    }
}

/// The `ReadSource` over a model tree. The root node itself is yielded first under `root_path`.
pub struct MemSource {
    entries: Vec<(PathBuf, Node, Option<Arc<Vec<u8>>>)>,
    sched: ReadSchedule,
}

pub fn name_os(name: &[u8]) -> &OsStr {
    OsStr::from_bytes(name)
}

pub fn node_of(n: &MNode, content_len: u64) -> Node {
    let meta = Metadata {
        mode: Some(n.go_mode()),
        mtime: Some(n.mtime.to_jiff()),
        atime: Some(n.mtime.to_jiff()),
        ctime: Some(n.ctime.to_jiff()),
        uid: Some(n.uid),
        gid: Some(n.gid),
        user: None,
        group: None,
        inode: n.inode,
        device_id: n.device,
        size: content_len,
        links: n.links,
        extended_attributes: Vec::new(),
    };
    let node_type = match &n.kind {
        MKind::File { .. } => NodeType::File,
        MKind::Dir { .. } => NodeType::Dir,
        MKind::Symlink { target } => NodeType::from_link(std::path::Path::new(name_os(target))),
    };
    Node::new_node(name_os(&n.name), node_type, meta)
}

impl MemSource {
    pub fn new(root: &MNode, sched: ReadSchedule) -> Self {
        fn rec(
            n: &MNode,
            parent: &std::path::Path,
            out: &mut Vec<(PathBuf, Node, Option<Arc<Vec<u8>>>)>,
        ) {
            let path = parent.join(name_os(&n.name));
            match &n.kind {
                MKind::File { content } => {
                    let bytes = Arc::new(content.bytes());
                    out.push((path, node_of(n, bytes.len() as u64), Some(bytes)));
                }
                MKind::Dir { children } => {
                    out.push((path.clone(), node_of(n, 0), None));
                    for c in children {
                        rec(c, &path, out);
                    }
                }
                MKind::Symlink { .. } => out.push((path, node_of(n, 0), None)),
            }
        }
        let mut entries = Vec::new();
        rec(root, std::path::Path::new(""), &mut entries);
        Self { entries, sched }
    }

    /// source from explicit entries (used for hostile names where the node name is set directly)
    pub fn from_entries(entries: Vec<(PathBuf, Node, Option<Arc<Vec<u8>>>)>) -> Self {
        Self {
            entries,
            sched: ReadSchedule::default(),
        }
    }
}

impl ReadSource for MemSource {
    type Open = SchedReader;
    type Iter = std::vec::IntoIter<RusticResult<ReadSourceEntry<SchedReader>>>;

    fn size(&self) -> RusticResult<Option<u64>> {
        Ok(Some(
            self.entries
                .iter()
                .map(|e| e.2.as_ref().map_or(0, |b| b.len() as u64))
                .sum(),
        ))
    }

    fn entries(&self) -> Self::Iter {
        self.entries
            .iter()
            .map(|(path, node, data)| {
                Ok(ReadSourceEntry {
                    path: path.clone(),
                    node: node.clone(),
                    open: data
                        .as_ref()
                        .map(|d| SchedReader::new(d.clone(), self.sched.clone())),
                })
            })
            .collect::<Vec<_>>()
            .into_iter()
    }
}
