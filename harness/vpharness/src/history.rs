//! Histories of repository-changing operations and their interpreter with a model of every live
//! snapshot (used by C02, C05, C08, C03, C10, C13, C16, C19 as the source of repository states).

use std::{collections::BTreeSet, sync::Arc};

use proptest::prelude::*;
use rustic_core::{
    BackupOptions, FileType, LimitOption, PruneOptions,
    jiff::Span,
    repofile::{SnapshotFile, SnapshotId},
};
use serde::{Deserialize, Serialize};
use vpcore::fmt::{Id32, encode_file, sha256};

use crate::{
    engine::{guarded, pick_idx},
    r#gen::{Edit, TreeParams, apply_edit, edit},
    inspect::{IndexView, file_ids, index_view, pack_ids, to_id},
    membe::{MemBackend, Storage, id_bytes},
    model::{Flat, MNode, ReadSchedule, flatten},
    repo::{
        CheckVerdict, CmpOpts, RepoCfg, backup_tree, check_verdict, compare, estr, force_opts,
        init_repo, open_full, open_ids, open_repo, read_snapshot, snap_template,
    },
};

#[derive(Debug, Clone, Copy, PartialEq, Eq, Serialize, Deserialize)]
pub enum Lim {
    Pct(u8),
    Size(u32),
    Unlimited,
}

impl Lim {
    pub fn to_opt(self) -> LimitOption {
        match self {
            Lim::Pct(p) => LimitOption::Percentage(u64::from(p)),
            Lim::Size(s) => LimitOption::Size(bytesize::ByteSize(u64::from(s))),
            Lim::Unlimited => LimitOption::Unlimited,
        }
    }
}

#[derive(Debug, Clone, PartialEq, Eq, Serialize, Deserialize)]
pub struct PruneCfg {
    pub max_unused: Lim,
    pub max_repack: Lim,
    /// keep-pack: 0 or 1 hour
    pub keep_pack_1h: bool,
    /// keep-delete: 0 or 23 hours
    pub keep_delete_23h: bool,
    pub instant_delete: bool,
    pub early_delete_index: bool,
    pub fast_repack: bool,
    pub repack_all: bool,
    pub repack_uncompressed: bool,
    pub no_resize: bool,
    pub repack_cacheable_only: Option<bool>,
}

impl PruneCfg {
    pub fn aggressive() -> Self {
        Self {
            max_unused: Lim::Pct(0),
            max_repack: Lim::Unlimited,
            keep_pack_1h: false,
            keep_delete_23h: false,
            instant_delete: true,
            early_delete_index: false,
            fast_repack: false,
            repack_all: false,
            repack_uncompressed: false,
            no_resize: false,
            repack_cacheable_only: None,
        }
    }

    pub fn options(&self, cfg: &RepoCfg) -> PruneOptions {
        let mut o = PruneOptions::default();
        o.max_unused = self.max_unused.to_opt();
        o.max_repack = self.max_repack.to_opt();
        o.keep_pack = if self.keep_pack_1h { Span::new().hours(1) } else { Span::new() };
        o.keep_delete = if self.keep_delete_23h { Span::new().hours(23) } else { Span::new() };
        o.instant_delete = self.instant_delete;
        // passed as generated: the option is documented to act only together with instant-delete,
        // which is the library's rule to keep, not the harness's
        o.early_delete_index = self.early_delete_index;
        o.fast_repack = self.fast_repack;
        o.repack_all = self.repack_all;
        // refused on version 1 repositories (documented)
        o.repack_uncompressed = self.repack_uncompressed && cfg.version >= 2;
        o.no_resize = self.no_resize;
        o.repack_cacheable_only = self.repack_cacheable_only;
        o
    }
}

pub fn lim() -> BoxedStrategy<Lim> {
    prop_oneof![
        3 => Just(Lim::Unlimited),
        2 => Just(Lim::Pct(0)),
        2 => (1u8..=99).prop_map(Lim::Pct),
        1 => Just(Lim::Pct(99)),
        1 => prop_oneof![Just(0u32), 1u32..5000, 5000u32..1_000_000].prop_map(Lim::Size),
    ]
    .boxed()
}

pub fn prune_cfg() -> BoxedStrategy<PruneCfg> {
    (
        lim(),
        // weighted towards unlimited: with a small max-repack tiny repositories never repack
        prop_oneof![4 => Just(Lim::Unlimited), 1 => lim()],
        prop::bool::weighted(0.15),
        any::<bool>(),
        any::<bool>(),
        prop::bool::weighted(0.3),
        any::<bool>(),
        prop::bool::weighted(0.2),
        prop::bool::weighted(0.2),
        prop::bool::weighted(0.2),
        prop_oneof![3 => Just(None), 1 => Just(Some(true)), 1 => Just(Some(false))],
    )
        .prop_map(
            |(max_unused, max_repack, keep_pack_1h, keep_delete_23h, instant_delete, edi, fast_repack, repack_all, ru, no_resize, rco)| PruneCfg {
                max_unused,
                max_repack,
                keep_pack_1h,
                keep_delete_23h,
                instant_delete,
                early_delete_index: edi,
                fast_repack,
                repack_all,
                repack_uncompressed: ru,
                no_resize,
                repack_cacheable_only: rco,
            },
        )
        .boxed()
}

#[derive(Debug, Clone, PartialEq, Eq, Serialize, Deserialize)]
pub enum HOp {
    Backup { edits: Vec<Edit>, parent: bool },
    /// remove the snapshots selected from the live list
    Forget { sel: Vec<u16> },
    Prune(PruneCfg),
    /// two handles load the index before either backs up the same state: duplicate blobs
    DupBackup { edits: Vec<Edit> },
    /// store a second copy of an existing index file's content under a new id: duplicate entries
    DupIndex { sel: u16 },
    /// a backup on a handle that dies after `cut` mutating operations: unreferenced packs
    CutBackup { edits: Vec<Edit>, cut: u8 },
    /// a handle loads the index, a non-instant prune (keep-delete 23 h) runs, then the handle backs
    /// up: the new snapshot may reference blobs of packs that are marked for deletion
    PruneThenStaleBackup { prune: PruneCfg, edits: Vec<Edit> },
    /// the same with several prune runs (all non-instant, keep-delete 23 h) while the stale handle
    /// is open: what the first one marks must survive the following ones
    PrunesThenStaleBackup { prunes: Vec<PruneCfg>, edits: Vec<Edit> },
    /// time passes: the recorded time of every pack (listed or marked) in every index file moves
    /// `hours` into the past (index files re-encoded with the independent codec)
    Age { hours: u16 },
}

pub fn hop(p: TreeParams, craft: bool) -> BoxedStrategy<HOp> {
    let edits = || prop::collection::vec(edit(p), 0..4);
    let basic = prop_oneof![
        5 => (edits(), any::<bool>()).prop_map(|(edits, parent)| HOp::Backup { edits, parent }),
        3 => prop::collection::vec(any::<u16>(), 1..3).prop_map(|sel| HOp::Forget { sel }),
        4 => prune_cfg().prop_map(HOp::Prune),
    ];
    if !craft {
        return basic.boxed();
    }
    prop_oneof![
        12 => basic,
        1 => edits().prop_map(|edits| HOp::DupBackup { edits }),
        1 => any::<u16>().prop_map(|sel| HOp::DupIndex { sel }),
        1 => (edits(), 0u8..14).prop_map(|(edits, cut)| HOp::CutBackup { edits, cut }),
        1 => (prune_cfg(), edits()).prop_map(|(mut prune, edits)| {
            prune.instant_delete = false;
            prune.early_delete_index = false;
            prune.keep_delete_23h = true;
            HOp::PruneThenStaleBackup { prune, edits }
        }),
        1 => (prop::collection::vec(prune_cfg(), 2..4), edits()).prop_map(|(mut prunes, edits)| {
            for prune in &mut prunes {
                prune.instant_delete = false;
                prune.early_delete_index = false;
                prune.keep_delete_23h = true;
            }
            HOp::PrunesThenStaleBackup { prunes, edits }
        }),
        2 => prop_oneof![Just(1u16), Just(22), Just(24), Just(48), 1u16..2000].prop_map(|hours| HOp::Age { hours }),
    ]
    .boxed()
}

#[derive(Debug, Clone)]
pub struct LiveSnap {
    pub snap: SnapshotFile,
    pub model: Arc<Flat>,
    /// created by a stale handle after a prune: readable again only after the next prune
    pub pending_recovery: bool,
}

/// The interpreter state: storage + model of all live snapshots + current source tree
pub struct World {
    pub cfg: RepoCfg,
    pub storage: Arc<Storage>,
    pub tree: MNode,
    pub live: Vec<LiveSnap>,
    pub clock: i64,
    pub tick: i64,
    /// statistics for classification
    pub prunes_after_forget: u32,
    pub forgot_since_prune: bool,
    pub craft_before_prune: bool,
    pub repacked_or_marked: bool,
    pub recovered: u32,
    /// hours that have passed through `HOp::Age`
    pub vhours: i64,
}

#[derive(Debug, Clone, Default)]
pub struct StepInfo {
    pub new_snaps: Vec<SnapshotId>,
    pub removed_snaps: Vec<SnapshotId>,
    pub was_prune: bool,
}

impl World {
    pub fn new(cfg: &RepoCfg, tree: &MNode) -> Result<Self, String> {
        let storage = Storage::new();
        drop(init_repo(storage.handle(), cfg)?);
        Ok(Self {
            cfg: cfg.clone(),
            storage,
            tree: tree.clone(),
            live: Vec::new(),
            clock: 1_700_000_000,
            tick: 1000,
            prunes_after_forget: 0,
            forgot_since_prune: false,
            craft_before_prune: false,
            repacked_or_marked: false,
            recovered: 0,
            vhours: 0,
        })
    }

    pub fn key(&self) -> [u8; 64] {
        self.cfg.key64()
    }

    fn edit(&mut self, edits: &[Edit]) {
        self.tick += 1;
        for e in edits {
            _ = apply_edit(&mut self.tree, e, self.tick);
        }
    }

    fn next_time(&mut self) -> i64 {
        self.clock += 100;
        self.clock
    }

    fn backup_on(
        &mut self,
        repo: &crate::repo::RepoIds,
        parent: bool,
    ) -> Result<SnapshotFile, String> {
        let opts: BackupOptions = if parent { BackupOptions::default() } else { force_opts() };
        let t = self.next_time();
        backup_tree(repo, &self.tree, &ReadSchedule::default(), &opts, snap_template(t, "host", "", ""))
    }

    fn add_live(&mut self, snap: SnapshotFile, pending: bool) {
        let model = Arc::new(flatten(&self.tree));
        self.live.push(LiveSnap {
            snap,
            model,
            pending_recovery: pending,
        });
    }

    pub fn prune(&mut self, p: &PruneCfg) -> Result<(), String> {
        let opts = p.options(&self.cfg);
        let be = self.storage.handle();
        let cfg = self.cfg.clone();
        let r = guarded(|| -> Result<(), String> {
            let repo = open_repo(be, &cfg)?;
            let plan = repo.prune_plan(&opts).map_err(|e| format!("prune_plan returned an error: {}", estr(&e)))?;
            repo.prune(&opts, plan).map_err(|e| format!("prune returned an error: {}", estr(&e)))
        });
        match r {
            Ok(x) => x,
            Err(p) => Err(format!("prune panicked: {p}")),
        }
    }

    /// apply one operation; Err = the library failed where it must not
    pub fn step(&mut self, op: &HOp) -> Result<StepInfo, String> {
        let mut info = StepInfo::default();
        match op {
            HOp::Backup { edits, parent } => {
                self.edit(edits);
                let repo = open_ids(&self.storage, &self.cfg)?;
                let snap = self.backup_on(&repo, *parent)?;
                info.new_snaps.push(snap.id);
                // A parent-based backup takes over the parent's sub-tree ids without consulting
                // the index; if the parent itself still waits for the next prune (its blobs sit in
                // packs marked for deletion), so does the new snapshot. Nothing is lost: the next
                // prune brings the packs back (judged then).
                let pending = *parent && self.has_pending();
                self.add_live(snap, pending);
            }
            HOp::Forget { sel } => {
                let mut ids = Vec::new();
                for s in sel {
                    if self.live.is_empty() {
                        break;
                    }
                    let i = pick_idx(*s, self.live.len());
                    ids.push(self.live.remove(i).snap.id);
                }
                if !ids.is_empty() {
                    let be = self.storage.handle();
                    let cfg = self.cfg.clone();
                    let ids2 = ids.clone();
                    let r = guarded(|| -> Result<(), String> {
                        open_repo(be, &cfg)?
                            .delete_snapshots(&ids2)
                            .map_err(|e| format!("delete_snapshots returned an error: {}", estr(&e)))
                    });
                    match r {
                        Ok(x) => x?,
                        Err(p) => return Err(format!("delete_snapshots panicked: {p}")),
                    }
                    self.forgot_since_prune = true;
                    info.removed_snaps = ids;
                }
            }
            HOp::Prune(p) => {
                self.prune(p)?;
                info.was_prune = true;
                if self.forgot_since_prune {
                    self.prunes_after_forget += 1;
                }
                self.forgot_since_prune = false;
                for l in &mut self.live {
                    if l.pending_recovery {
                        l.pending_recovery = false;
                        self.recovered += 1;
                    }
                }
            }
            HOp::DupBackup { edits } => {
                self.edit(edits);
                let a = open_ids(&self.storage, &self.cfg)?;
                let b = open_ids(&self.storage, &self.cfg)?;
                let sa = self.backup_on(&a, false)?;
                info.new_snaps.push(sa.id);
                self.add_live(sa, false);
                let sb = self.backup_on(&b, false)?;
                info.new_snaps.push(sb.id);
                self.add_live(sb, false);
                self.craft_before_prune = true;
            }
            HOp::DupIndex { sel } => {
                let key = self.key();
                let ids = self.storage.ids(FileType::Index);
                if !ids.is_empty() {
                    let id = ids[pick_idx(*sel, ids.len())];
                    let raw = self.storage.get(FileType::Index, &id).unwrap();
                    let json = vpcore::fmt::decode_file(&key, &raw).map_err(|e| e.to_string())?;
                    // same content, different nonce -> different file id
                    let mut seed = 0x5EED ^ u64::from(*sel) ^ self.clock as u64;
                    let nonce = vpcore::fmt::next_nonce(&mut seed);
                    let enc = encode_file(&key, &nonce, &json, None);
                    let nid: Id32 = sha256(&enc);
                    self.storage.put(FileType::Index, to_id(&nid), enc);
                    self.craft_before_prune = true;
                }
            }
            HOp::CutBackup { edits, cut } => {
                let saved_tree = self.tree.clone();
                self.edit(edits);
                let be = self.storage.handle();
                let before = file_ids(&self.storage, FileType::Snapshot);
                let repo = open_repo(be.clone(), &self.cfg)?
                    .to_indexed_ids()
                    .map_err(|e| estr(&e))?;
                be.control(|c| c.cut_after_mut = Some(usize::from(*cut)));
                let res = self.backup_on(&repo, false);
                drop(repo);
                let after = file_ids(&self.storage, FileType::Snapshot);
                match res {
                    Ok(snap) => {
                        // the cut was beyond the end of the command: a complete backup
                        info.new_snaps.push(snap.id);
                        self.add_live(snap, false);
                    }
                    Err(_) => {
                        if after != before {
                            return Err("a backup that reported an error left a snapshot file behind".into());
                        }
                        self.tree = saved_tree;
                        self.craft_before_prune = true;
                    }
                }
            }
            HOp::Age { hours } => {
                let key = self.key();
                for id in self.storage.ids(FileType::Index) {
                    let raw = self.storage.get(FileType::Index, &id).unwrap();
                    let json = vpcore::fmt::decode_file(&key, &raw).map_err(|e| e.to_string())?;
                    let mut idx = vpcore::fmt::parse_index(&json)?;
                    let mut changed = false;
                    for p in idx.packs.iter_mut().chain(idx.packs_to_delete.iter_mut()) {
                        if let Some(t) = &p.time {
                            let ts: jiff::Timestamp = t.parse().map_err(|e| format!("pack time {t:?}: {e}"))?;
                            let earlier = ts
                                .checked_sub(jiff::SignedDuration::from_hours(i64::from(*hours)))
                                .map_err(|e| e.to_string())?;
                            p.time = Some(earlier.to_string());
                            changed = true;
                        }
                    }
                    if changed {
                        let json = serde_json::to_vec(&idx).map_err(|e| e.to_string())?;
                        let mut seed = 0xA6E ^ u64::from(*hours) ^ self.clock as u64 ^ u64::from(id.to_hex().as_bytes()[0]);
                        let nonce = vpcore::fmt::next_nonce(&mut seed);
                        let enc = encode_file(&key, &nonce, &json, None);
                        let nid: Id32 = sha256(&enc);
                        self.storage.put(FileType::Index, to_id(&nid), enc);
                        _ = self.storage.del(FileType::Index, &id);
                    }
                }
                self.vhours += i64::from(*hours);
            }
            HOp::PrunesThenStaleBackup { prunes, edits } => {
                let stale = open_ids(&self.storage, &self.cfg)?;
                for prune in prunes {
                    self.prune(prune)?;
                }
                if self.forgot_since_prune {
                    self.prunes_after_forget += 1;
                }
                self.forgot_since_prune = false;
                for l in &mut self.live {
                    l.pending_recovery = false;
                }
                self.edit(edits);
                let snap = self.backup_on(&stale, false)?;
                info.new_snaps.push(snap.id);
                self.add_live(snap, true);
                self.craft_before_prune = true;
                info.was_prune = false;
            }
            HOp::PruneThenStaleBackup { prune, edits } => {
                let stale = open_ids(&self.storage, &self.cfg)?;
                self.prune(prune)?;
                if self.forgot_since_prune {
                    self.prunes_after_forget += 1;
                }
                self.forgot_since_prune = false;
                for l in &mut self.live {
                    l.pending_recovery = false;
                }
                self.edit(edits);
                let snap = self.backup_on(&stale, false)?;
                info.new_snaps.push(snap.id);
                self.add_live(snap, true);
                self.craft_before_prune = true;
                info.was_prune = false;
            }
        }
        Ok(info)
    }

    pub fn has_pending(&self) -> bool {
        self.live.iter().any(|l| l.pending_recovery)
    }

    /// the invariant after every operation: exactly the model's snapshots exist and each one
    /// (that is not waiting for recovery) reads back its frozen content through a fresh handle
    pub fn verify_snapshots(&self) -> Result<(), String> {
        let want: BTreeSet<Id32> = self.live.iter().map(|l| id_bytes(&l.snap.id)).collect();
        let have = file_ids(&self.storage, FileType::Snapshot);
        if want != have {
            return Err(format!(
                "snapshot files in the repository ({}) differ from the snapshots that were created and not forgotten ({})",
                have.len(),
                want.len()
            ));
        }
        if self.live.is_empty() {
            return Ok(());
        }
        let full = open_full(&self.storage, &self.cfg)?;
        for (i, l) in self.live.iter().enumerate() {
            if l.pending_recovery {
                continue;
            }
            let got = read_snapshot(&full, &l.snap, true)
                .map_err(|e| format!("snapshot #{i} ({}) can no longer be read: {e}", l.snap.id))?;
            if let Some(d) = compare(&l.model, &got, &CmpOpts { full_meta: true, content: true }) {
                return Err(format!("snapshot #{i} ({}) no longer has the content it was created with: {d}", l.snap.id));
            }
        }
        Ok(())
    }

    pub fn check(&self, read_data: bool) -> CheckVerdict {
        match open_repo(self.storage.handle(), &self.cfg) {
            Ok(repo) => check_verdict(&repo, read_data),
            Err(e) => CheckVerdict::Errors(e),
        }
    }

    pub fn index(&self) -> Result<IndexView, String> {
        index_view(&self.storage, &self.key())
    }

    pub fn packs(&self) -> BTreeSet<Id32> {
        pack_ids(&self.storage)
    }
}

/// a handle whose every operation fails after `k` mutating operations
pub fn cut_handle(storage: &Arc<Storage>, k: usize) -> MemBackend {
    let be = storage.handle();
    be.control(|c| c.cut_after_mut = Some(k));
    be
}
