//! `vp check <ID> [--tier quick|thorough]`, `vp replay <ID> <file>`, `vp list`
use std::path::Path;

use vpharness::{
    engine::{self, Ctx, KnownFindings, Tier},
    props,
};

fn usage() -> ! {
    eprintln!("usage: vp check <ID> [--tier quick|thorough] | vp replay <ID> <file> | vp list");
    std::process::exit(2);
}

fn main() {
    let args: Vec<String> = std::env::args().skip(1).collect();
    let seed: u64 = std::env::var("VERIF_SEED")
        .ok()
        .and_then(|s| s.trim().parse::<i64>().ok())
        .map_or(0, |v| v as u64);
    engine::install_panic_hook();
    match args.first().map(String::as_str) {
        Some("list") => {
            for id in props::ALL {
                println!("{id}");
            }
        }
        Some("check") => {
            let id = args.get(1).unwrap_or_else(|| usage());
            let mut tier = match std::env::var("VERIF_TIER").as_deref() {
                Ok("thorough") => Tier::Thorough,
                _ => Tier::Quick,
            };
            if let Some(pos) = args.iter().position(|a| a == "--tier") {
                tier = match args.get(pos + 1).map(String::as_str) {
                    Some("quick") => Tier::Quick,
                    Some("thorough") => Tier::Thorough,
                    _ => usage(),
                };
            }
            let Some(spec) = props::spec(id) else {
                eprintln!("unknown property {id}");
                std::process::exit(2);
            };
            let res = engine::run_property(&spec, seed, tier);
            std::process::exit(res.exit);
        }
        Some("worker") => {
            // vp worker <ID> <sub> <tier> <seed> <shard:cases,...>
            let id = args.get(1).unwrap_or_else(|| usage());
            let sub = args.get(2).unwrap_or_else(|| usage());
            let tier = match args.get(3).map(String::as_str) {
                Some("thorough") => Tier::Thorough,
                _ => Tier::Quick,
            };
            let seed: u64 = args.get(4).and_then(|s| s.parse().ok()).unwrap_or(0);
            let shards: Vec<(u32, u32)> = args
                .get(5)
                .map(|s| {
                    s.split(',')
                        .filter_map(|p| {
                            let (a, b) = p.split_once(':')?;
                            Some((a.parse().ok()?, b.parse().ok()?))
                        })
                        .collect()
                })
                .unwrap_or_default();
            let Some(spec) = props::spec(id) else {
                std::process::exit(2);
            };
            engine::install_crash_handler(spec.id);
            // debugging aid: VP_MEMLIMIT_GB caps the address space of a worker, so that a case with a
            // runaway allocation aborts (and is left behind by the crash handler) instead of
            // attracting the kernel's OOM killer
            if let Some(gb) = std::env::var("VP_MEMLIMIT_GB").ok().and_then(|s| s.parse::<u64>().ok()) {
                let lim = libc::rlimit { rlim_cur: gb << 30, rlim_max: gb << 30 };
                // SAFETY: plain system call
                unsafe {
                    _ = libc::setrlimit(libc::RLIMIT_AS, &lim);
                }
            }
            std::process::exit(engine::run_worker(&spec, sub, seed, tier, &shards));
        }
        Some("replay") => {
            let id = args.get(1).unwrap_or_else(|| usage());
            let file = args.get(2).unwrap_or_else(|| usage());
            let Some(spec) = props::spec(id) else {
                eprintln!("unknown property {id}");
                std::process::exit(2);
            };
            let ctx = Ctx {
                prop: spec.id,
                seed,
                tier: Tier::Quick,
                known: std::sync::Arc::new(KnownFindings::load()),
                strict: true,
            };
            engine::install_replay_crash_handler(spec.id, file);
            match engine::replay_file(&spec, &ctx, Path::new(file)) {
                Ok(None) => {
                    println!("replay held: property={id} file={file}");
                }
                Ok(Some(msg)) => {
                    println!("VIOLATION property={id} replay={file}");
                    println!("  {msg}");
                    std::process::exit(1);
                }
                Err(e) => {
                    eprintln!("cannot replay: {e}");
                    std::process::exit(2);
                }
            }
        }
        _ => usage(),
    }
}
