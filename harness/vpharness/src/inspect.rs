//! Looking at a repository's storage with the independent decoder (`vpcore::fmt`): index
//! contents, pack trailers, blob sets, reachable blobs of snapshots.

use std::{
    collections::{BTreeMap, BTreeSet},
    sync::Arc,
};

use rustic_core::{FileType, Id};
use vpcore::fmt::{BType, Id32, IdxFile, Key64, PackInfo, decode_file, parse_id, parse_index, parse_pack, sha256, verify_pack};

use crate::membe::{Storage, id_bytes};

pub type BlobKey = (BType, Id32);

pub fn to_id(b: &Id32) -> Id {
    Id::new(*b)
}

#[derive(Debug, Default, Clone)]
pub struct IndexView {
    /// index file id -> decoded file
    pub files: BTreeMap<Id32, IdxFile>,
    /// blobs listed in `packs` sections: blob -> packs listing it
    pub blobs: BTreeMap<BlobKey, Vec<Id32>>,
    /// pack id -> blobs, from `packs`
    pub packs: BTreeMap<Id32, Vec<BlobKey>>,
    /// pack id -> blobs, from `packs_to_delete`
    pub marked: BTreeMap<Id32, Vec<BlobKey>>,
}

/// decode every index file in the storage
pub fn index_view(storage: &Arc<Storage>, key: &Key64) -> Result<IndexView, String> {
    let mut v = IndexView::default();
    for id in storage.ids(FileType::Index) {
        let raw = storage.get(FileType::Index, &id).unwrap();
        let json = decode_file(key, &raw).map_err(|e| format!("index file {id:?}: {e}"))?;
        let f = parse_index(&json).map_err(|e| format!("index file {id:?}: {e}"))?;
        for (list, marked) in [(&f.packs, false), (&f.packs_to_delete, true)] {
            for p in list {
                let pid = parse_id(&p.id).ok_or("bad pack id in index")?;
                let mut blobs = Vec::new();
                for b in &p.blobs {
                    let t = BType::parse(&b.tpe).ok_or("bad blob type in index")?;
                    let bid = parse_id(&b.id).ok_or("bad blob id in index")?;
                    blobs.push((t, bid));
                    if !marked {
                        v.blobs.entry((t, bid)).or_default().push(pid);
                    }
                }
                if marked {
                    v.marked.entry(pid).or_default().extend(blobs);
                } else {
                    v.packs.entry(pid).or_default().extend(blobs);
                }
            }
        }
        _ = v.files.insert(id_bytes(&id), f);
    }
    Ok(v)
}

pub fn pack_ids(storage: &Arc<Storage>) -> BTreeSet<Id32> {
    storage.ids(FileType::Pack).iter().map(id_bytes).collect()
}

pub fn file_ids(storage: &Arc<Storage>, tpe: FileType) -> BTreeSet<Id32> {
    storage.ids(tpe).iter().map(id_bytes).collect()
}

/// decode the trailer of one pack in the storage
pub fn pack_info(storage: &Arc<Storage>, key: &Key64, id: &Id32) -> Result<PackInfo, String> {
    let raw = storage
        .get(FileType::Pack, &to_id(id))
        .ok_or_else(|| format!("pack {} not in storage", hex::encode(id)))?;
    parse_pack(key, &raw).map_err(|e| format!("pack {}: {e}", hex::encode(id)))
}

/// full self-consistency check of a pack (name, trailer, tiling, every blob decodes and hashes)
pub fn pack_verified(storage: &Arc<Storage>, key: &Key64, id: &Id32) -> Result<PackInfo, String> {
    let raw = storage
        .get(FileType::Pack, &to_id(id))
        .ok_or_else(|| format!("pack {} not in storage", hex::encode(id)))?;
    verify_pack(key, id, &raw)
}

/// every stored file's name is the SHA-256 of its bytes (config excluded)
pub fn names_are_hashes(storage: &Arc<Storage>) -> Result<(), String> {
    for t in [FileType::Index, FileType::Snapshot, FileType::Pack, FileType::Key] {
        for id in storage.ids(t) {
            let raw = storage.get(t, &id).unwrap();
            if sha256(&raw) != id_bytes(&id) {
                return Err(format!("{t} file {id:?}: name is not the SHA-256 of its content"));
            }
        }
    }
    Ok(())
}

/// decode a snapshot file to JSON
pub fn snapshot_json(storage: &Arc<Storage>, key: &Key64, id: &Id) -> Result<serde_json::Value, String> {
    let raw = storage.get(FileType::Snapshot, id).ok_or("snapshot file missing")?;
    let json = decode_file(key, &raw).map_err(|e| e.to_string())?;
    serde_json::from_slice(&json).map_err(|e| e.to_string())
}

/// Locate a blob through the decoded index and return its plaintext (independent read path)
pub fn read_blob(
    storage: &Arc<Storage>,
    key: &Key64,
    view: &IndexView,
    blob: &BlobKey,
) -> Result<Vec<u8>, String> {
    let packs = view
        .blobs
        .get(blob)
        .ok_or_else(|| format!("{} blob {} is not in any index file", blob.0.as_str(), hex::encode(blob.1)))?;
    let mut last = String::new();
    for pid in packs {
        let Some(raw) = storage.get(FileType::Pack, &to_id(pid)) else {
            last = format!("pack {} listed by the index is missing", hex::encode(pid));
            continue;
        };
        // use the index entry, like a reader would
        for f in view.files.values() {
            for p in &f.packs {
                if parse_id(&p.id).as_ref() != Some(pid) {
                    continue;
                }
                for b in &p.blobs {
                    if parse_id(&b.id) == Some(blob.1) && BType::parse(&b.tpe) == Some(blob.0) {
                        let e = vpcore::fmt::TrailerEntry {
                            tpe: blob.0,
                            id: blob.1,
                            offset: b.offset,
                            length: b.length,
                            uncompressed_length: b.uncompressed_length,
                        };
                        match vpcore::fmt::decode_blob(key, &raw, &e) {
                            Ok(data) if sha256(&data) == blob.1 => return Ok(data),
                            Ok(_) => last = "blob plaintext does not hash to its id".into(),
                            Err(err) => last = err.to_string(),
                        }
                    }
                }
            }
        }
    }
    Err(format!(
        "{} blob {} cannot be read: {last}",
        blob.0.as_str(),
        hex::encode(blob.1)
    ))
}

/// All blobs reachable from the tree `root` (trees walked with the independent decoder).
/// Returns Err if a tree blob is missing / unreadable.
pub fn reachable(
    storage: &Arc<Storage>,
    key: &Key64,
    view: &IndexView,
    root: &Id32,
) -> Result<BTreeSet<BlobKey>, String> {
    let mut seen = BTreeSet::new();
    let mut stack = vec![*root];
    while let Some(t) = stack.pop() {
        if !seen.insert((BType::Tree, t)) {
            continue;
        }
        let data = read_blob(storage, key, view, &(BType::Tree, t))?;
        let v: serde_json::Value = serde_json::from_slice(&data).map_err(|e| format!("tree {}: {e}", hex::encode(t)))?;
        for n in v["nodes"].as_array().cloned().unwrap_or_default() {
            if let Some(st) = n["subtree"].as_str() {
                stack.push(parse_id(st).ok_or("bad subtree id")?);
            }
            if let Some(content) = n["content"].as_array() {
                for c in content {
                    let id = parse_id(c.as_str().unwrap_or("")).ok_or("bad content id")?;
                    _ = seen.insert((BType::Data, id));
                }
            }
        }
    }
    Ok(seen)
}
