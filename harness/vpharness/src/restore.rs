//! Restore helpers shared by C01 / C14 / C18: run prepare_restore + restore into a real
//! directory and compare the result with a model.

use std::{collections::BTreeMap, path::Path};

use rustic_core::{
    IndexedFull, LocalDestination, LsOptions, Repository, RestoreOptions, repofile::SnapshotFile,
};

use crate::{
    engine::guarded,
    fsutil::{FsEntry, FsKind},
    model::{Flat, FlatKind},
    repo::{estr, show_path},
};

/// restore the whole snapshot into `dest` (created if missing)
pub fn restore_snapshot<S: IndexedFull>(
    repo: &Repository<S>,
    snap: &SnapshotFile,
    dest: &Path,
    opts: &RestoreOptions,
) -> Result<(), String> {
    let r = guarded(|| -> Result<(), String> {
        let node = repo
            .node_from_snapshot_and_path(snap, "")
            .map_err(|e| format!("root node: {}", estr(&e)))?;
        let ls = repo
            .ls(&node, &LsOptions::default())
            .map_err(|e| format!("ls: {}", estr(&e)))?;
        let dest = LocalDestination::new(dest.to_str().expect("utf-8 scratch path"), true, false)
            .map_err(|e| format!("destination: {}", estr(&e)))?;
        let plan = repo
            .prepare_restore(opts, ls.clone(), &dest, false)
            .map_err(|e| format!("prepare_restore returned an error: {}", estr(&e)))?;
        repo.restore(plan, opts, ls, &dest)
            .map_err(|e| format!("restore returned an error: {}", estr(&e)))
    });
    match r {
        Ok(x) => x,
        Err(p) => Err(format!("restore panicked: {p}")),
    }
}

pub struct FsCmp {
    pub ownership: bool,
    pub hardlinks: bool,
    /// entries on disk that the model does not have are an error
    pub exact_set: bool,
}

/// compare a walked directory with the model (keys of both: relative path bytes)
pub fn compare_fs(model: &Flat, fs: &BTreeMap<Vec<u8>, FsEntry>, o: &FsCmp) -> Option<String> {
    for k in model.keys() {
        if !fs.contains_key(k) {
            return Some(format!("restore did not create {:?}", show_path(k)));
        }
    }
    if o.exact_set {
        for k in fs.keys() {
            if !model.contains_key(k) {
                return Some(format!("restore created {:?} which is not in the snapshot", show_path(k)));
            }
        }
    }
    let mut groups: BTreeMap<(u64, u64), Vec<u64>> = BTreeMap::new();
    for (k, m) in model {
        let f = &fs[k];
        let p = show_path(k);
        match (&m.kind, &f.kind) {
            (FlatKind::Dir, FsKind::Dir) => {}
            (FlatKind::File(want), FsKind::File(have)) => {
                if want[..] != have[..] {
                    return Some(format!(
                        "{p:?}: restored content differs ({} bytes on disk, {} in the source, first difference at {:?})",
                        have.len(),
                        want.len(),
                        have.iter().zip(want.iter()).position(|(a, b)| a != b)
                    ));
                }
            }
            (FlatKind::Symlink(want), FsKind::Symlink(have)) => {
                if want != have {
                    return Some(format!("{p:?}: restored link target differs"));
                }
            }
            (_, have) => {
                return Some(format!(
                    "{p:?}: restored entry has the wrong type ({})",
                    match have {
                        FsKind::Dir => "dir",
                        FsKind::File(_) => "file",
                        FsKind::Symlink(_) => "symlink",
                        FsKind::Other => "other",
                    }
                ));
            }
        }
        if !matches!(m.kind, FlatKind::Symlink(_)) && f.mode != (m.perm & 0o7777) {
            return Some(format!("{p:?}: restored mode {:#o}, source had {:#o}", f.mode, m.perm & 0o7777));
        }
        if f.mtime != (m.mtime.0, m.mtime.1) {
            return Some(format!("{p:?}: restored mtime {:?}, source had {:?}", f.mtime, m.mtime));
        }
        if o.ownership && (f.uid != m.uid || f.gid != m.gid) {
            return Some(format!("{p:?}: restored owner {}:{}, source had {}:{}", f.uid, f.gid, m.uid, m.gid));
        }
        if o.hardlinks && matches!(m.kind, FlatKind::File(_)) && m.links > 1 {
            groups.entry((m.device, m.inode)).or_default().push(f.ino);
        }
    }
    for ((_, inode), inos) in groups {
        if inos.windows(2).any(|w| w[0] != w[1]) {
            return Some(format!("hardlink group (source inode {inode}) was not restored as one inode"));
        }
    }
    None
}
