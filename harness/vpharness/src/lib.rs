//! Harness: backends, model, engine and one module per property.
pub mod cmds;
pub mod engine;
pub mod fsutil;
pub mod history;
pub mod r#gen;
pub mod membe;
pub mod model;
pub mod inspect;
pub mod props;
pub mod repo;
pub mod restore;
