//! Harness: backends, model, engine and one module per property.
pub mod engine;
pub mod membe;
pub mod model;
pub mod props;
