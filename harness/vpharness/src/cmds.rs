//! Guarded wrappers around the library's repository-changing commands other than backup/prune.

use std::{cmp::Ordering, sync::Arc};

use rustic_core::{
    RepairIndexOptions, RepairSnapshotsOptions, RewriteOptions, RewriteTreesOptions,
    repofile::{Node, SnapshotFile},
};

use crate::{
    engine::guarded,
    membe::Storage,
    repo::{RepoCfg, estr, open_full, open_ids, open_repo, snap_template},
};

fn flat<T>(r: Result<Result<T, String>, String>, what: &str) -> Result<T, String> {
    match r {
        Ok(x) => x,
        Err(p) => Err(format!("{what} panicked: {p}")),
    }
}

/// copy `snaps` from (src storage, cfg) into (dst storage, cfg)
pub fn copy_snapshots(
    src: &Arc<Storage>,
    src_cfg: &RepoCfg,
    dst: &Arc<Storage>,
    dst_cfg: &RepoCfg,
    snaps: &[SnapshotFile],
) -> Result<(), String> {
    flat(
        guarded(|| -> Result<(), String> {
            let from = open_full(src, src_cfg)?;
            let to = open_ids(dst, dst_cfg)?;
            from.copy(&to, snaps.iter())
                .map_err(|e| format!("copy returned an error: {}", estr(&e)))
        }),
        "copy",
    )
}

pub fn merge_snapshots(
    storage: &Arc<Storage>,
    cfg: &RepoCfg,
    snaps: &[SnapshotFile],
    cmp: &(impl Fn(&Node, &Node) -> Ordering + Sync),
    time: i64,
) -> Result<SnapshotFile, String> {
    flat(
        guarded(|| -> Result<SnapshotFile, String> {
            let repo = open_full(storage, cfg)?;
            repo.merge_snapshots(snaps, cmp, snap_template(time, "host", "", "merged"))
                .map_err(|e| format!("merge returned an error: {}", estr(&e)))
        }),
        "merge",
    )
}

pub fn rewrite(
    storage: &Arc<Storage>,
    cfg: &RepoCfg,
    snaps: Vec<SnapshotFile>,
    opts: &RewriteOptions,
    tree_opts: &RewriteTreesOptions,
) -> Result<Vec<SnapshotFile>, String> {
    flat(
        guarded(|| -> Result<Vec<SnapshotFile>, String> {
            let repo = open_full(storage, cfg)?;
            repo.rewrite_snapshots_and_trees(snaps, opts, tree_opts)
                .map_err(|e| format!("rewrite returned an error: {}", estr(&e)))
        }),
        "rewrite",
    )
}

pub fn repair_snapshots(
    storage: &Arc<Storage>,
    cfg: &RepoCfg,
    snaps: Vec<SnapshotFile>,
    delete: bool,
    dry_run: bool,
) -> Result<(), String> {
    flat(
        guarded(|| -> Result<(), String> {
            let repo = open_full(storage, cfg)?;
            let opts = RepairSnapshotsOptions::default().delete(delete);
            repo.repair_snapshots(&opts, snaps, dry_run)
                .map_err(|e| format!("repair snapshots returned an error: {}", estr(&e)))
        }),
        "repair snapshots",
    )
}

pub fn repair_index(storage: &Arc<Storage>, cfg: &RepoCfg, read_all: bool, dry_run: bool) -> Result<(), String> {
    flat(
        guarded(|| -> Result<(), String> {
            let repo = open_repo(storage.handle(), cfg)?;
            let opts = RepairIndexOptions::default().read_all(read_all);
            repo.repair_index(&opts, dry_run)
                .map_err(|e| format!("repair index returned an error: {}", estr(&e)))
        }),
        "repair index",
    )
}

pub fn all_snapshots(storage: &Arc<Storage>, cfg: &RepoCfg) -> Result<Vec<SnapshotFile>, String> {
    flat(
        guarded(|| -> Result<Vec<SnapshotFile>, String> {
            open_repo(storage.handle(), cfg)?
                .get_all_snapshots()
                .map_err(|e| format!("get_all_snapshots returned an error: {}", estr(&e)))
        }),
        "get_all_snapshots",
    )
}
