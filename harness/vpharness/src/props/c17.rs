//! C17 — The in-memory index answers exactly what the index files say.
//!
//! Generated: sets of index files (plain `vpcore::fmt::IdxFile` data) whose blob and pack ids come
//! from a pool of 32 ids, so that duplicates across packs, the same id under both blob types and
//! the same pack listed twice are frequent; one blob type per pack; `size` present / absent;
//! compressed and uncompressed entries; `packs` and `packs_to_delete`; empty packs.
//!
//! Oracle: the reference map `vpcore::indexref::build` (only `packs` sections contribute).
//! * sub `hook`: the `packs` sections are fed in file order to `verif::IndexHandle::new` for all three
//!   index modes; `has`, `get_id`, `total_size` and `into_packs` are compared with the reference.
//! * sub `public`: the same files are encrypted with the independent encoder into a storage holding
//!   an initialised repository; `to_indexed()` + `get_index_entry` must agree with the reference for
//!   every id of the pool (present and absent) and both types.

use std::collections::{BTreeMap, BTreeSet};

use proptest::prelude::*;
use rustic_core::{
    BlobId, DataId, FileType, Id, TreeId,
    repofile::{BlobType, IndexPack},
    verif::{IndexHandle, IndexMode},
};
use serde::{Deserialize, Serialize};
use vpcore::{
    fmt::{BType, IdxBlob, IdxFile, IdxPack, encode_file, hex_id, next_nonce, sha256},
    indexref::{RefIndex, RefLoc, build},
};

use crate::{
    engine::{Ctx, DynSub, Outcome, PropSpec, Sub, guarded},
    membe::Storage,
    model::splitmix,
    repo::{RepoCfg, init_repo, open_full},
};

/// number of ids in the pool; every one of them is queried under both types in every case
pub const POOL: u8 = 32;

#[derive(Debug, Clone, Serialize, Deserialize)]
pub struct GBlob {
    /// pool index of the blob id
    pub id: u8,
    /// only used when the pack does not tile
    pub offset: u32,
    pub length: u32,
    /// Some = compressed entry (value >= 1)
    pub ul: Option<u32>,
}

#[derive(Debug, Clone, Serialize, Deserialize)]
pub struct GPack {
    /// pool index of the pack id
    pub id: u8,
    pub tree: bool,
    /// offsets are the running sum of the lengths (as a real pack has them), else as generated
    pub tile: bool,
    pub blobs: Vec<GBlob>,
    pub size: Option<u32>,
    pub time: bool,
}

#[derive(Debug, Clone, Serialize, Deserialize)]
pub struct GFile {
    pub packs: Vec<GPack>,
    pub del: Vec<GPack>,
    /// public sub only: zstd level of the stored file (None = plain JSON)
    pub zstd: Option<i32>,
    pub supersedes: bool,
}

#[derive(Debug, Clone, Serialize, Deserialize)]
pub struct Case {
    pub files: Vec<GFile>,
    pub nonce_seed: u64,
}

/// The id pool: 0 = all zero, 1 = all 0xff, other odd members share their first 31 bytes (ordering is
/// decided by the last byte only), even members are pseudo-random.
pub fn pool_id(i: u8) -> [u8; 32] {
    let mut id = [0u8; 32];
    match i {
        0 => {}
        1 => id = [0xff; 32],
        _ if i % 2 == 1 => {
            let mut z = 0x17_17_17;
            for chunk in id.chunks_mut(8) {
                z = splitmix(z);
                chunk.copy_from_slice(&z.to_le_bytes());
            }
            // descending in the pool index, so that pool order and id order disagree
            id[31] = 255 - i;
        }
        _ => {
            let mut z = 0xC17_0000 + u64::from(i);
            for chunk in id.chunks_mut(8) {
                z = splitmix(z);
                chunk.copy_from_slice(&z.to_le_bytes());
            }
        }
    }
    id
}

pub fn pool_hex(i: u8) -> String {
    hex_id(&pool_id(i))
}

fn pool_idx() -> impl Strategy<Value = u8> {
    prop_oneof![
        3 => 0u8..4,
        3 => 0u8..12,
        1 => 0u8..POOL,
    ]
}

fn blob() -> impl Strategy<Value = GBlob> {
    (
        pool_idx(),
        prop_oneof![2 => Just(0u32), 2 => 0u32..10_000, 1 => any::<u32>()],
        // bounded so that the computed size of a pack (at most 20 blobs) fits into u32
        prop_oneof![1 => Just(0u32), 4 => 0u32..2_000, 2 => 0u32..(1 << 20), 1 => 0u32..(1 << 27)],
        prop_oneof![
            2 => Just(None),
            2 => (1u32..100_000).prop_map(Some),
            1 => prop_oneof![Just(1u32), Just(u32::MAX), any::<u32>().prop_map(|v| v.max(1))].prop_map(Some),
        ],
    )
        .prop_map(|(id, offset, length, ul)| GBlob {
            id,
            offset,
            length,
            ul,
        })
}

fn pack(max_blobs: usize) -> impl Strategy<Value = GPack> {
    (
        // few pack ids: the same pack is listed twice quite often
        prop_oneof![3 => 0u8..6, 1 => 0u8..POOL],
        any::<bool>(),
        prop::bool::weighted(0.7),
        prop_oneof![
            1 => Just(Vec::new()),
            4 => prop::collection::vec(blob(), 1..=4),
            2 => prop::collection::vec(blob(), 0..=max_blobs),
        ],
        prop_oneof![
            3 => Just(None),
            2 => (0u32..100_000).prop_map(Some),
            1 => prop_oneof![Just(0u32), Just(u32::MAX), any::<u32>()].prop_map(Some),
        ],
        prop::bool::weighted(0.3),
    )
        .prop_map(|(id, tree, tile, blobs, size, time)| GPack {
            id,
            tree,
            tile,
            blobs,
            size,
            time,
        })
}

fn file() -> impl Strategy<Value = GFile> {
    (
        prop_oneof![
            1 => Just(Vec::new()),
            4 => prop::collection::vec(pack(20), 1..=3),
            2 => prop::collection::vec(pack(20), 0..=12),
        ],
        prop_oneof![
            3 => Just(Vec::new()),
            2 => prop::collection::vec(pack(8), 0..=4),
        ],
        prop_oneof![2 => Just(None), 1 => Just(Some(0)), 1 => Just(Some(3)), 1 => Just(Some(19))],
        prop::bool::weighted(0.2),
    )
        .prop_map(|(packs, del, zstd, supersedes)| GFile {
            packs,
            del,
            zstd,
            supersedes,
        })
}

fn strategy(_ctx: &Ctx) -> BoxedStrategy<Case> {
    (
        prop_oneof![
            1 => Just(Vec::new()),
            5 => prop::collection::vec(file(), 1..=3),
            3 => prop::collection::vec(file(), 0..=8),
        ],
        any::<u64>(),
    )
        .prop_map(|(files, nonce_seed)| Case { files, nonce_seed })
        .boxed()
}

fn to_idx_pack(p: &GPack) -> IdxPack {
    let tpe = if p.tree { "tree" } else { "data" };
    let mut run: u32 = 0;
    let blobs = p
        .blobs
        .iter()
        .map(|b| {
            let offset = if p.tile { run } else { b.offset };
            // at most 20 * 2^27: no overflow
            run += b.length;
            IdxBlob {
                id: pool_hex(b.id),
                tpe: tpe.to_string(),
                offset,
                length: b.length,
                uncompressed_length: b.ul.map(|v| v.max(1)),
            }
        })
        .collect();
    IdxPack {
        id: pool_hex(p.id),
        blobs,
        time: p.time.then(|| "2024-05-01T10:00:00+02:00".to_string()),
        size: p.size,
    }
}

pub fn to_idx_files(c: &Case) -> Vec<IdxFile> {
    c.files
        .iter()
        .map(|f| IdxFile {
            supersedes: f.supersedes.then(|| vec![pool_hex(7), pool_hex(8)]),
            packs: f.packs.iter().map(to_idx_pack).collect(),
            packs_to_delete: f.del.iter().map(to_idx_pack).collect(),
        })
        .collect()
}

/// Input-side facts of a case: class labels and the non-triviality rule
struct Facts {
    dup_across_packs: bool,
    both_types: bool,
    same_pack_twice: bool,
    empty_pack: bool,
    only_in_delete: bool,
    size_absent: bool,
    size_present: bool,
    compressed: bool,
    uncompressed: bool,
}

fn facts(files: &[IdxFile], r: &RefIndex) -> Facts {
    let dup_across_packs = r.map.values().any(|v| v.len() >= 2);
    let both_types = r
        .map
        .keys()
        .any(|(t, id)| *t == BType::Data && r.map.contains_key(&(BType::Tree, id.clone())));
    let mut seen = BTreeSet::new();
    let mut same_pack_twice = false;
    for (id, _, _) in &r.packs {
        if !seen.insert(id.clone()) {
            same_pack_twice = true;
        }
    }
    let mut only_in_delete = false;
    for f in files {
        for p in &f.packs_to_delete {
            for b in &p.blobs {
                let t = BType::parse(&b.tpe).expect("generated type");
                if !r.map.contains_key(&(t, b.id.clone())) {
                    only_in_delete = true;
                }
            }
        }
    }
    let packs = || files.iter().flat_map(|f| f.packs.iter());
    Facts {
        dup_across_packs,
        both_types,
        same_pack_twice,
        empty_pack: packs().any(|p| p.blobs.is_empty()),
        only_in_delete,
        size_absent: packs().any(|p| p.size.is_none()),
        size_present: packs().any(|p| p.size.is_some()),
        compressed: packs().any(|p| p.blobs.iter().any(|b| b.uncompressed_length.is_some())),
        uncompressed: packs().any(|p| p.blobs.iter().any(|b| b.uncompressed_length.is_none())),
    }
}

fn label(out: Outcome, nfiles: usize, f: &Facts) -> Outcome {
    out.nontrivial(f.dup_across_packs && f.both_types)
        .class_if(nfiles == 0, "no_files")
        .class_if(nfiles >= 2, "several_files")
        .class_if(f.dup_across_packs, "dup_across_packs")
        .class_if(f.both_types, "id_under_both_types")
        .class_if(f.same_pack_twice, "same_pack_twice")
        .class_if(f.empty_pack, "empty_pack")
        .class_if(f.only_in_delete, "blob_only_in_packs_to_delete")
        .class_if(f.size_absent, "size_absent")
        .class_if(f.size_present, "size_present")
        .class_if(f.compressed, "compressed_entry")
        .class_if(f.uncompressed, "uncompressed_entry")
}

fn btype_of(t: BType) -> BlobType {
    match t {
        BType::Data => BlobType::Data,
        BType::Tree => BlobType::Tree,
    }
}

fn show_locs(l: Option<&Vec<RefLoc>>) -> String {
    match l {
        None => "[]".to_string(),
        Some(v) => format!(
            "[{}]",
            v.iter()
                .map(|l| format!(
                    "(pack {} off {} len {} ul {:?})",
                    &l.pack[..8],
                    l.offset,
                    l.length,
                    l.uncompressed_length
                ))
                .collect::<Vec<_>>()
                .join(", ")
        ),
    }
}

type BlobKey = (String, String, u32, u32, Option<u32>);
type PackKey = (String, Vec<BlobKey>);

fn blob_keys(p: &IdxPack) -> Vec<BlobKey> {
    let mut v: Vec<BlobKey> = p
        .blobs
        .iter()
        .map(|b| {
            (
                b.tpe.clone(),
                b.id.clone(),
                b.offset,
                b.length,
                b.uncompressed_length,
            )
        })
        .collect();
    v.sort();
    v.dedup();
    v
}

const MODES: [(IndexMode, &str); 3] = [
    (IndexMode::Full, "Full"),
    (IndexMode::DataIds, "DataIds"),
    (IndexMode::OnlyTrees, "OnlyTrees"),
];

fn run_hook(c: &Case, _ctx: &Ctx) -> Outcome {
    let files = to_idx_files(c);
    let r = build(&files);
    let f = facts(&files, &r);

    // the library's own type, obtained through its own JSON decoder
    let mut packs: Vec<IndexPack> = Vec::new();
    for file in &files {
        for p in &file.packs {
            let js = serde_json::to_string(p).expect("pack serialises");
            match guarded(|| serde_json::from_str::<IndexPack>(&js)) {
                Ok(Ok(ip)) => packs.push(ip),
                Ok(Err(e)) => {
                    return Outcome::fail(format!(
                        "a well-formed index pack entry is refused by the library's decoder: {e}: {js}"
                    ));
                }
                Err(p) => return Outcome::fail(format!("library panic while decoding an index pack: {p}")),
            }
        }
    }
    let total_ref = r.size_tree + r.size_data + r.size_empty;
    let npacks = packs.len() as u64;

    for (mode, mname) in MODES {
        let input = packs.clone();
        let ih = match guarded(move || IndexHandle::new(input, mode)) {
            Ok(i) => i,
            Err(p) => return Outcome::fail(format!("mode {mname}: library panic while building the index: {p}")),
        };

        // lookups for every id of the pool, present or absent, under both types
        for i in 0..POOL {
            let hex = pool_hex(i);
            let bid: BlobId = BlobId::from(hex.parse::<Id>().expect("pool id parses"));
            for t in [BType::Tree, BType::Data] {
                let listed = r.map.get(&(t, hex.clone()));
                let present = listed.is_some_and(|v| !v.is_empty());
                let bt = btype_of(t);
                let (has, got) = match guarded(|| (ih.has(bt, &bid), ih.get_id(bt, &bid))) {
                    Ok(x) => x,
                    Err(p) => {
                        return Outcome::fail(format!(
                            "mode {mname}: library panic while looking up {} {hex}: {p}",
                            t.as_str()
                        ));
                    }
                };
                let full = t == BType::Tree || matches!(mode, IndexMode::Full);
                let ids = full || matches!(mode, IndexMode::DataIds);
                // presence: exact where the mode retains ids; a positive answer for something no
                // file lists is wrong in every mode
                if ids && has != present {
                    return Outcome::fail(format!(
                        "mode {mname}: has({}, {hex}) = {has}, but the index files list it in packs {}",
                        t.as_str(),
                        show_locs(listed)
                    ));
                }
                if !ids && has && !present {
                    return Outcome::fail(format!(
                        "mode {mname}: has({}, {hex}) = true for a blob no index file lists",
                        t.as_str()
                    ));
                }
                match got {
                    Some(e) => {
                        let loc = RefLoc {
                            pack: e.pack.to_hex().to_string(),
                            offset: e.location.offset,
                            length: e.location.length,
                            uncompressed_length: e.location.uncompressed_length.map(|n| n.get()),
                        };
                        if !listed.is_some_and(|v| v.contains(&loc)) {
                            return Outcome::fail(format!(
                                "mode {mname}: get_id({}, {hex}) = (pack {} off {} len {} ul {:?}) which is none of the listings {}",
                                t.as_str(),
                                loc.pack,
                                loc.offset,
                                loc.length,
                                loc.uncompressed_length,
                                show_locs(listed)
                            ));
                        }
                    }
                    None => {
                        if full && present {
                            return Outcome::fail(format!(
                                "mode {mname}: get_id({}, {hex}) = None, but the index files list it: {}",
                                t.as_str(),
                                show_locs(listed)
                            ));
                        }
                    }
                }
            }
        }

        // size totals. A pack without blobs has no knowable type: it may be attributed to either.
        let (st, sd) = match guarded(|| (ih.total_size(BlobType::Tree), ih.total_size(BlobType::Data))) {
            Ok(x) => x,
            Err(p) => return Outcome::fail(format!("mode {mname}: library panic in total_size: {p}")),
        };
        if st + sd != total_ref {
            return Outcome::fail(format!(
                "mode {mname}: total_size tree {st} + data {sd} = {}, the listed pack sizes sum to {total_ref} (tree {}, data {}, packs without blobs {})",
                st + sd,
                r.size_tree,
                r.size_data,
                r.size_empty
            ));
        }
        if st < r.size_tree || st > r.size_tree + r.size_empty || sd < r.size_data || sd > r.size_data + r.size_empty {
            return Outcome::fail(format!(
                "mode {mname}: total_size tree {st} / data {sd}; listed: tree {}, data {}, packs without blobs {}",
                r.size_tree, r.size_data, r.size_empty
            ));
        }

        // back out of the index: same packs, and where full entries are kept the same blob set per pack
        let back = match guarded(move || ih.into_packs()) {
            Ok(b) => b,
            Err(p) => return Outcome::fail(format!("mode {mname}: library panic in into_packs: {p}")),
        };
        let mut got: Vec<PackKey> = Vec::new();
        for ip in &back {
            let v = serde_json::to_value(ip).expect("IndexPack serialises");
            let p: IdxPack = match serde_json::from_value(v) {
                Ok(p) => p,
                Err(e) => return Outcome::fail(format!("mode {mname}: into_packs yields an entry that does not read back: {e}")),
            };
            got.push((p.id.clone(), blob_keys(&p)));
        }
        let mut want: Vec<PackKey> = Vec::new();
        for file in &files {
            for p in &file.packs {
                let keeps = match p.blobs.first().map(|b| b.tpe.as_str()) {
                    None => true,
                    Some("tree") => true,
                    Some(_) => matches!(mode, IndexMode::Full),
                };
                want.push((p.id.clone(), if keeps { blob_keys(p) } else { Vec::new() }));
            }
        }
        got.sort();
        want.sort();
        if got != want {
            let gi: Vec<&String> = got.iter().map(|p| &p.0).collect();
            let wi: Vec<&String> = want.iter().map(|p| &p.0).collect();
            if gi != wi {
                return Outcome::fail(format!(
                    "mode {mname}: into_packs yields {} packs, the index files list {}: the pack id multisets differ",
                    gi.len(),
                    wi.len()
                ));
            }
            let first = got.iter().zip(want.iter()).find(|(g, w)| g != w);
            return Outcome::fail(format!(
                "mode {mname}: into_packs yields other blobs per pack than the index files list; first difference: got {:?}, listed {:?}",
                first.map(|x| x.0),
                first.map(|x| x.1)
            ));
        }
    }

    label(Outcome::pass(), files.len(), &f)
        .count("packs", npacks)
        .count("listed_blobs", r.map.values().map(|v| v.len() as u64).sum())
}

fn run_public(c: &Case, _ctx: &Ctx) -> Outcome {
    let files = to_idx_files(c);
    let r = build(&files);
    let f = facts(&files, &r);
    let cfg = RepoCfg::simple();
    let storage = Storage::new();
    match guarded(|| init_repo(storage.handle(), &cfg).map(|_| ())) {
        Ok(Ok(())) => {}
        Ok(Err(e)) => return Outcome::pass().skip(format!("init failed: {}", crate::engine::first_line(&e))),
        Err(p) => return Outcome::pass().skip(format!("init panicked: {}", crate::engine::first_line(&p))),
    }
    // craft the index files with the independent encoder
    let key = cfg.key64();
    let mut seed = c.nonce_seed | 1;
    let mut stored: BTreeMap<String, usize> = BTreeMap::new();
    for (n, (file, g)) in files.iter().zip(c.files.iter()).enumerate() {
        let js = serde_json::to_vec(file).expect("index file serialises");
        let raw = encode_file(&key, &next_nonce(&mut seed), &js, g.zstd);
        let name = hex_id(&sha256(&raw));
        if stored.insert(name.clone(), n).is_some() {
            // cannot happen with distinct nonces; the reference would count the file twice
            return Outcome::pass().skip("two generated index files have the same stored bytes");
        }
        storage.put(FileType::Index, name.parse::<Id>().expect("hex id"), raw);
    }
    let repo = match guarded(|| open_full(&storage, &cfg)) {
        Ok(Ok(r)) => r,
        Ok(Err(e)) => {
            return Outcome::fail(format!(
                "a repository holding {} well-formed index files cannot be opened with its index: {e}",
                files.len()
            ));
        }
        Err(p) => return Outcome::fail(format!("library panic while reading the index files: {p}")),
    };
    let mut present_seen = 0u64;
    let mut absent_seen = 0u64;
    for i in 0..POOL {
        let hex = pool_hex(i);
        for t in [BType::Tree, BType::Data] {
            let listed = r.map.get(&(t, hex.clone()));
            let present = listed.is_some_and(|v| !v.is_empty());
            let res = guarded(|| match t {
                BType::Tree => repo.get_index_entry(&hex.parse::<TreeId>().expect("tree id parses")),
                BType::Data => repo.get_index_entry(&hex.parse::<DataId>().expect("data id parses")),
            });
            let res = match res {
                Ok(r) => r,
                Err(p) => return Outcome::fail(format!("library panic in get_index_entry({}, {hex}): {p}", t.as_str())),
            };
            match res {
                Ok(e) => {
                    let loc = RefLoc {
                        pack: e.pack.to_hex().to_string(),
                        offset: e.location.offset,
                        length: e.location.length,
                        uncompressed_length: e.location.uncompressed_length.map(|n| n.get()),
                    };
                    if !listed.is_some_and(|v| v.contains(&loc)) {
                        return Outcome::fail(format!(
                            "get_index_entry({}, {hex}) = (pack {} off {} len {} ul {:?}) which is none of the listings in `packs` sections: {}",
                            t.as_str(),
                            loc.pack,
                            loc.offset,
                            loc.length,
                            loc.uncompressed_length,
                            show_locs(listed)
                        ));
                    }
                    present_seen += 1;
                }
                Err(_) => {
                    if present {
                        return Outcome::fail(format!(
                            "get_index_entry({}, {hex}) fails, but the index files list the blob: {}",
                            t.as_str(),
                            show_locs(listed)
                        ));
                    }
                    absent_seen += 1;
                }
            }
        }
    }
    label(Outcome::pass(), files.len(), &f)
        .class_if(c.files.iter().any(|g| g.zstd.is_some()), "compressed_index_file")
        .count("lookups_found", present_seen)
        .count("lookups_not_found", absent_seen)
}

pub fn spec() -> PropSpec {
    PropSpec {
        id: "C17",
        level: "exploration",
        rule: "proptest: 0..8 index files with 0..12 packs and 0..4 packs marked for deletion each, 0..20 blobs per pack of one type per pack, blob and pack ids from a pool of 32 ids (all-zero, all-ff, 15 ids differing in the last byte only, 15 pseudo-random) with small indices favoured, explicit size present/absent (incl. 0 and u32::MAX), compressed and uncompressed entries, tiling and arbitrary offsets; every pool id is looked up under both types in all three index modes (hook) and through Repository::get_index_entry after to_indexed() (public). Non-trivial = at least one (type, id) listed in two or more packs and at least one id listed under both types; distinct by hash of the case.",
        assumptions: vec![
            "the reference map (vpcore::indexref) is a literal reading of the statement: only `packs` sections contribute",
            "packs without blobs have no knowable type: their size may be attributed to either type; the sum over both types is judged exactly",
            "mixed-type packs are outside the quantifier and are not generated; the computed size of a pack without explicit size stays below 2^32",
            "in the reduced modes only what the mode retains is judged: ids-only answers presence for data blobs, trees-only is only required not to report data blobs that no file lists; get_id may answer None there, but a Some must be a listing",
            "the order of packs and of blobs within a pack coming back out of the index is not judged; identical listings within one pack are compared as a set",
        ],
        subs: vec![
            Box::new(Sub {
                name: "hook",
                cases_quick: 150_000,
                cases_thorough: 8_000_000,
                max_shrink_iters: 20_000,
                strategy,
                run: run_hook,
            }) as Box<dyn DynSub>,
            Box::new(Sub {
                name: "public",
                cases_quick: 2_000,
                cases_thorough: 120_000,
                max_shrink_iters: 600,
                strategy,
                run: run_public,
            }) as Box<dyn DynSub>,
        ],
        extra: None,
    }
}
