//! C13 — Results do not depend on thread scheduling, latency or pack boundaries.
//!
//! Generated: one (chunker configuration, source tree, command) and several *perturbations* of it:
//! seeded latency per backend call, seeded sleeps at the four `sched_point`s between the packer's
//! pipeline stages, pack-size settings from one blob per pack upward, extra-verify on/off; the
//! rayon pool size varies per worker process (1, 2, 4, 16). Oracle (differential + invariant): all
//! runs return Ok within the watchdog, agree on the snapshot tree id and on the set of referenced
//! blobs (backup) resp. on the set of blobs reachable from all snapshots (prune, copy); after each
//! run every pack is listed by the index with exactly the blobs of its trailer, `check --read-data`
//! is clean and the snapshots read back as their model.

use std::{
    collections::BTreeSet,
    sync::{
        Arc,
        atomic::{AtomicU64, Ordering},
    },
};

use proptest::prelude::*;
use rustic_core::repofile::SnapshotFile;
use serde::{Deserialize, Serialize};

use crate::{
    engine::{Ctx, DynSub, Outcome, PropSpec, Sub, guarded},
    r#gen::{Edit, apply_edit, edit, tree},
    history::{Lim, PruneCfg},
    inspect::{BlobKey, index_view, reachable},
    membe::{Storage, id_bytes},
    model::{Flat, MNode, ReadSchedule, flatten},
    repo::{
        CheckVerdict, CmpOpts, PackCfg, RepoCfg, backup_tree, check_verdict, compare, estr, force_opts,
        init_repo, open_full, open_repo, read_snapshot, repo_cfg, snap_template,
    },
};

#[derive(Debug, Clone, Serialize, Deserialize, PartialEq, Eq)]
pub struct Perturb {
    pub lat_seed: u64,
    /// max microseconds of delay for reads / writes (0 = none)
    pub lat_read: u16,
    pub lat_write: u16,
    /// max microseconds of sleep at the packer's sched points (0 = none)
    pub sched: u16,
    pub tree_pack: PackCfg,
    pub data_pack: PackCfg,
    pub extra_verify: Option<bool>,
}

#[derive(Debug, Clone, Copy, Serialize, Deserialize, PartialEq, Eq)]
pub enum Cmd {
    Backup,
    Prune,
    Copy,
}

#[derive(Debug, Clone, Serialize, Deserialize)]
pub struct Case {
    pub cfg: RepoCfg,
    pub tree: MNode,
    pub edits: Vec<Edit>,
    pub cmd: Cmd,
    pub fast_repack: bool,
    pub perturbations: Vec<Perturb>,
}

fn pack_cfg() -> impl Strategy<Value = PackCfg> {
    (
        prop_oneof![
            3 => Just(Some(0u32)),
            3 => (1u32..30_000).prop_map(Some),
            1 => (30_000u32..1_000_000).prop_map(Some),
            1 => Just(None),
        ],
        prop_oneof![Just(Some(0u32)), Just(None), Just(Some(32u32))],
    )
        .prop_map(|(size, grow)| PackCfg { size, grow, limit: None })
}

fn perturb() -> impl Strategy<Value = Perturb> {
    (
        any::<u64>(),
        prop_oneof![2 => Just(0u16), 3 => 1u16..600, 1 => 600u16..3000],
        prop_oneof![1 => Just(0u16), 3 => 1u16..1500, 1 => 1500u16..6000],
        prop_oneof![2 => Just(0u16), 3 => 1u16..1500],
        pack_cfg(),
        pack_cfg(),
        prop_oneof![Just(None), Just(Some(true)), Just(Some(false))],
    )
        .prop_map(|(lat_seed, lat_read, lat_write, sched, tree_pack, data_pack, extra_verify)| Perturb {
            lat_seed,
            lat_read,
            lat_write,
            sched,
            tree_pack,
            data_pack,
            extra_verify,
        })
}

fn strategy(ctx: &Ctx) -> BoxedStrategy<Case> {
    let n = if ctx.tier.is_thorough() { 10 } else { 5 };
    repo_cfg()
        .prop_flat_map(move |cfg| {
            let mut p = super::c07::params(&cfg);
            p.file_cap = 120_000;
            (
                Just(cfg),
                tree(p),
                prop::collection::vec(edit(p), 0..4),
                prop_oneof![3 => Just(Cmd::Backup), 2 => Just(Cmd::Prune), 1 => Just(Cmd::Copy)],
                any::<bool>(),
                prop::collection::vec(perturb(), n..=n),
                // a wide directory: this many sub-directories with pairwise different trees (the
                // tree streamers of prune / copy / check keep one request per sub-tree in flight)
                prop::option::weighted(0.15, prop_oneof![60u16..100, 100u16..400]),
            )
        })
        .prop_map(|(mut cfg, mut tree, edits, cmd, fast_repack, mut perturbations, wide)| {
            // every case runs its command 5–10 times: zstd's ultra levels (seconds and gigabytes per
            // run, serialised across workers) buy nothing for this property
            if cfg.compression.is_some_and(|l| l > 19) {
                cfg.compression = Some(19);
            }
            if let (Some(n), Some(ch)) = (wide, tree.children_mut()) {
                if !ch.iter().any(|c| c.name == b"zz-wide") {
                    let leaf = |name: Vec<u8>, kind: crate::model::MKind, inode: u64| MNode {
                        name,
                        kind,
                        perm: 0o755,
                        mtime: crate::model::MTime(1_600_000_000, 0),
                        ctime: crate::model::MTime(1_600_000_000, 0),
                        uid: 0,
                        gid: 0,
                        inode,
                        device: 7,
                        links: 1,
                    };
                    let subs: Vec<MNode> = (0..u64::from(n))
                        .map(|i| {
                            let f = leaf(
                                b"f".to_vec(),
                                crate::model::MKind::File { content: crate::model::Content::lit(format!("{i}").into_bytes()) },
                                9_600_000 + 2 * i,
                            );
                            leaf(format!("w{i:04}").into_bytes(), crate::model::MKind::Dir { children: vec![f] }, 9_600_001 + 2 * i)
                        })
                        .collect();
                    ch.push(leaf(b"zz-wide".to_vec(), crate::model::MKind::Dir { children: subs }, 9_599_999));
                }
                tree.normalise();
            }
            // the first run is the unperturbed one with the case's own pack settings
            perturbations[0] = Perturb {
                lat_seed: 0,
                lat_read: 0,
                lat_write: 0,
                sched: 0,
                tree_pack: cfg.tree_pack.clone(),
                data_pack: cfg.data_pack.clone(),
                extra_verify: cfg.extra_verify,
            };
            // plain repetition: the second run repeats the first
            perturbations[1] = perturbations[0].clone();
            Case {
                cfg,
                tree,
                edits,
                cmd,
                fast_repack,
                perturbations,
            }
        })
        .boxed()
}

struct RunResult {
    trees: Vec<String>,
    blobs: BTreeSet<BlobKey>,
    packs: usize,
    nblobs: usize,
}

fn one_run(c: &Case, p: &Perturb) -> Result<RunResult, String> {
    let mut cfg = c.cfg.clone();
    cfg.tree_pack = p.tree_pack.clone();
    cfg.data_pack = p.data_pack.clone();
    cfg.extra_verify = p.extra_verify;
    let key = cfg.key64();
    // seeded sleeps between the pipeline stages
    let counter = Arc::new(AtomicU64::new(0));
    if p.sched > 0 {
        let (seed, max, counter) = (p.lat_seed, u64::from(p.sched), counter.clone());
        rustic_core::verif::set_sched_callback(Some(Arc::new(move |_tag| {
            let n = counter.fetch_add(1, Ordering::SeqCst);
            let r = crate::model::splitmix(seed ^ n.wrapping_mul(0x9E37_79B9));
            let us = r % (max + 1);
            if us > 0 {
                std::thread::sleep(std::time::Duration::from_micros(us));
            } else {
                std::thread::yield_now();
            }
        })));
    }
    // the command runs on its own thread so that a deadlock can be told from slowness
    let (c2, p2, cfg2) = (c.clone(), p.clone(), cfg.clone());
    let res = crate::engine::run_detecting_deadlock(move || guarded(|| one_run_inner(&c2, &p2, &cfg2, &key)));
    rustic_core::verif::set_sched_callback(None);
    match res {
        Ok(Ok(r)) => r,
        Ok(Err(panic)) => Err(format!("panicked: {panic}")),
        Err(deadlock) => Err(deadlock),
    }
}

fn perturbed_handle(st: &Arc<Storage>, p: &Perturb) -> crate::membe::MemBackend {
    let be = st.handle();
    if p.lat_read > 0 || p.lat_write > 0 {
        be.control(|ctl| ctl.latency = Some((p.lat_seed, u64::from(p.lat_read), u64::from(p.lat_write))));
    }
    be
}

fn one_run_inner(c: &Case, p: &Perturb, cfg: &RepoCfg, key: &[u8; 64]) -> Result<RunResult, String> {
    let st = Storage::new();
    drop(init_repo(st.handle(), cfg)?);
    let mut models: Vec<(SnapshotFile, Arc<Flat>)> = Vec::new();
    let mut tree = c.tree.clone();
    let backup = |st: &Arc<Storage>, tree: &MNode, t: i64, perturbed: bool| -> Result<SnapshotFile, String> {
        let be = if perturbed { perturbed_handle(st, p) } else { st.handle() };
        let repo = open_repo(be, cfg)?.to_indexed_ids().map_err(|e| estr(&e))?;
        backup_tree(&repo, tree, &ReadSchedule::default(), &force_opts(), snap_template(t, "host", "", ""))
    };
    let verify_store = st.clone();
    match c.cmd {
        Cmd::Backup => {
            for e in &c.edits {
                _ = apply_edit(&mut tree, e, 77);
            }
            let s = backup(&st, &tree, 1_700_000_000, true)?;
            models.push((s, Arc::new(flatten(&tree))));
        }
        Cmd::Prune => {
            // two snapshots, forget the first, prune under perturbation
            let s1 = backup(&st, &tree, 1_700_000_000, false)?;
            for e in &c.edits {
                _ = apply_edit(&mut tree, e, 77);
            }
            let s2 = backup(&st, &tree, 1_700_000_100, false)?;
            open_repo(st.handle(), cfg)?.delete_snapshots(&[s1.id]).map_err(|e| estr(&e))?;
            models.push((s2, Arc::new(flatten(&tree))));
            let pc = PruneCfg {
                max_unused: Lim::Pct(0),
                max_repack: Lim::Unlimited,
                keep_pack_1h: false,
                keep_delete_23h: false,
                instant_delete: true,
                early_delete_index: false,
                fast_repack: c.fast_repack,
                repack_all: false,
                repack_uncompressed: false,
                no_resize: false,
                repack_cacheable_only: None,
            };
            let repo = open_repo(perturbed_handle(&st, p), cfg)?;
            let opts = pc.options(cfg);
            let plan = repo.prune_plan(&opts).map_err(|e| format!("prune_plan: {}", estr(&e)))?;
            repo.prune(&opts, plan).map_err(|e| format!("prune: {}", estr(&e)))?;
        }
        Cmd::Copy => {
            // source: fixed settings (the case's own), destination: perturbed settings and handle
            let src = Storage::new();
            let mut scfg = c.cfg.clone();
            scfg.key_seed += 5;
            drop(init_repo(src.handle(), &scfg)?);
            let s1 = {
                let repo = open_repo(src.handle(), &scfg)?.to_indexed_ids().map_err(|e| estr(&e))?;
                backup_tree(&repo, &tree, &ReadSchedule::default(), &force_opts(), snap_template(1_700_000_000, "host", "", ""))?
            };
            let m1 = Arc::new(flatten(&tree));
            for e in &c.edits {
                _ = apply_edit(&mut tree, e, 77);
            }
            let s2 = {
                let repo = open_repo(src.handle(), &scfg)?.to_indexed_ids().map_err(|e| estr(&e))?;
                backup_tree(&repo, &tree, &ReadSchedule::default(), &force_opts(), snap_template(1_700_000_100, "host", "", ""))?
            };
            let m2 = Arc::new(flatten(&tree));
            let from = open_full(&src, &scfg)?;
            let to = open_repo(perturbed_handle(&st, p), cfg)?.to_indexed_ids().map_err(|e| estr(&e))?;
            from.copy(&to, [&s1, &s2]).map_err(|e| format!("copy: {}", estr(&e)))?;
            let all = open_repo(st.handle(), cfg)?.get_all_snapshots().map_err(|e| estr(&e))?;
            for s in all {
                let m = if s.tree == s1.tree && s.time == s1.time { m1.clone() } else { m2.clone() };
                models.push((s, m));
            }
            if models.len() != 2 {
                return Err(format!("copy of 2 snapshots produced {} snapshots", models.len()));
            }
        }
    }
    // invariants on the resulting repository
    let (packs, _) = super::c08::verify_packs(&verify_store, key, true)?;
    let view = index_view(&verify_store, key)?;
    let mut blobs = BTreeSet::new();
    let mut trees: Vec<String> = Vec::new();
    let full = open_full(&verify_store, cfg)?;
    for (s, m) in &models {
        blobs.extend(reachable(&verify_store, key, &view, &id_bytes(&s.tree))?);
        trees.push(s.tree.to_hex().to_string());
        let got = read_snapshot(&full, s, true)?;
        if let Some(d) = compare(m, &got, &CmpOpts { full_meta: true, content: true }) {
            return Err(format!("snapshot differs from the source: {d}"));
        }
    }
    trees.sort();
    if let CheckVerdict::Errors(e) = check_verdict(&full, true) {
        return Err(e);
    }
    let nblobs = view.blobs.len();
    Ok(RunResult {
        trees,
        blobs,
        packs,
        nblobs,
    })
}

pub fn run(c: &Case, _ctx: &Ctx) -> Outcome {
    let mut out = Outcome::pass()
        .class_if(c.tree.children().iter().any(|n| n.name == b"zz-wide"), "wide_directory")
        .class(format!("{:?}", c.cmd))
        .class(format!("rayon_threads_{}", std::env::var("RAYON_NUM_THREADS").unwrap_or_else(|_| "default".into())));
    let mut reference: Option<RunResult> = None;
    let mut max_packs = 0;
    let mut max_blobs = 0;
    let mut delayed_write = false;
    for (i, p) in c.perturbations.iter().enumerate() {
        let r = match one_run(c, p) {
            Ok(r) => r,
            Err(e) if e == crate::engine::SKIP_AFTER_DEADLOCK => return out.skip("after_deadlock_in_this_worker"),
            Err(e) => {
                out.failure = Some(format!("run #{i} ({p:?}): {e}"));
                return out;
            }
        };
        max_packs = max_packs.max(r.packs);
        max_blobs = max_blobs.max(r.nblobs);
        delayed_write |= p.lat_write > 0;
        match &reference {
            None => reference = Some(r),
            Some(first) => {
                if first.trees != r.trees {
                    out.failure = Some(format!(
                        "run #{i} ({p:?}) produced tree id(s) {:?}, the unperturbed run {:?}",
                        r.trees, first.trees
                    ));
                    return out;
                }
                if first.blobs != r.blobs {
                    out.failure = Some(format!(
                        "run #{i} ({p:?}) references {} blobs, the unperturbed run {} (symmetric difference {})",
                        r.blobs.len(),
                        first.blobs.len(),
                        first.blobs.symmetric_difference(&r.blobs).count()
                    ));
                    return out;
                }
            }
        }
    }
    out.nontrivial = max_blobs >= 20 && max_packs >= 3 && delayed_write;
    out.count("runs", c.perturbations.len() as u64)
}

pub fn spec() -> PropSpec {
    PropSpec {
        id: "C13",
        level: "exploration",
        rule: "proptest generates (chunker configuration, source tree, edit script, command ∈ {backup, prune after a forget (fast or re-encoding repack), copy of two snapshots}) and 5 (quick) / 10 (thorough) runs of it: the unperturbed run, a plain repetition, and runs with seeded latency per backend call (reads ≤3 ms, writes ≤6 ms, occasionally 10x), seeded sleeps ≤1.5 ms at the four packer sched points, tree/data pack sizes from one blob per pack to the defaults, extra-verify on/off; worker processes use rayon pools of 1, 2, 4 and 16 threads. Non-trivial = ≥20 blobs, ≥3 packs and at least one run with delayed pack writes; distinct by hash of the case. This is SAMPLING of schedules, not control. Termination: each command runs on its own thread; it counts as deadlocked when it has not returned and for 60 s this process made no backend call, read no source byte and used < 0.25 s CPU (everything the command can wait for lives in the process); slowness alone only hits the watchdog (exit 2).",
        assumptions: vec![
            "interleavings that need a precise preemption inside a critical section are unlikely to be hit: weakest claim of the set",
            "termination is only observed as 'finished within the watchdog limit'",
        ],
        subs: vec![Box::new(Sub {
            name: "perturb",
            cases_quick: 240,
            cases_thorough: 4000,
            max_shrink_iters: 60,
            strategy,
            run,
        }) as Box<dyn DynSub>],
        extra: None,
    }
}
