//! C20 — Local storage backends are exact maps and publish files atomically.
//!
//! Subjects: `LocalBackend` on a scratch directory, `OpenDALBackend` on the `fs` service (root = a
//! scratch directory) and on the `memory` service, and the testing crate's `InMemoryBackend`.
//!
//! * `map_*` (one sub per subject): generated op sequences (write fresh `(type,id)`, write /
//!   overwrite config, read_full, read_partial within bounds, list, list_with_size, remove
//!   existing) interleaved with *stray files* planted directly into the directory of the two
//!   directory-based subjects. Oracle: a `BTreeMap<(type,id),Vec<u8>>` model; after every
//!   mutating op both listings of the touched type must equal the model, every read must return
//!   exactly the bytes / slice, and at the end of the sequence everything is listed and read back.
//! * `publish` (`LocalBackend`): the pre-publish hook (between "temporary file written and
//!   synced" and "rename") observes the directory through a second handle, takes a copy of the
//!   directory as a crash image and inspects the temporary file.
//! * `concurrent` (`LocalBackend`): a lister/reader thread polls while files of several hundred
//!   KiB are written; whatever it sees listed must read back complete and correct.

use std::{
    collections::{BTreeMap, BTreeSet},
    fs,
    path::{Path, PathBuf},
    sync::{
        Arc, Barrier, Mutex,
        atomic::{AtomicBool, AtomicU64, Ordering},
    },
};

use bytes::Bytes;
use proptest::prelude::*;
use rustic_backend::{LocalBackend, OpenDALBackend};
use rustic_core::{BytesList, FileType, Id, WriteBackend};
use rustic_testing::backend::in_memory_backend::InMemoryBackend;
use serde::{Deserialize, Serialize};

use crate::{
    engine::{Ctx, Outcome, PropSpec, Sub, guarded, pick_idx},
    fsutil::Scratch,
    model::{Piece, splitmix},
};

// ---------------------------------------------------------------------------------------------
// case description
// ---------------------------------------------------------------------------------------------

#[derive(Debug, Clone, Copy, Serialize, Deserialize, PartialEq, Eq, PartialOrd, Ord, Hash)]
pub enum Subject {
    Local,
    OpendalFs,
    OpendalMemory,
    InMemory,
}

impl Subject {
    fn on_directory(self) -> bool {
        matches!(self, Subject::Local | Subject::OpendalFs)
    }
    fn label(self) -> &'static str {
        match self {
            Subject::Local => "LocalBackend",
            Subject::OpendalFs => "OpenDALBackend(fs)",
            Subject::OpendalMemory => "OpenDALBackend(memory)",
            Subject::InMemory => "InMemoryBackend",
        }
    }
}

/// File type; the order is the model's key order
#[derive(Debug, Clone, Copy, Serialize, Deserialize, PartialEq, Eq, PartialOrd, Ord, Hash)]
pub enum Tp {
    Config,
    Key,
    Snapshot,
    Index,
    Pack,
}

const ALL_TP: [Tp; 5] = [Tp::Config, Tp::Key, Tp::Snapshot, Tp::Index, Tp::Pack];

impl Tp {
    fn ft(self) -> FileType {
        match self {
            Tp::Config => FileType::Config,
            Tp::Key => FileType::Key,
            Tp::Snapshot => FileType::Snapshot,
            Tp::Index => FileType::Index,
            Tp::Pack => FileType::Pack,
        }
    }
}

/// first bytes that most ids share, so that pack files meet in the same 2-hex sub-directory
const FIRSTS: [u8; 4] = [0x00, 0x0a, 0xab, 0xff];

#[derive(Debug, Clone, Serialize, Deserialize, PartialEq, Eq)]
pub enum IdSel {
    /// first byte `FIRSTS[first]`, the other 31 bytes expanded from `seed`
    Shared { first: u8, seed: u64 },
    /// all 32 bytes expanded from `seed`
    Any { seed: u64 },
    /// the id of an existing file (of any type): the map is keyed by (type, id), not by id
    SameAs { pick: u16 },
    /// the id of an existing file with byte `at` changed: ids sharing a long prefix / suffix
    Near { pick: u16, at: u8, xor: u8 },
}

fn expand_id(first: Option<u8>, seed: u64) -> Id {
    let mut b = [0u8; 32];
    let mut z = seed;
    for chunk in b.chunks_mut(8) {
        z = splitmix(z);
        chunk.copy_from_slice(&z.to_le_bytes());
    }
    if let Some(f) = first {
        b[0] = f;
    }
    Id::new(b)
}

fn id_bytes(id: &Id) -> [u8; 32] {
    let mut b = [0u8; 32];
    hex::decode_to_slice(id.to_hex().as_str(), &mut b).expect("id hex");
    b
}

#[derive(Debug, Clone, Copy, Serialize, Deserialize, PartialEq, Eq)]
pub enum RangeMode {
    /// offset and length scaled into the file
    Generic,
    /// offset 0, whole length
    Whole,
    /// length 0 at a scaled offset (incl. 0 and end of file)
    ZeroLen,
    /// offset > 0 and offset + length < file length, length > 0 (needs a file of >= 3 bytes)
    Inside,
    /// the last `len` bytes up to the end of the file
    Tail,
}

#[derive(Debug, Clone, Copy, Serialize, Deserialize, PartialEq, Eq)]
pub enum StrayKind {
    /// a name that is not hexadecimal (also 64-character names with one non-hex character)
    NonHex,
    /// 64 lower-case hex characters followed by white space (not a 64-character name)
    HexPadded,
    /// lower-case hex, 62 or 63 characters
    HexShort,
    /// lower-case hex, 65 or 66 characters
    HexLong,
    /// `<id>-tmp-` next to an existing file `<id>`
    TmpOfExisting,
    /// `<id>-tmp-` of an id that has no file
    TmpOfFresh,
    /// a sub-directory holding a non-id file and an empty directory
    SubDir,
    /// a directory whose name is a 64-hex id
    DirNamedId,
    /// a foreign file in the repository root (`README`, `config.bak`, `config-tmp-`, ...)
    RootFile,
    /// a foreign top-level directory `locks/` with an id-named file (other repository tools use it)
    LocksDir,
    /// NOT generated (replay-only probe, see the module's blind spots): a regular file with a
    /// 64-hex lower-case name in a place where no file of that id lives — in a sub-directory of
    /// the type's directory, or (packs, `place == 0`) directly under `data/`
    IdNamedFileElsewhere,
}

#[derive(Debug, Clone, Serialize, Deserialize, PartialEq, Eq)]
pub enum Op {
    Write { tp: Tp, id: IdSel, content: Piece, cuts: Vec<u16> },
    WriteConfig { content: Piece, cuts: Vec<u16> },
    ReadFull { pick: u16 },
    ReadPartial { pick: u16, mode: RangeMode, a: u32, b: u32 },
    List { tp: Tp },
    ListWithSize { tp: Tp },
    Remove { pick: u16 },
    Stray { kind: StrayKind, tp: Tp, place: u8, pick: u16, seed: u64, len: u16 },
}

#[derive(Debug, Clone, Serialize, Deserialize)]
pub struct MapCase {
    pub subject: Subject,
    pub ops: Vec<Op>,
}

// ---------------------------------------------------------------------------------------------
// generators
// ---------------------------------------------------------------------------------------------

fn max_len(ctx: &Ctx) -> u32 {
    if ctx.tier.is_thorough() { 8 << 20 } else { 256 << 10 }
}

fn piece_of(len: BoxedStrategy<u32>) -> BoxedStrategy<Piece> {
    (any::<u64>(), 0u8..10, 1u32..5000, len)
        .prop_map(|(seed, kind, p, len)| match kind {
            0 => Piece::Zeros { len },
            1 | 2 => Piece::Period { seed, p, skip: 0, len },
            _ => Piece::Rand { seed, skip: 0, len },
        })
        .boxed()
}

fn content(max: u32) -> BoxedStrategy<Piece> {
    let len = prop_oneof![
        1 => Just(0u32),
        2 => 1u32..64,
        3 => 64u32..4096,
        1 => prop::sample::select(vec![4095u32, 4096, 4097, 8192, 65_535, 65_536, 65_537, 131_072]),
        6 => 4097u32..65_536,
        3 => 65_536u32..=(256 << 10),
        // only reaches beyond 256 KiB in the thorough tier
        1 => (256u32 << 10)..=max.max(256 << 10),
    ];
    piece_of(len.boxed())
}

fn cuts() -> BoxedStrategy<Vec<u16>> {
    prop_oneof![
        3 => Just(Vec::new()),
        2 => prop::collection::vec(any::<u16>(), 1..4),
    ]
    .boxed()
}

fn file_tp() -> BoxedStrategy<Tp> {
    prop_oneof![
        2 => Just(Tp::Key),
        3 => Just(Tp::Snapshot),
        3 => Just(Tp::Index),
        5 => Just(Tp::Pack),
    ]
    .boxed()
}

fn any_tp() -> BoxedStrategy<Tp> {
    prop_oneof![1 => Just(Tp::Config), 6 => file_tp()].boxed()
}

fn id_sel() -> BoxedStrategy<IdSel> {
    prop_oneof![
        6 => (0u8..4, any::<u64>()).prop_map(|(first, seed)| IdSel::Shared { first, seed }),
        2 => any::<u64>().prop_map(|seed| IdSel::Any { seed }),
        1 => any::<u16>().prop_map(|pick| IdSel::SameAs { pick }),
        2 => (any::<u16>(), prop_oneof![Just(0u8), Just(1), Just(15), Just(16), Just(31)], 1u8..=255)
            .prop_map(|(pick, at, xor)| IdSel::Near { pick, at, xor }),
    ]
    .boxed()
}

fn stray_kind() -> BoxedStrategy<StrayKind> {
    prop::sample::select(vec![
        StrayKind::NonHex,
        StrayKind::NonHex,
        StrayKind::HexPadded,
        StrayKind::HexShort,
        StrayKind::HexLong,
        StrayKind::TmpOfExisting,
        StrayKind::TmpOfExisting,
        StrayKind::TmpOfFresh,
        StrayKind::SubDir,
        StrayKind::DirNamedId,
        StrayKind::RootFile,
        StrayKind::LocksDir,
    ])
    .boxed()
}

fn op(max: u32, strays: bool) -> BoxedStrategy<Op> {
    let mut v: Vec<(u32, BoxedStrategy<Op>)> = vec![
        (
            30,
            (file_tp(), id_sel(), content(max), cuts())
                .prop_map(|(tp, id, content, cuts)| Op::Write { tp, id, content, cuts })
                .boxed(),
        ),
        (
            5,
            (content(max), cuts())
                .prop_map(|(content, cuts)| Op::WriteConfig { content, cuts })
                .boxed(),
        ),
        (8, any::<u16>().prop_map(|pick| Op::ReadFull { pick }).boxed()),
        (
            22,
            (
                any::<u16>(),
                prop_oneof![
                    4 => Just(RangeMode::Generic),
                    1 => Just(RangeMode::Whole),
                    2 => Just(RangeMode::ZeroLen),
                    4 => Just(RangeMode::Inside),
                    1 => Just(RangeMode::Tail),
                ],
                any::<u32>(),
                any::<u32>(),
            )
                .prop_map(|(pick, mode, a, b)| Op::ReadPartial { pick, mode, a, b })
                .boxed(),
        ),
        (5, any_tp().prop_map(|tp| Op::List { tp }).boxed()),
        (5, any_tp().prop_map(|tp| Op::ListWithSize { tp }).boxed()),
        (10, any::<u16>().prop_map(|pick| Op::Remove { pick }).boxed()),
    ];
    if strays {
        v.push((
            9,
            (stray_kind(), file_tp(), 0u8..6, any::<u16>(), any::<u64>(), 0u16..300)
                .prop_map(|(kind, tp, place, pick, seed, len)| Op::Stray { kind, tp, place, pick, seed, len })
                .boxed(),
        ));
    }
    prop::strategy::Union::new_weighted(v).boxed()
}

fn map_strategy(ctx: &Ctx, subject: Subject) -> BoxedStrategy<MapCase> {
    let max = max_len(ctx);
    // plain `vec` strategies so that shrinking removes ops
    let o = || op(max, subject.on_directory());
    prop_oneof![
        1 => prop::collection::vec(o(), 1..=10),
        3 => prop::collection::vec(o(), 10..=40),
    ]
    .prop_map(move |ops| MapCase { subject, ops })
    .boxed()
}

fn strat_local(ctx: &Ctx) -> BoxedStrategy<MapCase> {
    map_strategy(ctx, Subject::Local)
}
fn strat_odfs(ctx: &Ctx) -> BoxedStrategy<MapCase> {
    map_strategy(ctx, Subject::OpendalFs)
}
fn strat_odmem(ctx: &Ctx) -> BoxedStrategy<MapCase> {
    map_strategy(ctx, Subject::OpendalMemory)
}
fn strat_inmem(ctx: &Ctx) -> BoxedStrategy<MapCase> {
    map_strategy(ctx, Subject::InMemory)
}

// ---------------------------------------------------------------------------------------------
// subjects and library calls (every call guarded)
// ---------------------------------------------------------------------------------------------

type Be = Arc<dyn WriteBackend>;
type Model = BTreeMap<(Tp, Id), Vec<u8>>;

fn local_backend(dir: &Path) -> Result<Be, String> {
    let p = dir.to_str().ok_or("scratch path is not UTF-8")?.to_string();
    match guarded(|| LocalBackend::new(p, None::<(String, String)>)) {
        Ok(Ok(b)) => Ok(Arc::new(b)),
        Ok(Err(e)) => Err(format!("LocalBackend::new failed: {}", e.display_log())),
        Err(p) => Err(format!("LocalBackend::new panicked: {p}")),
    }
}

fn open_subject(subject: Subject, dir: &Path) -> Result<Be, String> {
    let p = dir.to_str().ok_or("scratch path is not UTF-8")?.to_string();
    let be: Be = match subject {
        Subject::Local => return local_backend(dir),
        Subject::OpendalFs => {
            let opts = BTreeMap::from([("root".to_string(), p)]);
            match guarded(|| OpenDALBackend::new("fs", opts)) {
                Ok(Ok(b)) => Arc::new(b),
                Ok(Err(e)) => return Err(format!("OpenDALBackend::new(fs) failed: {}", e.display_log())),
                Err(p) => return Err(format!("OpenDALBackend::new(fs) panicked: {p}")),
            }
        }
        Subject::OpendalMemory => match guarded(|| OpenDALBackend::new("memory", BTreeMap::new())) {
            Ok(Ok(b)) => Arc::new(b),
            Ok(Err(e)) => return Err(format!("OpenDALBackend::new(memory) failed: {}", e.display_log())),
            Err(p) => return Err(format!("OpenDALBackend::new(memory) panicked: {p}")),
        },
        Subject::InMemory => Arc::new(InMemoryBackend::new()),
    };
    Ok(be)
}

fn call<R>(what: &str, f: impl FnOnce() -> rustic_core::RusticResult<R>) -> Result<R, String> {
    match guarded(f) {
        Ok(Ok(r)) => Ok(r),
        Ok(Err(e)) => Err(format!("{what} returned an error: {}", first_lines(&e.display_log()))),
        Err(p) => Err(format!("{what} panicked: {p}")),
    }
}

fn first_lines(s: &str) -> String {
    let mut out: String = s.lines().take(6).collect::<Vec<_>>().join(" | ");
    if out.len() > 600 {
        let mut cut = 600;
        while !out.is_char_boundary(cut) {
            cut -= 1;
        }
        out.truncate(cut);
    }
    out
}

fn be_create(be: &Be) -> Result<(), String> {
    call("create()", || be.create())
}

/// The content as a `BytesList` of 1..4 fragments. Fragments are never empty (except the single
/// fragment of an empty file): the library's packer never adds an empty `Bytes` to a list.
fn bytes_list(data: &[u8], cuts: &[u16]) -> BytesList {
    if cuts.is_empty() || data.len() < 2 {
        return BytesList::from(Bytes::copy_from_slice(data));
    }
    // cut positions in 1..len
    let mut pos: Vec<usize> = cuts
        .iter()
        .map(|c| 1 + (((*c as usize) * (data.len() - 1)) >> 16))
        .collect();
    pos.sort_unstable();
    pos.dedup();
    let mut list = BytesList::default();
    let mut from = 0usize;
    for p in pos {
        list.add(Bytes::copy_from_slice(&data[from..p]));
        from = p;
    }
    list.add(Bytes::copy_from_slice(&data[from..]));
    list
}

fn be_write(be: &Be, tp: Tp, id: &Id, data: &[u8], cuts: &[u16]) -> Result<(), String> {
    let list = bytes_list(data, cuts);
    call(&format!("write_bytes({tp:?}, {}, {} bytes)", id.to_hex().as_str(), data.len()), || {
        be.write_bytes(tp.ft(), id, false, list)
    })
}

fn be_remove(be: &Be, tp: Tp, id: &Id) -> Result<(), String> {
    call(&format!("remove({tp:?}, {})", id.to_hex().as_str()), || be.remove(tp.ft(), id, false))
}

fn describe_diff(want: &[u8], got: &[u8]) -> String {
    if want.len() != got.len() {
        let common = want.iter().zip(got.iter()).take_while(|(a, b)| a == b).count();
        format!("{} bytes instead of {} (first {} bytes agree)", got.len(), want.len(), common)
    } else {
        let at = want.iter().zip(got.iter()).position(|(a, b)| a != b).unwrap_or(0);
        format!(
            "same length {} but bytes differ from position {at} (want {:#04x}, got {:#04x})",
            want.len(),
            want[at],
            got[at]
        )
    }
}

fn check_read_full(be: &Be, tp: Tp, id: &Id, want: &[u8]) -> Result<(), String> {
    let what = format!("read_full({tp:?}, {})", id.to_hex().as_str());
    let got = call(&what, || be.read_full(tp.ft(), id))?;
    if got.as_ref() != want {
        return Err(format!("{what} does not return the bytes written: {}", describe_diff(want, &got)));
    }
    Ok(())
}

fn check_read_partial(be: &Be, tp: Tp, id: &Id, want: &[u8], off: usize, len: usize) -> Result<(), String> {
    let what = format!(
        "read_partial({tp:?}, {}, offset {off}, length {len}) of a {}-byte file",
        id.to_hex().as_str(),
        want.len()
    );
    let got = call(&what, || be.read_partial(tp.ft(), id, false, off as u32, len as u32))?;
    let slice = &want[off..off + len];
    if got.as_ref() != slice {
        return Err(format!("{what} does not return that slice: {}", describe_diff(slice, &got)));
    }
    Ok(())
}

fn short(ids: &[Id]) -> Vec<String> {
    ids.iter().take(6).map(|i| i.to_hex().as_str().to_string()).collect()
}

/// both listings of `tp` against the model
fn check_listing(be: &Be, model: &Model, tp: Tp, ctx_msg: &str) -> Result<(), String> {
    let want: Vec<(Id, u32)> = model
        .iter()
        .filter(|((t, _), _)| *t == tp)
        .map(|((_, id), v)| (*id, v.len() as u32))
        .collect();
    let want_ids: Vec<Id> = want.iter().map(|(i, _)| *i).collect();

    let mut got = call(&format!("list({tp:?})"), || be.list(tp.ft()))?;
    got.sort();
    if got != want_ids {
        let extra: Vec<Id> = got.iter().filter(|i| !want_ids.contains(i)).copied().collect();
        let missing: Vec<Id> = want_ids.iter().filter(|i| !got.contains(i)).copied().collect();
        return Err(format!(
            "list({tp:?}) {ctx_msg}: {} ids instead of {}; listed but never written (or removed): {:?}; written but not listed: {:?}{}",
            got.len(),
            want_ids.len(),
            short(&extra),
            short(&missing),
            if extra.is_empty() && missing.is_empty() { " (an id is listed more than once)" } else { "" }
        ));
    }
    let mut got = call(&format!("list_with_size({tp:?})"), || be.list_with_size(tp.ft()))?;
    got.sort();
    if got != want {
        let bad: Vec<String> = got
            .iter()
            .filter(|e| !want.contains(e))
            .take(4)
            .map(|(i, s)| format!("{}:{s}", i.to_hex().as_str()))
            .collect();
        let missing: Vec<String> = want
            .iter()
            .filter(|e| !got.contains(e))
            .take(4)
            .map(|(i, s)| format!("{}:{s}", i.to_hex().as_str()))
            .collect();
        return Err(format!(
            "list_with_size({tp:?}) {ctx_msg}: {} entries instead of {}; unexpected (id:size) {:?}; expected but absent {:?}",
            got.len(),
            want.len(),
            bad,
            missing
        ));
    }
    Ok(())
}

/// everything: both listings of all five types and a full read of every file
fn check_everything(be: &Be, model: &Model, ctx_msg: &str) -> Result<(), String> {
    for tp in ALL_TP {
        check_listing(be, model, tp, ctx_msg)?;
    }
    for ((tp, id), want) in model {
        check_read_full(be, *tp, id, want).map_err(|e| format!("{e} ({ctx_msg})"))?;
    }
    Ok(())
}

// ---------------------------------------------------------------------------------------------
// stray files
// ---------------------------------------------------------------------------------------------

fn hex_name(seed: u64, chars: usize) -> String {
    let mut s = String::new();
    let mut z = seed;
    while s.len() < chars {
        z = splitmix(z);
        s.push_str(&hex::encode(z.to_le_bytes()));
    }
    s.truncate(chars);
    s
}

fn type_dir(root: &Path, tp: Tp, place: u8, id: Option<&Id>) -> PathBuf {
    match tp {
        Tp::Config => root.to_path_buf(),
        Tp::Key => root.join("keys"),
        Tp::Snapshot => root.join("snapshots"),
        Tp::Index => root.join("index"),
        Tp::Pack => match id {
            Some(id) => root.join("data").join(&id.to_hex().as_str()[0..2]),
            None if place == 0 => root.join("data"),
            None => root.join("data").join(hex::encode([FIRSTS[(place as usize - 1) % FIRSTS.len()]])),
        },
    }
}

fn stray_bytes(seed: u64, len: u16) -> Vec<u8> {
    let mut v = Vec::new();
    Piece::Rand { seed, skip: 0, len: u32::from(len) }.write_to(&mut v);
    v
}

/// Plants one stray entry; returns a label if something was planted. Never touches a file of the model.
fn plant(
    root: &Path,
    model: &Model,
    blocked: &mut BTreeSet<(Tp, Id)>,
    kind: StrayKind,
    tp: Tp,
    place: u8,
    pick: u16,
    seed: u64,
    len: u16,
) -> Option<&'static str> {
    let body = stray_bytes(seed, len);
    let of_type: Vec<Id> = model.keys().filter(|(t, _)| *t == tp).map(|(_, i)| *i).collect();
    let write = |p: PathBuf| -> bool {
        if let Some(parent) = p.parent() {
            _ = fs::create_dir_all(parent);
        }
        // never replace a directory or an existing entry of another kind
        if fs::symlink_metadata(&p).map(|m| m.is_dir()).unwrap_or(false) {
            return false;
        }
        fs::write(&p, &body).is_ok()
    };
    match kind {
        StrayKind::NonHex => {
            let h63 = hex_name(seed, 63);
            let names = [
                "README".to_string(),
                ".hidden".to_string(),
                "x".to_string(),
                "0123".to_string(),
                "g".repeat(64),
                format!("{h63}g"),
                format!("{}-a", &h63[..62]),
                format!("{}.bak", hex_name(seed, 64)),
                "sn\u{e4}pshot".to_string(),
                format!("{}\u{e4}", &h63[..62]),
            ];
            let name = &names[pick_idx(pick, names.len())];
            write(type_dir(root, tp, place, None).join(name)).then_some("stray_nonhex")
        }
        StrayKind::HexPadded => {
            let pad = [" ", "  ", "\t"][pick_idx(pick, 3)];
            let name = format!("{}{pad}", hex_name(seed, 64));
            write(type_dir(root, tp, place, None).join(name)).then_some("stray_hex_padded")
        }
        StrayKind::HexShort => {
            let n = if seed & 1 == 0 { 63 } else { 62 };
            write(type_dir(root, tp, place, None).join(hex_name(seed, n))).then_some("stray_hex_short")
        }
        StrayKind::HexLong => {
            let n = if seed & 1 == 0 { 65 } else { 66 };
            write(type_dir(root, tp, place, None).join(hex_name(seed, n))).then_some("stray_hex_long")
        }
        StrayKind::TmpOfExisting if !of_type.is_empty() => {
            let id = of_type[pick_idx(pick, of_type.len())];
            let name = format!("{}-tmp-", id.to_hex().as_str());
            write(type_dir(root, tp, place, Some(&id)).join(name)).then_some("stray_tmp_of_existing")
        }
        StrayKind::TmpOfExisting | StrayKind::TmpOfFresh => {
            let id = expand_id(Some(FIRSTS[pick_idx(pick, FIRSTS.len())]), seed);
            if model.contains_key(&(tp, id)) {
                return None;
            }
            let name = format!("{}-tmp-", id.to_hex().as_str());
            write(type_dir(root, tp, place, Some(&id)).join(name)).then_some("stray_tmp_of_fresh")
        }
        StrayKind::SubDir => {
            let d = type_dir(root, tp, place, None).join(["sub", "old", "tmp", "lost+found"][pick_idx(pick, 4)]);
            if fs::create_dir_all(d.join("empty")).is_err() {
                return None;
            }
            write(d.join("note.txt")).then_some("stray_subdir")
        }
        StrayKind::DirNamedId => {
            let id = expand_id(Some(FIRSTS[pick_idx(pick, FIRSTS.len())]), seed);
            if model.contains_key(&(tp, id)) {
                return None;
            }
            // in the directory where a file of that id would live, or (packs) directly under data/
            let dir = if tp == Tp::Pack && place == 0 {
                root.join("data")
            } else {
                type_dir(root, tp, place, Some(&id))
            };
            let d = dir.join(id.to_hex().as_str());
            if fs::create_dir_all(&d).is_err() {
                return None;
            }
            _ = blocked.insert((tp, id));
            _ = write(d.join("inner"));
            Some("stray_dir_named_like_id")
        }
        StrayKind::RootFile => {
            let names = ["README", "config.bak", "config-tmp-", "CONFIG", ".config", "configx"];
            write(root.join(names[pick_idx(pick, names.len())])).then_some("stray_root_file")
        }
        StrayKind::LocksDir => {
            write(root.join("locks").join(hex_name(seed, 64))).then_some("stray_locks_dir")
        }
        StrayKind::IdNamedFileElsewhere => {
            let id = expand_id(Some(FIRSTS[pick_idx(pick, FIRSTS.len())]), seed);
            if model.contains_key(&(tp, id)) {
                return None;
            }
            let dir = if tp == Tp::Pack && place == 0 {
                root.join("data")
            } else {
                type_dir(root, tp, place, None).join("sub")
            };
            write(dir.join(id.to_hex().as_str())).then_some("stray_id_named_file_elsewhere")
        }
    }
}

// ---------------------------------------------------------------------------------------------
// sub "map"
// ---------------------------------------------------------------------------------------------

fn resolve_id(sel: &IdSel, model: &Model) -> Option<Id> {
    let keys: Vec<Id> = model.keys().map(|(_, i)| *i).collect();
    match sel {
        IdSel::Shared { first, seed } => Some(expand_id(Some(FIRSTS[*first as usize % FIRSTS.len()]), *seed)),
        IdSel::Any { seed } => Some(expand_id(None, *seed)),
        IdSel::SameAs { pick } => (!keys.is_empty()).then(|| keys[pick_idx(*pick, keys.len())]),
        IdSel::Near { pick, at, xor } => (!keys.is_empty()).then(|| {
            let mut b = id_bytes(&keys[pick_idx(*pick, keys.len())]);
            b[*at as usize % 32] ^= *xor;
            Id::new(b)
        }),
    }
}

fn scale(raw: u32, n: usize) -> usize {
    // monotone map of a raw u32 onto 0..n (exclusive); n == 0 gives 0
    ((u64::from(raw) * n as u64) >> 32) as usize
}

fn range_of(mode: RangeMode, a: u32, b: u32, n: usize) -> (usize, usize) {
    match mode {
        RangeMode::Whole => (0, n),
        RangeMode::ZeroLen => (scale(a, n + 1), 0),
        RangeMode::Inside if n >= 3 => {
            let off = 1 + scale(a, n - 2); // 1..=n-2
            let len = 1 + scale(b, n - 1 - off); // 1..=n-1-off
            (off, len)
        }
        RangeMode::Tail => {
            let len = scale(b, n + 1);
            (n - len, len)
        }
        RangeMode::Generic | RangeMode::Inside => {
            let off = scale(a, n + 1);
            let len = scale(b, n - off + 1);
            (off, len)
        }
    }
}

pub const KEY_FS_PADDED: &str = "opendal-fs-lists-whitespace-padded-name";
/// replay-only probe, never generated
pub const KEY_ID_FILE_ELSEWHERE: &str = "id-named-file-in-foreign-subdirectory";

fn run_map(c: &MapCase, _ctx: &Ctx) -> Outcome {
    let subject = c.subject;
    let mut out = Outcome::pass();
    let scratch = Scratch::new("c20");
    let root = scratch.path().to_path_buf();
    let fail = |mut out: Outcome, step: usize, op: &str, msg: String| {
        out.failure = Some(format!("{}: op #{step} {op}: {msg}", subject.label()));
        out
    };
    let be = match open_subject(subject, &root) {
        Ok(b) => b,
        Err(e) => return fail(out, 0, "open", e),
    };
    if let Err(e) = be_create(&be) {
        return fail(out, 0, "create", e);
    }

    // input-side predicate of a finding: opendal's fs lister trims white space off entry names
    if subject == Subject::OpendalFs
        && c.ops.iter().any(|o| matches!(o, Op::Stray { kind: StrayKind::HexPadded, .. }))
    {
        out = out.known(KEY_FS_PADDED);
    }
    if c.ops.iter().any(|o| matches!(o, Op::Stray { kind: StrayKind::IdNamedFileElsewhere, .. })) {
        out = out.known(KEY_ID_FILE_ELSEWHERE);
    }

    let mut model: Model = BTreeMap::new();
    let mut blocked: BTreeSet<(Tp, Id)> = BTreeSet::new();
    let (mut inside_big, mut removes, mut strays, mut writes, mut ranged, mut skipped) = (0u64, 0u64, 0u64, 0u64, 0u64, 0u64);
    let mut same_id_two_types = false;
    let mut shared_prefix_packs = false;
    let mut overwrote_config = false;
    let mut largest = 0usize;

    for (step, op) in c.ops.iter().enumerate() {
        let step = step + 1;
        match op {
            Op::Write { tp, id, content, cuts } => {
                let Some(id) = resolve_id(id, &model) else {
                    skipped += 1;
                    continue;
                };
                if *tp == Tp::Config || model.contains_key(&(*tp, id)) || blocked.contains(&(*tp, id)) {
                    // only fresh (type, id) pairs are written
                    skipped += 1;
                    continue;
                }
                let mut data = Vec::new();
                content.write_to(&mut data);
                if let Err(e) = be_write(&be, *tp, &id, &data, cuts) {
                    return fail(out, step, "write", e);
                }
                same_id_two_types |= model.keys().any(|(t, i)| *i == id && t != tp);
                shared_prefix_packs |= *tp == Tp::Pack
                    && model
                        .keys()
                        .any(|(t, i)| *t == Tp::Pack && id_bytes(i)[0] == id_bytes(&id)[0]);
                largest = largest.max(data.len());
                _ = model.insert((*tp, id), data);
                writes += 1;
                if let Err(e) = check_listing(&be, &model, *tp, "after the write") {
                    return fail(out, step, "write", e);
                }
            }
            Op::WriteConfig { content, cuts } => {
                let id = Id::default();
                let mut data = Vec::new();
                content.write_to(&mut data);
                let exists = model.contains_key(&(Tp::Config, id));
                if exists && subject == Subject::InMemory {
                    // the testing backend documents write-once semantics ("already exists"):
                    // replace = remove + write
                    if let Err(e) = be_remove(&be, Tp::Config, &id) {
                        return fail(out, step, "remove config before rewrite", e);
                    }
                }
                if let Err(e) = be_write(&be, Tp::Config, &id, &data, cuts) {
                    return fail(out, step, if exists { "overwrite config" } else { "write config" }, e);
                }
                overwrote_config |= exists;
                _ = model.insert((Tp::Config, id), data);
                writes += 1;
                if let Err(e) = check_listing(&be, &model, Tp::Config, "after writing the config") {
                    return fail(out, step, "write config", e);
                }
                let want = &model[&(Tp::Config, id)];
                if let Err(e) = check_read_full(&be, Tp::Config, &id, want) {
                    return fail(out, step, "write config", e);
                }
            }
            Op::ReadFull { pick } => {
                if model.is_empty() {
                    skipped += 1;
                    continue;
                }
                let ((tp, id), want) = model.iter().nth(pick_idx(*pick, model.len())).unwrap();
                if let Err(e) = check_read_full(&be, *tp, id, want) {
                    return fail(out, step, "read_full", e);
                }
            }
            Op::ReadPartial { pick, mode, a, b } => {
                if model.is_empty() {
                    skipped += 1;
                    continue;
                }
                let ((tp, id), want) = model.iter().nth(pick_idx(*pick, model.len())).unwrap();
                let n = want.len();
                let (off, len) = range_of(*mode, *a, *b, n);
                debug_assert!(off + len <= n);
                if let Err(e) = check_read_partial(&be, *tp, id, want, off, len) {
                    return fail(out, step, "read_partial", e);
                }
                ranged += 1;
                if n > 4096 && off > 0 && len > 0 && off + len < n {
                    inside_big += 1;
                }
            }
            Op::List { tp } | Op::ListWithSize { tp } => {
                if let Err(e) = check_listing(&be, &model, *tp, "(list op)") {
                    return fail(out, step, "list", e);
                }
            }
            Op::Remove { pick } => {
                if model.is_empty() {
                    skipped += 1;
                    continue;
                }
                let (tp, id) = *model.keys().nth(pick_idx(*pick, model.len())).unwrap();
                if let Err(e) = be_remove(&be, tp, &id) {
                    return fail(out, step, "remove", e);
                }
                _ = model.remove(&(tp, id));
                removes += 1;
                if let Err(e) = check_listing(&be, &model, tp, "after the remove") {
                    return fail(out, step, "remove", e);
                }
            }
            Op::Stray { kind, tp, place, pick, seed, len } => {
                if !subject.on_directory() || *tp == Tp::Config {
                    skipped += 1;
                    continue;
                }
                match plant(&root, &model, &mut blocked, *kind, *tp, *place, *pick, *seed, *len) {
                    Some(label) => {
                        strays += 1;
                        out = out.class(label);
                        if let Err(e) = check_listing(&be, &model, *tp, &format!("after planting a stray entry ({label})")) {
                            return fail(out, step, "stray", e);
                        }
                    }
                    None => skipped += 1,
                }
            }
        }
    }
    if let Err(e) = check_everything(&be, &model, "at the end of the sequence") {
        return fail(out, c.ops.len() + 1, "final check", e);
    }

    out.nontrivial = inside_big >= 1 && removes >= 1 && (strays >= 1 || !subject.on_directory());
    out.class_if(inside_big >= 1, "ranged_read_inside_file_gt_4k")
        .class_if(removes >= 1, "remove_then_list")
        .class_if(strays >= 1, "stray_present")
        .class_if(same_id_two_types, "same_id_under_two_types")
        .class_if(shared_prefix_packs, "packs_share_subdirectory")
        .class_if(overwrote_config, "config_overwritten")
        .class_if(largest > 64 << 10, "file_gt_64k")
        .class_if(largest > 256 << 10, "file_gt_256k")
        .count("writes", writes)
        .count("ranged_reads", ranged)
        .count("removes", removes)
        .count("strays", strays)
        .count("ops_skipped", skipped)
}

// ---------------------------------------------------------------------------------------------
// sub "publish": the pre-publish point of LocalBackend::write_bytes
// ---------------------------------------------------------------------------------------------

#[derive(Debug, Clone, Serialize, Deserialize)]
pub struct PreFile {
    pub tp: Tp,
    pub first: u8,
    pub seed: u64,
    pub content: Piece,
}

#[derive(Debug, Clone, Serialize, Deserialize)]
pub enum Target {
    Fresh { tp: Tp, first: u8, seed: u64 },
    Config,
}

#[derive(Debug, Clone, Serialize, Deserialize)]
pub struct PublishCase {
    pub pre: Vec<PreFile>,
    pub pre_config: Option<Piece>,
    /// a stale `<name>-tmp-` of the target with other (possibly longer) content exists before the write
    pub leftover: Option<Piece>,
    pub target: Target,
    pub content: Piece,
    pub cuts: Vec<u16>,
}

fn small_content() -> BoxedStrategy<Piece> {
    piece_of(prop_oneof![1 => Just(0u32), 3 => 1u32..3000, 1 => 3000u32..40_000].boxed())
}

fn publish_strategy(ctx: &Ctx) -> BoxedStrategy<PublishCase> {
    let max = max_len(ctx);
    let pre = (file_tp(), 0u8..4, any::<u64>(), small_content())
        .prop_map(|(tp, first, seed, content)| PreFile { tp, first, seed, content });
    (
        prop::collection::vec(pre, 0..5),
        prop::option::weighted(0.6, small_content()),
        prop::option::weighted(0.4, content(max)),
        prop_oneof![
            3 => (file_tp(), 0u8..4, any::<u64>()).prop_map(|(tp, first, seed)| Target::Fresh { tp, first, seed }),
            2 => Just(Target::Config),
        ],
        content(max),
        cuts(),
    )
        .prop_map(|(pre, pre_config, leftover, target, content, cuts)| PublishCase {
            pre,
            pre_config,
            leftover,
            target,
            content,
            cuts,
        })
        .boxed()
}

/// the hook is process-global: one case at a time
static HOOK_LOCK: Mutex<()> = Mutex::new(());

struct HookGuard;
impl Drop for HookGuard {
    fn drop(&mut self) {
        rustic_backend::verif::set_pre_publish_hook(None);
    }
}

fn copy_tree(from: &Path, to: &Path) -> std::io::Result<()> {
    fs::create_dir_all(to)?;
    for e in fs::read_dir(from)? {
        let e = e?;
        let ft = e.file_type()?;
        let dst = to.join(e.file_name());
        if ft.is_dir() {
            copy_tree(&e.path(), &dst)?;
        } else if ft.is_file() {
            _ = fs::copy(e.path(), &dst)?;
        }
    }
    Ok(())
}

fn run_publish(c: &PublishCase, _ctx: &Ctx) -> Outcome {
    let _lock = HOOK_LOCK.lock().unwrap_or_else(|p| p.into_inner());
    let _uninstall = HookGuard;
    rustic_backend::verif::set_pre_publish_hook(None);

    let mut out = Outcome::pass();
    let scratch = Scratch::new("c20p");
    let image = Scratch::new("c20i");
    let root = scratch.path().to_path_buf();
    let fail = |mut out: Outcome, msg: String| {
        out.failure = Some(format!("LocalBackend publish: {msg}"));
        out
    };
    let be = match local_backend(&root) {
        Ok(b) => b,
        Err(e) => return fail(out, e),
    };
    if let Err(e) = be_create(&be) {
        return fail(out, e);
    }

    // state before the observed write
    let mut before: Model = BTreeMap::new();
    for f in &c.pre {
        let id = expand_id(Some(FIRSTS[f.first as usize % FIRSTS.len()]), f.seed);
        if f.tp == Tp::Config || before.contains_key(&(f.tp, id)) {
            continue;
        }
        let mut data = Vec::new();
        f.content.write_to(&mut data);
        if let Err(e) = be_write(&be, f.tp, &id, &data, &[]) {
            return fail(out, format!("preparing the state: {e}"));
        }
        _ = before.insert((f.tp, id), data);
    }
    if let Some(p) = &c.pre_config {
        let mut data = Vec::new();
        p.write_to(&mut data);
        if let Err(e) = be_write(&be, Tp::Config, &Id::default(), &data, &[]) {
            return fail(out, format!("preparing the state: {e}"));
        }
        _ = before.insert((Tp::Config, Id::default()), data);
    }
    let (tp, id) = match &c.target {
        Target::Fresh { tp, first, seed } => {
            let tp = if *tp == Tp::Config { Tp::Snapshot } else { *tp };
            (tp, expand_id(Some(FIRSTS[*first as usize % FIRSTS.len()]), *seed))
        }
        Target::Config => (Tp::Config, Id::default()),
    };
    if tp != Tp::Config && before.contains_key(&(tp, id)) {
        return out.skip("target_id_already_present");
    }
    let overwrite = before.contains_key(&(tp, id));
    if let Some(l) = &c.leftover {
        let mut data = Vec::new();
        l.write_to(&mut data);
        let name = if tp == Tp::Config {
            "config-tmp-".to_string()
        } else {
            format!("{}-tmp-", id.to_hex().as_str())
        };
        if fs::write(type_dir(&root, tp, 1, Some(&id)).join(name), &data).is_err() {
            return out.skip("could_not_plant_leftover");
        }
    }
    if let Err(e) = check_everything(&be, &before, "before the observed write") {
        return fail(out, e);
    }
    let mut content = Vec::new();
    c.content.write_to(&mut content);
    let mut after = before.clone();
    _ = after.insert((tp, id), content.clone());

    // observations made at the pre-publish point
    #[derive(Default)]
    struct Obs {
        calls: u64,
        problems: Vec<String>,
    }
    let obs = Arc::new(Mutex::new(Obs::default()));
    {
        let obs = obs.clone();
        let root = root.clone();
        let image_dir = image.path().to_path_buf();
        let before = before.clone();
        let content = content.clone();
        rustic_backend::verif::set_pre_publish_hook(Some(Arc::new(move |tmp: &Path, fin: &Path| {
            let mut problems = Vec::new();
            {
                let mut o = obs.lock().unwrap_or_else(|p| p.into_inner());
                o.calls += 1;
                if o.calls > 1 {
                    return;
                }
            }
            // (iii) the temporary file is complete
            match fs::read(tmp) {
                Ok(t) if t == content => {}
                Ok(t) => problems.push(format!(
                    "(iii) the temporary file {} is not the complete content at the publish point: {}",
                    tmp.display(),
                    describe_diff(&content, &t)
                )),
                Err(e) => problems.push(format!("(iii) the temporary file {} cannot be read: {e}", tmp.display())),
            }
            if tmp == fin {
                problems.push("(iii) temporary and final name are the same path".to_string());
            }
            // (i) a second handle on the same directory sees the state before the write
            match local_backend(&root) {
                Ok(second) => {
                    if let Err(e) = check_everything(&second, &before, "seen through a second handle at the pre-publish point, must equal the state before the write") {
                        problems.push(format!("(i) {e}"));
                    }
                }
                Err(e) => problems.push(format!("(i) {e}")),
            }
            // (ii) crash image
            if let Err(e) = copy_tree(&root, &image_dir) {
                problems.push(format!("harness: copying the crash image failed: {e}"));
            }
            obs.lock().unwrap_or_else(|p| p.into_inner()).problems.extend(problems);
        })));
    }
    let res = be_write(&be, tp, &id, &content, &c.cuts);
    rustic_backend::verif::set_pre_publish_hook(None);
    if let Err(e) = res {
        return fail(out, format!("the observed write failed: {e}"));
    }
    let (calls, problems) = {
        let o = obs.lock().unwrap_or_else(|p| p.into_inner());
        (o.calls, o.problems.clone())
    };
    if calls != 1 {
        return fail(out, format!("the pre-publish hook ran {calls} times during one write_bytes (expected once); is the verif-hooks feature active?"));
    }
    if let Some(p) = problems.first() {
        return fail(out, p.clone());
    }
    // the write is visible afterwards
    if let Err(e) = check_everything(&be, &after, "after the observed write") {
        return fail(out, e);
    }
    // (ii) a process that died at the publish point leaves the state before the write ...
    let img = match local_backend(image.path()) {
        Ok(b) => b,
        Err(e) => return fail(out, e),
    };
    if let Err(e) = check_everything(&img, &before, "in the crash image taken at the pre-publish point, must equal the state before the write") {
        return fail(out, format!("(ii) {e}"));
    }
    // ... and the write can simply be repeated
    if let Err(e) = be_write(&img, tp, &id, &content, &c.cuts) {
        return fail(out, format!("(ii) repeating the write on the crash image failed: {e}"));
    }
    if let Err(e) = check_everything(&img, &after, "in the crash image after repeating the write") {
        return fail(out, format!("(ii) {e}"));
    }

    out.nontrivial = !content.is_empty() && !before.is_empty();
    out.class(if tp == Tp::Config { if overwrite { "config_overwrite" } else { "config_first_write" } } else { "fresh_id" })
        .class_if(tp == Tp::Pack, "pack")
        .class_if(c.leftover.is_some(), "stale_tmp_leftover")
        .class_if(c.leftover.as_ref().is_some_and(|l| l.len() > content.len()), "leftover_longer_than_content")
        .class_if(content.len() > 64 << 10, "content_gt_64k")
        .class_if(content.is_empty(), "empty_content")
}

// ---------------------------------------------------------------------------------------------
// sub "concurrent": a lister/reader polls while large files are written
// ---------------------------------------------------------------------------------------------

#[derive(Debug, Clone, Serialize, Deserialize)]
pub struct ConcWrite {
    pub target: Target,
    pub content: Piece,
    pub cuts: Vec<u16>,
}

#[derive(Debug, Clone, Serialize, Deserialize)]
pub struct ConcCase {
    pub pre_config: Option<Piece>,
    pub writes: Vec<ConcWrite>,
}

fn conc_strategy(ctx: &Ctx) -> BoxedStrategy<ConcCase> {
    let hi: u32 = if ctx.tier.is_thorough() { 8 << 20 } else { 1 << 20 };
    let big = piece_of(prop_oneof![4 => (200u32 << 10)..(800 << 10), 1 => (800u32 << 10)..=hi].boxed());
    let tp = prop_oneof![1 => Just(Tp::Key), 3 => Just(Tp::Snapshot), 3 => Just(Tp::Index), 1 => Just(Tp::Pack)];
    let target = prop_oneof![
        4 => (tp, 0u8..4, any::<u64>()).prop_map(|(tp, first, seed)| Target::Fresh { tp, first, seed }),
        1 => Just(Target::Config),
    ];
    let w = (target, big, cuts()).prop_map(|(target, content, cuts)| ConcWrite { target, content, cuts });
    (prop::option::weighted(0.5, small_content()), prop::collection::vec(w, 2..7))
        .prop_map(|(pre_config, writes)| ConcCase { pre_config, writes })
        .boxed()
}

fn run_concurrent(c: &ConcCase, _ctx: &Ctx) -> Outcome {
    let mut out = Outcome::pass();
    let scratch = Scratch::new("c20c");
    let root = scratch.path().to_path_buf();
    let fail = |mut out: Outcome, msg: String| {
        out.failure = Some(format!("LocalBackend concurrent lister: {msg}"));
        out
    };
    let be = match local_backend(&root) {
        Ok(b) => b,
        Err(e) => return fail(out, e),
    };
    if let Err(e) = be_create(&be) {
        return fail(out, e);
    }
    // plan: what each (type, id) will hold; config may go through several versions
    let mut plan: BTreeMap<(Tp, Id), Arc<Vec<u8>>> = BTreeMap::new();
    let mut config_versions: Vec<Arc<Vec<u8>>> = Vec::new();
    if let Some(p) = &c.pre_config {
        let mut data = Vec::new();
        p.write_to(&mut data);
        if let Err(e) = be_write(&be, Tp::Config, &Id::default(), &data, &[]) {
            return fail(out, format!("preparing the state: {e}"));
        }
        config_versions.push(Arc::new(data));
    }
    let mut todo: Vec<(Tp, Id, Arc<Vec<u8>>, Vec<u16>)> = Vec::new();
    for w in &c.writes {
        let mut data = Vec::new();
        w.content.write_to(&mut data);
        let data = Arc::new(data);
        match &w.target {
            Target::Config => {
                config_versions.push(data.clone());
                todo.push((Tp::Config, Id::default(), data, w.cuts.clone()));
            }
            Target::Fresh { tp, first, seed } => {
                let tp = if *tp == Tp::Config { Tp::Snapshot } else { *tp };
                let id = expand_id(Some(FIRSTS[*first as usize % FIRSTS.len()]), *seed);
                if plan.contains_key(&(tp, id)) {
                    continue;
                }
                _ = plan.insert((tp, id), data.clone());
                todo.push((tp, id, data, w.cuts.clone()));
            }
        }
    }
    let types: Vec<Tp> = {
        let mut t: Vec<Tp> = todo.iter().map(|(tp, ..)| *tp).collect();
        t.sort();
        t.dedup();
        t
    };
    let plan = Arc::new(plan);
    let config_versions = Arc::new(config_versions);
    let done = Arc::new(AtomicBool::new(false));
    let start = Arc::new(Barrier::new(2));
    let polls = Arc::new(AtomicU64::new(0));
    let seen_during = Arc::new(AtomicU64::new(0));

    let reader = {
        let (plan, config_versions, done, start, polls, seen_during, types, root) = (
            plan.clone(),
            config_versions.clone(),
            done.clone(),
            start.clone(),
            polls.clone(),
            seen_during.clone(),
            types.clone(),
            root.clone(),
        );
        std::thread::Builder::new()
            .name("c20-lister".into())
            .spawn(move || -> Result<(), String> {
                let second = local_backend(&root);
                _ = start.wait();
                let second = second?;
                let mut verified: BTreeSet<(Tp, Id)> = BTreeSet::new();
                loop {
                    let last = done.load(Ordering::SeqCst);
                    for tp in &types {
                        let tp = *tp;
                        let listed = call(&format!("list_with_size({tp:?})"), || second.list_with_size(tp.ft()))?;
                        let ids = call(&format!("list({tp:?})"), || second.list(tp.ft()))?;
                        for id in ids {
                            if tp != Tp::Config && !plan.contains_key(&(tp, id)) {
                                return Err(format!("list({tp:?}) shows {} which nobody writes", id.to_hex().as_str()));
                            }
                        }
                        for (id, size) in listed {
                            if tp == Tp::Config {
                                if !config_versions.iter().any(|v| v.len() as u32 == size) {
                                    return Err(format!(
                                        "list_with_size(Config) reports {size} bytes while a config is being replaced; no version of the config has that length ({:?})",
                                        config_versions.iter().map(|v| v.len()).collect::<Vec<_>>()
                                    ));
                                }
                                let got = call("read_full(Config)", || second.read_full(FileType::Config, &id))?;
                                if !config_versions.iter().any(|v| v.as_slice() == got.as_ref()) {
                                    return Err(format!(
                                        "read_full(Config) during a replacement returns {} bytes that are neither the old nor a new version",
                                        got.len()
                                    ));
                                }
                                continue;
                            }
                            let Some(want) = plan.get(&(tp, id)) else {
                                return Err(format!("list_with_size({tp:?}) shows {} which nobody writes", id.to_hex().as_str()));
                            };
                            if !last && !verified.contains(&(tp, id)) {
                                _ = seen_during.fetch_add(1, Ordering::SeqCst);
                            }
                            if size as usize != want.len() {
                                return Err(format!(
                                    "a concurrently listed file {tp:?} {} has size {size}, the complete file has {} bytes (partial file listed)",
                                    id.to_hex().as_str(),
                                    want.len()
                                ));
                            }
                            if last || verified.insert((tp, id)) {
                                let got = call("read_full", || second.read_full(tp.ft(), &id))?;
                                if got.as_ref() != want.as_slice() {
                                    return Err(format!(
                                        "a listed file {tp:?} {} does not read back complete while/after being written: {}",
                                        id.to_hex().as_str(),
                                        describe_diff(want, &got)
                                    ));
                                }
                            }
                        }
                    }
                    _ = polls.fetch_add(1, Ordering::SeqCst);
                    if last {
                        return Ok(());
                    }
                }
            })
            .expect("spawn lister")
    };

    _ = start.wait();
    let mut werr = None;
    for (tp, id, data, cuts) in &todo {
        if let Err(e) = be_write(&be, *tp, id, data, cuts) {
            werr = Some(e);
            break;
        }
    }
    done.store(true, Ordering::SeqCst);
    let rres = reader.join();
    if let Some(e) = werr {
        return fail(out, e);
    }
    match rres {
        Ok(Ok(())) => {}
        Ok(Err(e)) => return fail(out, e),
        Err(_) => return fail(out, "harness: the lister thread panicked".into()),
    }
    // final state
    let mut model: Model = plan.iter().map(|(k, v)| (*k, v.as_ref().clone())).collect();
    if let Some(v) = todo.iter().rev().find(|(tp, ..)| *tp == Tp::Config).map(|(_, _, d, _)| d.clone()).or_else(|| {
        c.pre_config.as_ref().map(|_| config_versions[0].clone())
    }) {
        _ = model.insert((Tp::Config, Id::default()), v.as_ref().clone());
    }
    if let Err(e) = check_everything(&be, &model, "after all concurrent writes") {
        return fail(out, e);
    }
    let polls = polls.load(Ordering::SeqCst);
    out.nontrivial = todo.len() >= 2 && polls >= 2;
    out.class_if(polls > todo.len() as u64, "more_polls_than_writes")
        .class_if(config_versions.len() >= 2, "config_replaced_concurrently")
        .class_if(types.contains(&Tp::Pack), "pack")
        .count("polls", polls)
        .count("files_first_seen_while_writer_active", seen_during.load(Ordering::SeqCst))
        .count("writes", todo.len() as u64)
}

// ---------------------------------------------------------------------------------------------

pub fn spec() -> PropSpec {
    PropSpec {
        id: "C20",
        level: "exploration",
        rule: "proptest. map_*: sequences of 1..40 ops {write fresh (type,id) 30, write/overwrite config 5, read_full 8, read_partial 22 (generic / whole / zero-length incl. at EOF / strictly inside / tail), list 5, list_with_size 5, remove existing 10, plant stray 9 (directory subjects only)} on LocalBackend, OpenDALBackend(fs), OpenDALBackend(memory), InMemoryBackend; contents zeros/periodic/random of 0 B..256 KiB (quick) / ..8 MiB (thorough) written as 1..4 non-empty BytesList fragments; ids: first byte from {00,0a,ab,ff} (60 %), arbitrary, equal to an existing id of another type, or an existing id with one byte changed; strays: non-hex names (incl. 64 chars with one non-hex char, hex+'.bak'), 64 hex + trailing white space, 62/63/65/66-char hex, `<id>-tmp-` of existing and of absent ids, sub-directories with content, a directory named like an id, root-level files, a foreign `locks/` directory. Non-trivial = at least one ranged read strictly inside a file > 4 KiB, at least one remove followed by a listing, and (directory subjects) at least one stray entry planted. publish: 0..4 prepared files + optional config + optional stale tmp leftover, then one observed write (fresh id or config); non-trivial = non-empty content on a non-empty prepared state. concurrent: 2..6 writes of 200 KiB..1 MiB (thorough ..8 MiB) with a polling lister/reader thread; non-trivial = at least 2 writes and 2 polls. Distinct by hash of the case.",
        assumptions: vec![
            "ops on missing files, overwrites of non-config files, out-of-range reads and upper-case 64-hex stray names are not generated (outside the statement)",
            "id-named (64 lower-case hex) regular files in a wrong directory are not planted: the statement's mechanism defines an id file by its name",
            "InMemoryBackend documents write-once semantics; replacing its config is done as remove + write; its config is addressed by the null id like on the other backends",
            "tmpfs (/dev/shm) stands in for a disk file system; no power-loss model (fsync is not fault-injected): the crash image is a copy of the directory at the pre-publish point",
            "the concurrent lister is schedule-dependent in what it observes, not in its verdict: every observation it can make must satisfy the invariant",
        ],
        subs: vec![
            Box::new(Sub {
                name: "map_local",
                cases_quick: 400,
                cases_thorough: 20_000,
                max_shrink_iters: 600,
                strategy: strat_local,
                run: run_map,
            }),
            Box::new(Sub {
                name: "map_opendal_fs",
                cases_quick: 400,
                cases_thorough: 20_000,
                max_shrink_iters: 600,
                strategy: strat_odfs,
                run: run_map,
            }),
            Box::new(Sub {
                name: "map_opendal_memory",
                cases_quick: 400,
                cases_thorough: 20_000,
                max_shrink_iters: 600,
                strategy: strat_odmem,
                run: run_map,
            }),
            Box::new(Sub {
                name: "map_inmemory",
                cases_quick: 400,
                cases_thorough: 20_000,
                max_shrink_iters: 600,
                strategy: strat_inmem,
                run: run_map,
            }),
            Box::new(Sub {
                name: "publish",
                cases_quick: 200,
                cases_thorough: 6_000,
                max_shrink_iters: 400,
                strategy: publish_strategy,
                run: run_publish,
            }),
            Box::new(Sub {
                name: "concurrent",
                cases_quick: 120,
                cases_thorough: 3_000,
                max_shrink_iters: 200,
                strategy: conc_strategy,
                run: run_concurrent,
            }),
        ],
        extra: None,
    }
}
