//! C04 — Stored data is authenticated ciphertext; tampering is always detected.
//!
//! Four sub-checks:
//! * "plaintext": histories (backup / forget / prune) over sources that carry high-entropy canaries
//!   in file contents, names, link targets, host name, tag, label and the backup path. After every
//!   operation the raw bytes of every stored file are scanned for every canary, every message
//!   (repository file, pack header, blob) is decrypted with the independent decoder and its nonce
//!   goes into a set that must never see a repeat — also across a second repository initialised
//!   with the same master key.
//! * "crypto": direct properties of the crypto framing through the hooks, differential against the
//!   independent decoder / encoder; mutation scripts; garbage never panics.
//! * "tamper": a small repository x every stored file x {bit flips, truncations, extension, swap
//!   with a sibling}: every read that touches the file fails or returns the model content.
//! * "password": histories of add_key / delete_key / open with right, wrong, removed passwords, the
//!   master key and tampered key files against a model of the live passwords.

use std::{
    collections::{BTreeMap, BTreeSet, HashMap},
    num::NonZeroU32,
    sync::Arc,
};

use proptest::prelude::*;
use rustic_core::{
    BackupOptions, Credentials, FileType, Id, KeyOptions, Repository, WriteBackend,
    repofile::{BlobType, KeyId, SnapshotFile},
    verif::{Codec, decrypt, encrypt, pack_header_from_binary},
};
use serde::{Deserialize, Serialize};
use serde_json::Value;
use vpcore::fmt::{
    self, BType, Id32, Key64, PackInfo, TrailerEntry, open_message, parse_pack, seal_message, sha256,
};

use crate::{
    engine::{Ctx, DynSub, Outcome, PropSpec, Sub, guarded, pick_idx},
    r#gen::{Edit, TreeParams, apply_edit, tree},
    history::{HOp, LiveSnap, World, hop},
    membe::{Storage, id_bytes, tidx},
    model::{Content, Flat, MKind, MNode, Piece, ReadSchedule, flatten, splitmix},
    repo::{
        CmpOpts, ChunkerCfg, PackCfg, RepoCfg, RepoOpen, backends, backup_tree, compare, estr,
        force_opts, key64_of, open_ids, open_repo, read_snapshot, repo_cfg, repo_opts,
        snap_template,
    },
};

const KEY_T: u8 = 2;

/// Development aid: `VP_ASSUME_KNOWN=key1,key2` makes generated cases that match the input-side
/// predicate of these keys unjudged (as if the keys were listed in known_findings.json), so that
/// the rest of the check can be validated before the coordinator registers a finding. Never
/// active in replays.
fn assumed_known(ctx: &Ctx, key: &str) -> bool {
    !ctx.strict
        && std::env::var("VP_ASSUME_KNOWN")
            .map(|v| v.split(',').any(|k| k.trim() == key))
            .unwrap_or(false)
}

fn hex8(id: &[u8]) -> String {
    hex::encode(&id[..4.min(id.len())])
}

fn tname(t: u8) -> &'static str {
    match t {
        0 => "config",
        1 => "index",
        2 => "key",
        3 => "snapshot",
        _ => "pack",
    }
}

// ================================================================== (a) plaintext / nonces

#[derive(Debug, Clone, Serialize, Deserialize)]
pub struct PlainCase {
    pub cfg: RepoCfg,
    pub tree: MNode,
    pub ops: Vec<HOp>,
    pub canary_seed: u64,
    /// run the same history on a second repository initialised with the same master key
    pub twin: bool,
    /// at the end copy all snapshots into a fresh repository with another master key
    /// (key seed, version 1/2, compression): what arrives there must be ciphertext under *its* key
    #[serde(default)]
    pub copy_to: Option<(u64, u8, Option<i32>)>,
}

const CANARY_LEN: usize = 24;

/// 24 bytes derived from (seed, index); `alnum` = only [A-Za-z0-9] (survives JSON escaping)
fn canary(seed: u64, idx: u64, alnum: bool) -> Vec<u8> {
    const AL: &[u8; 62] = b"ABCDEFGHIJKLMNOPQRSTUVWXYZabcdefghijklmnopqrstuvwxyz0123456789";
    let mut out = Vec::with_capacity(CANARY_LEN);
    let mut z = splitmix(seed ^ idx.wrapping_mul(0xD6E8_FEB8_6659_FD93));
    while out.len() < CANARY_LEN {
        z = splitmix(z);
        for b in z.to_le_bytes() {
            if out.len() == CANARY_LEN {
                break;
            }
            if alnum {
                // 62 * 4 = 248: rejection keeps the distribution uniform
                if b < 248 {
                    out.push(AL[usize::from(b) % 62]);
                }
            } else {
                out.push(b);
            }
        }
    }
    out
}

/// multi-pattern search: all patterns have the same length >= 4
struct Scanner {
    pats: Vec<Vec<u8>>,
    first2: Vec<bool>,
    by4: HashMap<[u8; 4], Vec<usize>>,
}

impl Scanner {
    fn new(pats: Vec<Vec<u8>>) -> Self {
        let mut first2 = vec![false; 1 << 16];
        let mut by4: HashMap<[u8; 4], Vec<usize>> = HashMap::new();
        for (i, p) in pats.iter().enumerate() {
            first2[usize::from(p[0]) << 8 | usize::from(p[1])] = true;
            by4.entry([p[0], p[1], p[2], p[3]]).or_default().push(i);
        }
        Self { pats, first2, by4 }
    }

    /// calls `hit(pattern index, offset)` for every occurrence
    fn scan(&self, data: &[u8], mut hit: impl FnMut(usize, usize)) {
        if data.len() < CANARY_LEN {
            return;
        }
        for i in 0..=data.len() - CANARY_LEN {
            if !self.first2[usize::from(data[i]) << 8 | usize::from(data[i + 1])] {
                continue;
            }
            let k = [data[i], data[i + 1], data[i + 2], data[i + 3]];
            if let Some(list) = self.by4.get(&k) {
                for &pi in list {
                    if data[i..].starts_with(&self.pats[pi]) {
                        hit(pi, i);
                    }
                }
            }
        }
    }
}

/// put a canary into every name, link target and (non-hardlinked) file content, and the root name
fn plant(root: &mut MNode, seed: u64, out: &mut Vec<Vec<u8>>) {
    fn rec(n: &mut MNode, seed: u64, out: &mut Vec<Vec<u8>>) {
        let c = canary(seed, out.len() as u64, true);
        n.name.truncate(100);
        n.name.extend_from_slice(&c);
        out.push(c);
        let links = n.links;
        match &mut n.kind {
            MKind::File { content } => {
                if links <= 1 {
                    let c = canary(seed, out.len() as u64, false);
                    let at = (splitmix(seed ^ out.len() as u64) % (content.len() as u64 + 1)) as usize;
                    *content = content.insert(at, Content::lit(c.clone()));
                    out.push(c);
                }
            }
            MKind::Symlink { target } => {
                let c = canary(seed, out.len() as u64, true);
                target.truncate(100);
                target.extend_from_slice(&c);
                out.push(c);
            }
            MKind::Dir { children } => {
                for ch in children {
                    rec(ch, seed, out);
                }
            }
        }
    }
    rec(root, seed, out);
    // hardlink groups: every member keeps the (unchanged) shared content
    root.normalise();
}

fn plain_strategy(ctx: &Ctx) -> BoxedStrategy<PlainCase> {
    let len = if ctx.tier.is_thorough() { 8 } else { 4 };
    repo_cfg()
        .prop_flat_map(move |cfg| {
            let mut p = super::c07::params(&cfg);
            p.file_cap = 80_000;
            (
                Just(cfg),
                tree(p),
                prop::collection::vec(hop(p, false), 1..=len),
                any::<u64>(),
                prop::bool::weighted(0.35),
                prop::option::weighted(
                    0.45,
                    (
                        any::<u64>(),
                        prop_oneof![1 => Just(1u8), 2 => Just(2u8)],
                        prop_oneof![2 => Just(None), 3 => Just(Some(0i32)), 2 => (-3i32..10).prop_map(Some)],
                    ),
                ),
            )
        })
        .prop_map(|(cfg, tree, ops, canary_seed, twin, copy_to)| PlainCase {
            cfg,
            tree,
            ops,
            canary_seed,
            twin,
            copy_to,
        })
        .boxed()
}

struct Meta {
    host: String,
    tag: String,
    label: String,
}

/// backup of the (edited) world tree with canaries in host name, tag and label
fn canary_backup(w: &mut World, edits: &[Edit], parent: bool, m: &Meta) -> Result<(), String> {
    w.tick += 1;
    for e in edits {
        _ = apply_edit(&mut w.tree, e, w.tick);
    }
    let repo = open_ids(&w.storage, &w.cfg)?;
    w.clock += 100;
    let opts: BackupOptions = if parent { BackupOptions::default() } else { force_opts() };
    let snap = backup_tree(
        &repo,
        &w.tree,
        &ReadSchedule::default(),
        &opts,
        snap_template(w.clock, &m.host, &m.tag, &m.label),
    )?;
    w.live.push(LiveSnap {
        snap,
        model: Arc::new(flatten(&w.tree)),
        pending_recovery: false,
    });
    Ok(())
}

/// every message of one stored file: (where, message bytes, plaintext)
fn messages_of(key: &Key64, t: u8, id: &Id, raw: &[u8]) -> Result<Vec<(String, Vec<u8>, Vec<u8>)>, String> {
    let what = format!("{} {}", tname(t), hex8(&id_bytes(id)));
    if t != 4 {
        let plain = fmt::decode_file(key, raw)
            .map_err(|e| format!("{what}: the independent decoder cannot authenticate / decode the file: {e}"))?;
        return Ok(vec![(what, raw.to_vec(), plain)]);
    }
    if sha256(raw) != id_bytes(id) {
        return Err(format!("{what}: name is not the SHA-256 of the content"));
    }
    let info: PackInfo = parse_pack(key, raw).map_err(|e| format!("{what}: trailer does not authenticate / decode: {e}"))?;
    let n = raw.len();
    let hl = info.header_len as usize;
    let mut out = Vec::new();
    let mut expect = 0u64;
    for (i, e) in info.entries.iter().enumerate() {
        if u64::from(e.offset) != expect {
            return Err(format!("{what}: trailer entries do not tile the blob area"));
        }
        expect += u64::from(e.length);
        let plain = fmt::decode_blob(key, raw, e).map_err(|err| format!("{what} blob #{i}: does not authenticate / decode: {err}"))?;
        if sha256(&plain) != e.id {
            return Err(format!("{what} blob #{i}: plaintext does not hash to its id"));
        }
        let s = e.offset as usize;
        out.push((format!("{what} blob #{i}"), raw[s..s + e.length as usize].to_vec(), plain));
    }
    if expect != (n - 4 - hl) as u64 {
        return Err(format!("{what}: the trailer covers {expect} bytes, the blob area has {}", n - 4 - hl));
    }
    let hmsg = &raw[n - 4 - hl..n - 4];
    let hplain = open_message(key, hmsg).map_err(|e| format!("{what}: header: {e}"))?;
    out.push((format!("{what} header"), hmsg.to_vec(), hplain));
    Ok(out)
}

#[derive(Default)]
struct NonceBook {
    /// nonce -> (hash of the whole message, where it was first seen)
    seen: BTreeMap<[u8; 16], (Id32, String)>,
    /// (repository, type, id) already examined
    done: BTreeSet<(u8, u8, Id)>,
    copies: u64,
    packs: BTreeSet<(u8, Id)>,
    /// canaries that were found in *decrypted* content (the scan is not vacuous)
    found_plain: BTreeSet<usize>,
}

/// examine every file of the storage that was not examined before
fn examine(
    book: &mut NonceBook,
    scanner: &Scanner,
    repo_no: u8,
    storage: &Arc<Storage>,
    key: &Key64,
    raw_copies_allowed: bool,
) -> Result<(), String> {
    for ((t, id), raw) in storage.files() {
        if t == KEY_T {
            continue;
        }
        if t != 0 && !book.done.insert((repo_no, t, id)) {
            continue;
        }
        let mut hit: Option<(usize, usize)> = None;
        scanner.scan(&raw, |pi, at| {
            if hit.is_none() {
                hit = Some((pi, at));
            }
        });
        if let Some((pi, at)) = hit {
            return Err(format!(
                "repository {repo_no}: {} {} contains source plaintext (canary #{pi} of the case at byte {at} of {})",
                tname(t),
                hex8(&id_bytes(&id)),
                raw.len()
            ));
        }
        if t == 4 {
            _ = book.packs.insert((repo_no, id));
        }
        for (loc, msg, plain) in messages_of(key, t, &id, &raw).map_err(|e| format!("repository {repo_no}: {e}"))? {
            let found = &mut book.found_plain;
            scanner.scan(&plain, |pi, _| {
                _ = found.insert(pi);
            });
            let mut nonce = [0u8; 16];
            nonce.copy_from_slice(&msg[..16]);
            let h = sha256(&msg);
            let loc = format!("repository {repo_no} {loc}");
            match book.seen.get(&nonce) {
                None => _ = book.seen.insert(nonce, (h, loc)),
                Some((h0, loc0)) => {
                    if t == 0 && *loc0 == loc && *h0 == h {
                        continue; // the config slot, seen again
                    }
                    if *h0 == h && raw_copies_allowed {
                        book.copies += 1;
                        continue;
                    }
                    return Err(format!(
                        "nonce {} is used by two messages: {loc0} and {loc}{}",
                        hex::encode(nonce),
                        if *h0 == h { " (identical ciphertext, but nothing in this history copies messages verbatim)" } else { "" }
                    ));
                }
            }
        }
    }
    Ok(())
}

fn run_plain(c: &PlainCase, _ctx: &Ctx) -> Outcome {
    let mut out = Outcome::pass();
    macro_rules! fail {
        ($($arg:tt)*) => {{
            out.failure = Some(format!($($arg)*));
            return out;
        }};
    }
    let mut tree = c.tree.clone();
    let mut canaries = Vec::new();
    plant(&mut tree, c.canary_seed, &mut canaries);
    let mut meta_c = Vec::new();
    for _ in 0..3 {
        let x = canary(c.canary_seed, (canaries.len() + meta_c.len()) as u64, true);
        meta_c.push(String::from_utf8(x).expect("alnum"));
    }
    let meta = Meta {
        host: format!("h{}", meta_c[0]),
        tag: meta_c[1].clone(),
        label: meta_c[2].clone(),
    };
    canaries.extend(meta_c.iter().map(|s| s.as_bytes().to_vec()));
    let scanner = Scanner::new(canaries);
    let key = c.cfg.key64();

    let mut worlds = Vec::new();
    for _ in 0..(if c.twin { 2 } else { 1 }) {
        match World::new(&c.cfg, &tree) {
            Ok(w) => worlds.push(w),
            Err(e) => fail!("{e}"),
        }
    }
    let mut book = NonceBook::default();
    let first = HOp::Backup { edits: vec![], parent: false };
    let mut fast_seen = false;
    let compression_on = c.cfg.version >= 2 && c.cfg.compression != Some(0);
    out = out
        .class(if compression_on { "compression_on" } else { "compression_off" })
        .class_if(c.twin, "twin_repository_same_key");
    for (i, op) in std::iter::once(&first).chain(c.ops.iter()).enumerate() {
        out = out.class(format!("op_{}", super::c02::op_name(op)));
        if let HOp::Prune(p) = op {
            fast_seen |= p.fast_repack;
        }
        for (wi, w) in worlds.iter_mut().enumerate() {
            let r = match op {
                HOp::Backup { edits, parent } => canary_backup(w, edits, *parent, &meta),
                other => w.step(other).map(|_| ()),
            };
            if let Err(e) = r {
                fail!("repository {wi} op #{i} {}: {e}", super::c02::op_name(op));
            }
            if let Err(e) = examine(&mut book, &scanner, wi as u8, &w.storage, &key, fast_seen) {
                fail!("after op #{i} {}: {e}", super::c02::op_name(op));
            }
        }
    }
    // the history itself was sane: the last state reads back
    for w in &worlds {
        if let Err(e) = w.verify_snapshots() {
            fail!("at the end of the history: {e}");
        }
    }
    // copy into a repository with another key: everything that arrives is stored under that key
    if let Some((key_seed, version, compression)) = c.copy_to {
        let mut cfg2 = c.cfg.clone();
        cfg2.key_seed = key_seed ^ 0x5A5A_1234;
        cfg2.version = version;
        cfg2.compression = if version == 1 { None } else { compression };
        if cfg2.key64() != key {
            let dst = crate::membe::Storage::new();
            match crate::repo::init_repo(dst.handle(), &cfg2) {
                Ok(r) => drop(r),
                Err(e) => fail!("destination of the copy: {e}"),
            }
            let snaps: Vec<_> = worlds[0].live.iter().map(|l| l.snap.clone()).collect();
            if let Err(e) = crate::cmds::copy_snapshots(&worlds[0].storage, &c.cfg, &dst, &cfg2, &snaps) {
                fail!("copy into a repository with another key: {e}");
            }
            if let Err(e) = examine(&mut book, &scanner, 9, &dst, &cfg2.key64(), false) {
                fail!("destination of a copy (repository 9, own master key): {e}");
            }
            let dst_plain = cfg2.version < 2 || cfg2.compression == Some(0);
            out = out
                .class("copied_into_other_key")
                .class_if(!compression_on && dst_plain, "copied_between_uncompressed_repositories");
        }
    }
    let nonces = book.seen.len();
    let packs = book.packs.len();
    out.nontrivial = packs >= 2 && nonces >= 50 && !book.found_plain.is_empty();
    out.class_if(nonces >= 50, "nonces>=50")
        .class_if(nonces >= 500, "nonces>=500")
        .class_if(fast_seen, "fast_repack_in_history")
        .class_if(book.copies > 0, "verbatim_copies_seen")
        .count("nonces", nonces as u64)
        .count("packs", packs as u64)
        .count("canaries_confirmed_in_decrypted_content", book.found_plain.len() as u64)
}

// ================================================================== (b) direct crypto properties

#[derive(Debug, Clone, Serialize, Deserialize)]
pub enum Mutn {
    /// flip one bit; region 0 = nonce, 1 = body, 2 = tag
    Flip { region: u8, sel: u16 },
    /// keep the first `sel`-selected bytes (strictly fewer than all)
    Truncate { sel: u16 },
    /// keep 0, 1, 15, 16, 31 bytes or drop the last one
    TruncateTo(u8),
    Extend(Vec<u8>),
    /// first part of this message, rest of a second valid message
    Splice { a: u16, b: u16 },
    /// decrypt with a different key
    OtherKey(u64),
}

#[derive(Debug, Clone, Serialize, Deserialize)]
pub enum Garbage {
    Raw(Vec<u8>),
    Rand { seed: u64, len: u16 },
    /// a valid zstd frame of the case's second plaintext with one byte changed
    Frame { pos: u16, xor: u8 },
}

#[derive(Debug, Clone, Serialize, Deserialize)]
pub struct CryptoCase {
    pub key_seed: u64,
    pub plain: Piece,
    pub other: Piece,
    /// None = no compression, else the zstd level
    pub level: Option<i32>,
    pub nonce_seed: u64,
    pub muts: Vec<Mutn>,
    /// wrong uncompressed lengths to try
    pub wrong_len: Vec<u32>,
    pub garbage: Garbage,
}

fn sized_piece(max_big: u32) -> BoxedStrategy<Piece> {
    let len = prop_oneof![
        3 => prop::sample::select(vec![0u32, 1, 2, 15, 16, 17, 31, 32, 33, 63, 64, 65]),
        4 => 0u32..300,
        3 => 300u32..=(max_big / 8).max(301),
        2 => (max_big / 8)..=max_big,
        1 => Just(max_big),
    ];
    (len, 0u8..4, any::<u64>(), 1u32..300)
        .prop_map(|(len, kind, seed, p)| match kind {
            0 => Piece::Zeros { len },
            1 => Piece::Period { seed, p, skip: 0, len },
            _ => Piece::Rand { seed, skip: 0, len },
        })
        .boxed()
}

fn crypto_strategy(_ctx: &Ctx) -> BoxedStrategy<CryptoCase> {
    let level = prop_oneof![
        // the higher levels allocate (and zero) tables of up to several hundred MiB per call
        64 => Just(None),
        48 => (0i32..=3).prop_map(Some),
        32 => (-7i32..=-1).prop_map(Some),
        8 => (4i32..=15).prop_map(Some),
        1 => (16i32..=22).prop_map(Some),
    ];
    let mutn = prop_oneof![
        6 => (0u8..3, any::<u16>()).prop_map(|(region, sel)| Mutn::Flip { region, sel }),
        2 => any::<u16>().prop_map(|sel| Mutn::Truncate { sel }),
        2 => (0u8..6).prop_map(Mutn::TruncateTo),
        2 => prop::collection::vec(any::<u8>(), 1..20).prop_map(Mutn::Extend),
        3 => (any::<u16>(), any::<u16>()).prop_map(|(a, b)| Mutn::Splice { a, b }),
        1 => any::<u64>().prop_map(Mutn::OtherKey),
    ];
    let garbage = prop_oneof![
        3 => prop::collection::vec(prop_oneof![3 => 0u8..4, 1 => any::<u8>()], 0..120).prop_map(Garbage::Raw),
        2 => prop::collection::vec(any::<u8>(), 0..64).prop_map(Garbage::Raw),
        2 => (any::<u64>(), 0u16..3000).prop_map(|(seed, len)| Garbage::Rand { seed, len }),
        3 => (any::<u16>(), 1u8..=255).prop_map(|(pos, xor)| Garbage::Frame { pos, xor }),
    ];
    (
        any::<u64>(),
        sized_piece(65_536),
        sized_piece(4096),
        level,
        any::<u64>(),
        prop::collection::vec(mutn, 0..6),
        prop::collection::vec(prop_oneof![Just(1u32), 1u32..100_000, Just(u32::MAX)], 0..3),
        garbage,
    )
        .prop_map(|(key_seed, plain, other, level, nonce_seed, muts, wrong_len, garbage)| CryptoCase {
            key_seed,
            plain,
            other,
            level,
            nonce_seed,
            muts,
            wrong_len,
            garbage,
        })
        .boxed()
}

fn key_of_seed(seed: u64) -> Key64 {
    let mut k = [0u8; 64];
    let mut z = seed;
    for chunk in k.chunks_mut(8) {
        z = splitmix(z);
        chunk.copy_from_slice(&z.to_le_bytes());
    }
    k
}

fn piece_bytes(p: &Piece) -> Vec<u8> {
    let mut v = Vec::with_capacity(p.len());
    p.write_to(&mut v);
    v
}

/// library call that must return Ok
fn must<T>(what: &str, r: Result<rustic_core::RusticResult<T>, String>) -> Result<T, String> {
    match r {
        Ok(Ok(v)) => Ok(v),
        Ok(Err(e)) => Err(format!("{what} returned an error: {}", estr(&e))),
        Err(p) => Err(format!("{what} panicked: {p}")),
    }
}

/// library call on damaged input: must return Err (a panic is reported as such)
fn must_reject<T>(what: &str, r: Result<rustic_core::RusticResult<T>, String>) -> Result<(), String> {
    match r {
        Ok(Ok(_)) => Err(format!("{what} was accepted")),
        Ok(Err(_)) => Ok(()),
        Err(p) => Err(format!("{what} panicked instead of returning an error: {p}")),
    }
}

/// library call on arbitrary input: anything but a panic
fn no_panic<T>(what: &str, r: Result<rustic_core::RusticResult<T>, String>) -> Result<Option<T>, String> {
    match r {
        Ok(r) => Ok(r.ok()),
        Err(p) => Err(format!("{what} panicked on arbitrary input: {p}")),
    }
}

fn crypto_checks(c: &CryptoCase, out: &mut Outcome) -> Result<(), String> {
    let key = key_of_seed(c.key_seed);
    let p = piece_bytes(&c.plain);
    let p2 = piece_bytes(&c.other);
    let mut nseed = c.nonce_seed | 1;
    let my_nonce = fmt::next_nonce(&mut nseed);

    // --- message level
    let enc = must("encrypt", guarded(|| encrypt(&key, &p)))?;
    if enc.len() != p.len() + 32 {
        return Err(format!("encrypt: {} plaintext bytes gave {} stored bytes, expected +32", p.len(), enc.len()));
    }
    if must("decrypt(encrypt(p))", guarded(|| decrypt(&key, &enc)))? != p {
        return Err("decrypt(encrypt(p)) differs from p".into());
    }
    match open_message(&key, &enc) {
        Ok(x) if x == p => {}
        Ok(_) => return Err("the independent decoder decrypts the library's message to different bytes".into()),
        Err(e) => return Err(format!("the independent decoder rejects the library's message: {e}")),
    }
    let mine = seal_message(&key, &my_nonce, &p);
    if must("decrypt of an independently sealed message", guarded(|| decrypt(&key, &mine)))? != p {
        return Err("decrypt of an independently sealed message differs from the plaintext".into());
    }
    let enc_again = must("encrypt", guarded(|| encrypt(&key, &p)))?;
    if enc_again[..16] == enc[..16] {
        return Err(format!("two encryptions used the same nonce {}", hex::encode(&enc[..16])));
    }
    let enc2 = must("encrypt", guarded(|| encrypt(&key, &p2)))?;
    if enc2[..16] == enc[..16] || enc2[..16] == enc_again[..16] {
        return Err(format!("two encryptions used the same nonce {}", hex::encode(&enc2[..16])));
    }

    // --- mutation script: every mutated message must be refused
    let n = enc.len();
    for (i, m) in c.muts.iter().enumerate() {
        let (label, bad, k2): (String, Vec<u8>, Key64) = match m {
            Mutn::Flip { region, sel } => {
                let (lo, hi) = match region {
                    0 => (0, 16),
                    1 if n > 32 => (16, n - 16),
                    1 => (0, n),
                    _ => (n - 16, n),
                };
                let bit = pick_idx(*sel, (hi - lo) * 8);
                let mut b = enc.clone();
                b[lo + bit / 8] ^= 1 << (bit % 8);
                (format!("bit {} of byte {} flipped", bit % 8, lo + bit / 8), b, key)
            }
            Mutn::Truncate { sel } => {
                let keep = pick_idx(*sel, n);
                (format!("truncated to {keep} bytes"), enc[..keep].to_vec(), key)
            }
            Mutn::TruncateTo(k) => {
                let keep = [0usize, 1, 15, 16, 31, n - 1][usize::from(*k) % 6].min(n - 1);
                (format!("truncated to {keep} bytes"), enc[..keep].to_vec(), key)
            }
            Mutn::Extend(extra) => {
                let mut b = enc.clone();
                b.extend_from_slice(extra);
                (format!("extended by {} bytes", extra.len()), b, key)
            }
            Mutn::Splice { a, b } => {
                let i1 = pick_idx(*a, n + 1);
                let i2 = pick_idx(*b, enc2.len() + 1);
                let mut s = enc[..i1].to_vec();
                s.extend_from_slice(&enc2[i2..]);
                if s == enc || s == enc2 {
                    continue;
                }
                (format!("first {i1} bytes + bytes {i2}.. of a second valid message"), s, key)
            }
            Mutn::OtherKey(s) => {
                let k2 = key_of_seed(*s);
                if k2 == key {
                    continue;
                }
                ("unchanged but decrypted with another key".to_string(), enc.clone(), k2)
            }
        };
        must_reject(
            &format!("mutation #{i}: a message of {n} bytes, {label},"),
            guarded(|| decrypt(&k2, &bad)),
        )?;
        // my decoder agrees (keeps the oracle honest)
        if open_message(&k2, &bad).is_ok() {
            return Err(format!("harness: the independent decoder accepts mutation #{i} ({label})"));
        }
    }

    // --- file and blob framing
    let be: Arc<dyn WriteBackend> = Arc::new(Storage::new().handle());
    let codec = Codec::new(be, &key, c.level);
    let mut file = Vec::with_capacity(p.len() + 1);
    file.push(if c.nonce_seed & 2 == 0 { b'{' } else { b'[' });
    file.extend_from_slice(&p);
    let ef = must("encode_file", guarded(|| codec.encode_file(&file)))?;
    if must("decode_file(encode_file(f))", guarded(|| codec.decode_file(&ef)))? != file {
        return Err("decode_file(encode_file(f)) differs from f".into());
    }
    match fmt::decode_file(&key, &ef) {
        Ok(x) if x == file => {}
        Ok(_) => return Err("the independent decoder decodes the library's repository file to different bytes".into()),
        Err(e) => return Err(format!("the independent decoder rejects the library's repository file: {e}")),
    }
    let inner = open_message(&key, &ef).map_err(|e| format!("file message: {e}"))?;
    match c.level {
        None if inner != file => return Err("without compression the message plaintext is not the file".into()),
        Some(_) if inner.first() != Some(&2) => return Err("compressed file plaintext does not start with the byte 2".into()),
        _ => {}
    }
    // (the level of the independent encoder is irrelevant for the reader: a cheap one)
    let mine_f = fmt::encode_file(&key, &my_nonce, &file, c.level.map(|l| l.clamp(-1, 1)));
    if must("decode_file of an independently encoded file", guarded(|| codec.decode_file(&mine_f)))? != file {
        return Err("decode_file of an independently encoded file differs".into());
    }

    let (eb, plen, ul) = must("encode_blob", guarded(|| codec.encode_blob(&p)))?;
    if plen as usize != p.len() {
        return Err(format!("encode_blob reports length {plen} for {} bytes", p.len()));
    }
    let want_ul = if c.level.is_some() { NonZeroU32::new(p.len() as u32) } else { None };
    if ul != want_ul {
        return Err(format!("encode_blob reports uncompressed length {ul:?}, expected {want_ul:?}"));
    }
    // An empty blob cannot carry "compressed" in the format (uncompressed length 0 is not
    // representable); the library never produces empty blobs. Not judged.
    let empty_compressed = p.is_empty() && c.level.is_some();
    if empty_compressed {
        *out = std::mem::take(out).class("empty_blob_with_compression_not_judged");
    } else {
        if must("decode_blob(encode_blob(p))", guarded(|| codec.decode_blob(&eb, ul)))?[..] != p[..] {
            return Err("decode_blob(encode_blob(p)) differs from p".into());
        }
        let entry = TrailerEntry {
            tpe: BType::Data,
            id: sha256(&p),
            offset: 0,
            length: eb.len() as u32,
            uncompressed_length: ul.map(NonZeroU32::get),
        };
        match fmt::decode_blob(&key, &eb, &entry) {
            Ok(x) if x == p => {}
            Ok(_) => return Err("the independent decoder decodes the library's blob to different bytes".into()),
            Err(e) => return Err(format!("the independent decoder rejects the library's blob: {e}")),
        }
        let stored = match c.level {
            None => p.clone(),
            Some(l) => zstd_encode(&p, l.clamp(-1, 1)),
        };
        let mine_b = seal_message(&key, &my_nonce, &stored);
        if must("decode_blob of an independently encoded blob", guarded(|| codec.decode_blob(&mine_b, ul)))?[..] != p[..] {
            return Err("decode_blob of an independently encoded blob differs".into());
        }
        if let Some(u) = ul {
            let mut wrong: Vec<u32> = vec![u.get().wrapping_add(1), u.get() - 1];
            wrong.extend(c.wrong_len.iter().copied());
            for w in wrong {
                let Some(w) = NonZeroU32::new(w) else { continue };
                if w == u {
                    continue;
                }
                must_reject(
                    &format!("a blob of {} bytes read with uncompressed length {w}", u.get()),
                    guarded(|| codec.decode_blob(&eb, Some(w))),
                )?;
            }
            *out = std::mem::take(out).class("wrong_uncompressed_length_tried");
        }
    }

    // --- arbitrary bytes never panic
    let g: Vec<u8> = garbage_bytes(c, &p2);
    let some_len = NonZeroU32::new(p2.len() as u32 | 1);
    _ = no_panic("decrypt", guarded(|| decrypt(&key, &g)))?;
    _ = no_panic("decode_file", guarded(|| codec.decode_file(&g)))?;
    _ = no_panic("decode_blob", guarded(|| codec.decode_blob(&g, None)))?;
    _ = no_panic("decode_blob", guarded(|| codec.decode_blob(&g, some_len)))?;
    _ = no_panic("pack_header_from_binary", guarded(|| pack_header_from_binary(&g)))?;
    // the same bytes behind a valid MAC reach the decompression / framing code
    let sealed = seal_message(&key, &my_nonce, &g);
    _ = no_panic("decode_file of authentic garbage", guarded(|| codec.decode_file(&sealed)))?;
    _ = no_panic("decode_blob of authentic garbage", guarded(|| codec.decode_blob(&sealed, some_len)))?;
    let mut g2 = vec![2u8];
    g2.extend_from_slice(&g);
    let sealed2 = seal_message(&key, &my_nonce, &g2);
    _ = no_panic("decode_file of an authentic damaged zstd frame", guarded(|| codec.decode_file(&sealed2)))?;
    if let Some(d) = no_panic("decode_blob", guarded(|| codec.decode_blob(&sealed, NonZeroU32::new(p2.len() as u32))))? {
        if !p2.is_empty() && d.len() != p2.len() {
            return Err("decode_blob returned data whose length is not the uncompressed length it was given".into());
        }
    }
    Ok(())
}

fn zstd_encode(data: &[u8], level: i32) -> Vec<u8> {
    // through the independent encoder: strip the file framing again (byte 2 + frame)
    let k = [0u8; 64];
    let f = fmt::encode_file(&k, &[0; 16], data, Some(level));
    let plain = open_message(&k, &f).expect("own message");
    plain[1..].to_vec()
}

/// Input-side predicate of the finding "pack-header-offset-overflow": read as a pack header, the
/// bytes hold complete entries whose lengths add up to more than u32::MAX.
fn header_lengths_overflow(g: &[u8]) -> bool {
    let (mut pos, mut sum) = (0usize, 0u64);
    while pos < g.len() {
        let need = match g[pos] {
            0 | 1 => 37,
            2 | 3 => 41,
            _ => return false,
        };
        if g.len() - pos < need {
            return false;
        }
        sum += u64::from(u32::from_le_bytes(g[pos + 1..pos + 5].try_into().unwrap()));
        if sum > u64::from(u32::MAX) {
            return true;
        }
        pos += need;
    }
    false
}

fn garbage_bytes(c: &CryptoCase, p2: &[u8]) -> Vec<u8> {
    match &c.garbage {
        Garbage::Raw(v) => v.clone(),
        Garbage::Rand { seed, len } => piece_bytes(&Piece::Rand { seed: *seed, skip: 0, len: u32::from(*len) }),
        Garbage::Frame { pos, xor } => {
            let mut z = zstd_encode(p2, 1);
            let at = pick_idx(*pos, z.len());
            z[at] ^= *xor;
            z
        }
    }
}

fn run_crypto(c: &CryptoCase, ctx: &Ctx) -> Outcome {
    let mut out = Outcome::pass();
    if header_lengths_overflow(&garbage_bytes(c, &piece_bytes(&c.other))) {
        out = out.known("pack-header-offset-overflow");
        if assumed_known(ctx, "pack-header-offset-overflow") {
            return out.skip("assumed known: pack-header-offset-overflow");
        }
    }
    let res = crypto_checks(c, &mut out);
    out = out
        .class(match c.level {
            None => "level_none".to_string(),
            Some(l) if l < 0 => "level_negative".to_string(),
            Some(l) if l <= 3 => "level_0..3".to_string(),
            Some(l) if l <= 15 => "level_4..15".to_string(),
            Some(_) => "level_16..22".to_string(),
        })
        .class(match c.plain.len() {
            0 => "len_0",
            1..=32 => "len_1..32",
            33..=4096 => "len_33..4096",
            _ => "len_>4096",
        });
    for m in &c.muts {
        out = out.class(match m {
            Mutn::Flip { .. } => "mut_flip",
            Mutn::Truncate { .. } | Mutn::TruncateTo(_) => "mut_truncate",
            Mutn::Extend(_) => "mut_extend",
            Mutn::Splice { .. } => "mut_splice",
            Mutn::OtherKey(_) => "mut_other_key",
        });
    }
    out.nontrivial = c.plain.len() >= 1 && !c.muts.is_empty();
    if let Err(e) = res {
        out.failure = Some(e);
    }
    out
}

// ================================================================== (c) tamper enumeration

#[derive(Debug, Clone, Serialize, Deserialize)]
pub struct TamperCase {
    pub cfg: RepoCfg,
    pub tree: MNode,
    /// further backups after the first one (edit scripts)
    pub more: Vec<Vec<Edit>>,
    /// selectors for fault positions (cycled)
    pub sel: Vec<u16>,
    pub append: Vec<u8>,
    /// also swap every file with every sibling of its type (known finding: never detected)
    pub swap: bool,
}

const MAX_FAULTED_FILES: usize = 40;
/// fraction of the tamper cases that also swap files with their siblings
const SWAP_WEIGHT: f64 = 0.3;

fn tamper_strategy(ctx: &Ctx) -> BoxedStrategy<TamperCase> {
    let thorough = ctx.tier.is_thorough();
    // a configuration in which packs have coinciding blob layouts: fixed-size chunks, no
    // compression, few blobs per pack
    let aligned = (6u32..11, 1u32..4, 1u64..1_000_000).prop_map(|(k, per_pack, key_seed)| {
        let size = 1u32 << k;
        RepoCfg {
            version: 2,
            compression: Some(0),
            chunker: ChunkerCfg::Fixed { size },
            tree_pack: PackCfg { size: Some(2000), grow: Some(0), limit: None },
            data_pack: PackCfg { size: Some(per_pack * (size + 32)), grow: Some(0), limit: None },
            extra_verify: Some(false),
            poly: super::c06::POLYS[0],
            key_seed,
        }
    });
    let general = repo_cfg().prop_map(|mut cfg| {
        // bound the number of packs: no one-blob-per-pack configurations here
        for p in [&mut cfg.tree_pack, &mut cfg.data_pack] {
            if p.size.is_some_and(|s| s < 3000) {
                p.size = Some(3000);
            }
        }
        if matches!(cfg.chunker, ChunkerCfg::Fixed { size } if size < 64) {
            cfg.chunker = ChunkerCfg::Fixed { size: 64 };
        }
        cfg
    });
    prop_oneof![2 => general, 1 => aligned]
        .prop_flat_map(move |cfg| {
            let p = TreeParams {
                unit: cfg.unit().min(4096),
                file_cap: if thorough { 60_000 } else { 20_000 },
                max_children: 3,
                depth: 2,
            };
            (
                Just(cfg),
                tree(p),
                prop::collection::vec(prop::collection::vec(crate::r#gen::edit(p), 1..3), 0..=2),
                prop::collection::vec(any::<u16>(), 8),
                prop::collection::vec(any::<u8>(), 1..6),
                prop::bool::weighted(SWAP_WEIGHT),
            )
        })
        .prop_map(|(cfg, tree, more, sel, append, swap)| TamperCase {
            cfg,
            tree,
            more,
            sel,
            append,
            swap,
        })
        .boxed()
}

struct Expect {
    /// snapshot id -> (SnapshotFile as JSON incl. id, decoded file bytes)
    snaps: BTreeMap<Id32, (Value, Vec<u8>)>,
    /// index id -> decoded file bytes
    indexes: BTreeMap<Id32, Vec<u8>>,
    /// pack id -> trailer entries
    packs: BTreeMap<Id32, Vec<TrailerEntry>>,
    live: Vec<LiveSnap>,
}

#[derive(Default)]
struct Obs {
    /// a read returned something else than the model
    wrong: Option<String>,
    failed: u32,
    same: u32,
    panics: u32,
}

impl Obs {
    fn err(&mut self, e: &str) {
        self.failed += 1;
        // (library error texts carry backtraces: only the first line says whether it was a panic)
        let l = e.lines().next().unwrap_or("");
        if l.starts_with("panic") || l.contains(": panic: ") {
            self.panics += 1;
        }
    }
    fn wrong(&mut self, msg: String) {
        if self.wrong.is_none() {
            self.wrong = Some(msg);
        }
    }
}

fn snap_value(s: &SnapshotFile) -> Value {
    serde_json::to_value(s).expect("snapshot serialises")
}

fn g2<T>(what: &str, r: Result<rustic_core::RusticResult<T>, String>) -> Result<T, String> {
    match r {
        Ok(Ok(v)) => Ok(v),
        Ok(Err(e)) => Err(format!("{what}: {}", estr(&e))),
        Err(p) => Err(format!("{what}: panic: {p}")),
    }
}

/// run the read paths that touch a file of type `t` on the (tampered) storage
fn read_paths(storage: &Arc<Storage>, cfg: &RepoCfg, ex: &Expect, t: u8, blobs: &[(BType, Id32)]) -> Obs {
    let mut o = Obs::default();
    let repo = match guarded(|| open_repo(storage.handle(), cfg)) {
        Ok(Ok(r)) => r,
        Ok(Err(e)) => {
            o.err(&e);
            return o;
        }
        Err(p) => {
            o.err(&format!("panic: {p}"));
            return o;
        }
    };
    if t == 0 || t == 3 {
        match g2("get_all_snapshots", guarded(|| repo.get_all_snapshots())) {
            Err(e) => o.err(&e),
            Ok(list) => {
                let got: BTreeMap<Id32, Value> = list.iter().map(|s| (id_bytes(&s.id), snap_value(s))).collect();
                let want: BTreeMap<Id32, Value> = ex.snaps.iter().map(|(k, v)| (*k, v.0.clone())).collect();
                if got == want && list.len() == want.len() {
                    o.same += 1;
                } else {
                    let which = want
                        .iter()
                        .find(|(k, v)| got.get(*k) != Some(*v))
                        .map(|(k, _)| hex8(k))
                        .unwrap_or_default();
                    o.wrong(format!(
                        "get_all_snapshots returned {} snapshots without an error, but the content listed under id {which} is not what was stored under that id",
                        list.len()
                    ));
                }
            }
        }
    }
    if t == 3 {
        for (id, (want, want_bytes)) in &ex.snaps {
            let hexid = hex::encode(id);
            match g2("get_snapshots", guarded(|| repo.get_snapshots(&[hexid.as_str()]))) {
                Err(e) => o.err(&e),
                Ok(v) => {
                    if v.len() == 1 && snap_value(&v[0]) == *want {
                        o.same += 1;
                    } else {
                        o.wrong(format!(
                            "get_snapshots([{}]) returned a snapshot that is not the one stored under this id (tree {} instead of {})",
                            hex8(id),
                            v.first().map(|s| s.tree.to_hex().as_str().to_string()).unwrap_or_default(),
                            want["tree"].as_str().unwrap_or("?")
                        ));
                    }
                }
            }
            match g2("cat_file", guarded(|| repo.cat_file(FileType::Snapshot, &hexid))) {
                Err(e) => o.err(&e),
                Ok(b) if b[..] == want_bytes[..] => o.same += 1,
                Ok(_) => o.wrong(format!("cat_file(snapshot {}) returned other content than what was stored under this id", hex8(id))),
            }
        }
    }
    if t == 1 {
        for (id, want_bytes) in &ex.indexes {
            let hexid = hex::encode(id);
            match g2("cat_file", guarded(|| repo.cat_file(FileType::Index, &hexid))) {
                Err(e) => o.err(&e),
                Ok(b) if b[..] == want_bytes[..] => o.same += 1,
                Ok(_) => o.wrong(format!("cat_file(index {}) returned other content than what was stored under this id", hex8(id))),
            }
        }
    }
    if t == 3 {
        return o;
    }
    let full = match g2("to_indexed", guarded(|| repo.to_indexed())) {
        Ok(f) => f,
        Err(e) => {
            o.err(&e);
            return o;
        }
    };
    for (i, l) in ex.live.iter().enumerate() {
        match read_snapshot(&full, &l.snap, true) {
            Err(e) => o.err(&e),
            Ok(got) => match compare(&l.model, &got, &CmpOpts { full_meta: true, content: true }) {
                None => o.same += 1,
                Some(d) => o.wrong(format!("ls + dump of snapshot #{i} returned without an error but not the content that was backed up: {d}")),
            },
        }
    }
    for (bt, id) in blobs {
        let tpe = match bt {
            BType::Data => BlobType::Data,
            BType::Tree => BlobType::Tree,
        };
        let hexid = hex::encode(id);
        match g2("cat_blob", guarded(|| full.cat_blob(tpe, &hexid))) {
            Err(e) => o.err(&e),
            Ok(b) if sha256(&b) == *id => o.same += 1,
            Ok(_) => o.wrong(format!("cat_blob({} {}) returned bytes that do not hash to the requested id", bt.as_str(), hex8(id))),
        }
    }
    o
}

#[derive(Debug, Clone)]
struct Fault {
    label: String,
    /// new contents: (type, id) -> bytes
    put: Vec<((u8, Id), Vec<u8>)>,
    is_swap: bool,
}

fn faults_for(c: &TamperCase, key: &Key64, t: u8, id: &Id, raw: &[u8], siblings: &[(Id, bytes::Bytes)], salt: usize) -> Vec<Fault> {
    let n = raw.len();
    let sel = |j: usize| c.sel[(salt + j) % c.sel.len()].wrapping_add((salt as u16).wrapping_mul(7919));
    let mut regions: Vec<(&'static str, usize, usize)> = Vec::new();
    if t == 4 {
        if let Ok(info) = parse_pack(key, raw) {
            let hl = info.header_len as usize;
            if !info.entries.is_empty() {
                let e = &info.entries[pick_idx(sel(0), info.entries.len())];
                let (s, l) = (e.offset as usize, e.length as usize);
                regions.push(("nonce of a blob", s, s + 16));
                if l > 32 {
                    regions.push(("body of a blob", s + 16, s + l - 16));
                }
                regions.push(("tag of a blob", s + l - 16, s + l));
            }
            regions.push(("pack header", n - 4 - hl, n - 4));
            regions.push(("header length field", n - 4, n));
        }
    } else {
        regions.push(("nonce", 0, 16));
        if n > 32 {
            regions.push(("body", 16, n - 16));
        }
        regions.push(("tag", n - 16, n));
    }
    let mut out = Vec::new();
    let one = |label: String, data: Vec<u8>| Fault {
        label,
        put: vec![((t, *id), data)],
        is_swap: false,
    };
    for (j, (name, lo, hi)) in regions.iter().enumerate() {
        let bit = pick_idx(sel(1 + j), (hi - lo) * 8);
        let mut d = raw.to_vec();
        d[lo + bit / 8] ^= 1 << (bit % 8);
        out.push(one(format!("bit {} of byte {} ({name}) flipped", bit % 8, lo + bit / 8), d));
    }
    let mut cuts = vec![0usize, 1, n - 1];
    if n > 3 {
        cuts.push(1 + pick_idx(sel(7), n - 2));
    }
    cuts.sort_unstable();
    cuts.dedup();
    for k in cuts {
        out.push(one(format!("truncated from {n} to {k} bytes"), raw[..k].to_vec()));
    }
    let mut d = raw.to_vec();
    d.extend_from_slice(&c.append);
    out.push(one(format!("extended by {} bytes", c.append.len()), d));
    if c.swap {
        for (sid, sraw) in siblings {
            if sid == id || sraw[..] == raw[..] {
                continue;
            }
            out.push(Fault {
                label: format!("content swapped with {} {}", tname(t), hex8(&id_bytes(sid))),
                put: vec![((t, *id), sraw.to_vec()), ((t, *sid), raw.to_vec())],
                is_swap: true,
            });
        }
    }
    out
}

fn run_tamper(c: &TamperCase, ctx: &Ctx) -> Outcome {
    let mut out = Outcome::pass();
    if c.swap {
        // input-side predicate of the known finding: the fault list contains swaps with siblings
        out = out.known("swap_sibling").class("with_swaps");
        if assumed_known(ctx, "swap_sibling") {
            return out.skip("assumed known: swap_sibling");
        }
    }
    macro_rules! fail {
        ($($arg:tt)*) => {{
            out.failure = Some(format!($($arg)*));
            return out;
        }};
    }
    if c.sel.is_empty() {
        return out.skip("no selectors");
    }
    let key = c.cfg.key64();
    // --- pristine repository, built once
    let mut w = match World::new(&c.cfg, &c.tree) {
        Ok(w) => w,
        Err(e) => return out.skip(format!("init failed (judged by C01/C18): {}", crate::engine::first_line(&e))),
    };
    let first = HOp::Backup { edits: vec![], parent: false };
    let more: Vec<HOp> = c.more.iter().map(|e| HOp::Backup { edits: e.clone(), parent: false }).collect();
    for op in std::iter::once(&first).chain(more.iter()) {
        if let Err(e) = w.step(op) {
            return out.skip(format!("pristine backup failed (judged by C01): {}", crate::engine::first_line(&e)));
        }
    }
    if let Err(e) = w.verify_snapshots() {
        return out.skip(format!("pristine repository does not read back (judged by C01): {}", crate::engine::first_line(&e)));
    }
    let files = w.storage.files();
    let mut ex = Expect {
        snaps: BTreeMap::new(),
        indexes: BTreeMap::new(),
        packs: BTreeMap::new(),
        live: w.live.clone(),
    };
    {
        let repo = match open_repo(w.storage.handle(), &c.cfg) {
            Ok(r) => r,
            Err(e) => fail!("pristine repository: {e}"),
        };
        for l in &w.live {
            let hexid = l.snap.id.to_hex().as_str().to_string();
            let got = match g2("get_snapshots on the pristine repository", guarded(|| repo.get_snapshots(&[hexid.as_str()]))) {
                Ok(v) if v.len() == 1 => v.into_iter().next().unwrap(),
                Ok(v) => fail!("pristine repository: get_snapshots returned {} entries for one id", v.len()),
                Err(e) => fail!("{e}"),
            };
            if got.id != l.snap.id || got.tree != l.snap.tree || got.hostname != l.snap.hostname {
                fail!("pristine repository: get_snapshots([{hexid}]) does not return the snapshot that backup reported");
            }
            let raw = &files[&(3, *l.snap.id)];
            let dec = match fmt::decode_file(&key, raw) {
                Ok(d) => d,
                Err(e) => fail!("pristine snapshot file: {e}"),
            };
            // anchor: the independently decoded file names the same tree
            let v: Value = serde_json::from_slice(&dec).unwrap_or(Value::Null);
            if v["tree"].as_str() != Some(l.snap.tree.to_hex().as_str()) {
                fail!("pristine snapshot file {hexid}: independently decoded tree id differs from what backup reported");
            }
            _ = ex.snaps.insert(id_bytes(&l.snap.id), (snap_value(&got), dec));
        }
    }
    for ((t, id), raw) in &files {
        match t {
            1 => match fmt::decode_file(&key, raw) {
                Ok(d) => _ = ex.indexes.insert(id_bytes(id), d),
                Err(e) => fail!("pristine index file: {e}"),
            },
            4 => match parse_pack(&key, raw) {
                Ok(info) => _ = ex.packs.insert(id_bytes(id), info.entries),
                Err(e) => fail!("pristine pack: {e}"),
            },
            _ => {}
        }
    }

    // --- which files are faulted
    let mut targets: Vec<(u8, Id)> = files.keys().filter(|(t, _)| *t != KEY_T).copied().collect();
    let total_files = targets.len();
    if targets.len() > MAX_FAULTED_FILES {
        let (keep, packs): (Vec<(u8, Id)>, Vec<(u8, Id)>) = targets.iter().copied().partition(|(t, _)| *t != 4);
        let room = MAX_FAULTED_FILES.saturating_sub(keep.len()).max(4);
        let start = pick_idx(c.sel[0], packs.len());
        let mut chosen: Vec<(u8, Id)> = keep;
        for k in 0..room.min(packs.len()) {
            // evenly spread, starting at a generated pack
            chosen.push(packs[(start + k * packs.len() / room.min(packs.len())) % packs.len()]);
        }
        chosen.sort();
        chosen.dedup();
        targets = chosen;
        out = out.class("more_files_than_the_cap:packs_sampled");
    }

    let mut detected_by_type = [0u32; 5];
    let (mut n_faults, mut n_detected, mut n_same, mut n_panics) = (0u64, 0u64, 0u64, 0u64);
    for (fi, (t, id)) in targets.iter().enumerate() {
        let raw = &files[&(*t, *id)];
        let siblings: Vec<(Id, bytes::Bytes)> = files
            .iter()
            .filter(|((st, _), _)| st == t)
            .map(|((_, sid), b)| (*sid, b.clone()))
            .collect();
        for f in faults_for(c, &key, *t, id, raw, &siblings, fi) {
            let fork = w.storage.fork();
            let mut blobs: Vec<(BType, Id32)> = Vec::new();
            for ((ft, fid), data) in &f.put {
                fork.put(crate::membe::tfrom(*ft), *fid, data.clone());
                if *ft == 4 {
                    if let Some(es) = ex.packs.get(&id_bytes(fid)) {
                        blobs.extend(es.iter().map(|e| (e.tpe, e.id)));
                    }
                }
            }
            debug_assert_eq!(tidx(crate::membe::tfrom(*t)), *t);
            let o = read_paths(&fork, &c.cfg, &ex, *t, &blobs);
            n_faults += 1;
            n_panics += u64::from(o.panics);
            if let Some(wrong) = o.wrong {
                fail!(
                    "{} {} ({} bytes) {}: {wrong}",
                    tname(*t),
                    hex8(&id_bytes(id)),
                    raw.len(),
                    f.label
                );
            }
            if o.failed > 0 {
                n_detected += 1;
                detected_by_type[usize::from(*t)] += 1;
            } else {
                n_same += 1;
            }
            if f.is_swap {
                out = out.class("swap_executed");
            }
        }
    }
    out.nontrivial = detected_by_type[4] > 0 && detected_by_type[3] > 0 && detected_by_type[1] > 0;
    out.class_if(ex.snaps.len() >= 2, "snapshots>=2")
        .class_if(ex.packs.len() >= 3, "packs>=3")
        .class_if(matches!(c.cfg.chunker, ChunkerCfg::Fixed { .. }) && (c.cfg.version == 1 || c.cfg.compression == Some(0)), "fixed_chunks_uncompressed")
        .count("files_in_repository", total_files as u64)
        .count("files_faulted", targets.len() as u64)
        .count("faults", n_faults)
        .count("faults_some_read_failed", n_detected)
        .count("faults_all_reads_returned_model", n_same)
        .count("panics_counted_as_failed_reads", n_panics)
}

// ================================================================== (d) passwords

#[derive(Debug, Clone, Serialize, Deserialize)]
pub enum KeyFault {
    Flip(u16, u8),
    Truncate(u16),
    Append(Vec<u8>),
    /// replace the content by the content of another live key file
    ContentOf(u16),
    Empty,
}

#[derive(Debug, Clone, Serialize, Deserialize)]
pub enum POp {
    /// add a key for password #i of the pool
    Add(u8),
    /// delete the selected live key
    Delete(u16),
    /// open with the password of the selected live key
    Open(u16),
    OpenMaster,
    /// open with a pool password that is not live (never added, or removed)
    OpenNotLive(u16),
    /// open with a live password changed in one place
    OpenMangled(u16, u8),
    /// damage the selected live key file on a copy of the repository, open with its password
    OpenTampered(u16, KeyFault),
}

#[derive(Debug, Clone, Serialize, Deserialize)]
pub struct PwCase {
    pub key_seed: u64,
    /// password pool, made distinct by their position; #0 initialises the repository
    pub pool: Vec<String>,
    pub tree: MNode,
    pub ops: Vec<POp>,
}

fn pw_strategy(ctx: &Ctx) -> BoxedStrategy<PwCase> {
    let max_ops = if ctx.tier.is_thorough() { 8 } else { 6 };
    let pw = prop_oneof![
        3 => "[ -~]{1,12}",
        1 => "[a-z]{1,3}(ä|ß|日本|🦀|é)[ -~]{0,4}",
        1 => "[0-9]{4,6}",
        // passwords that end in white space / a line end (what a careless reader of a password
        // file would strip): they are passwords like any other
        1 => "[a-z0-9]{1,8}(\n|\r\n|\r| |\t)",
    ];
    let fault = prop_oneof![
        4 => (any::<u16>(), 0u8..8).prop_map(|(p, b)| KeyFault::Flip(p, b)),
        1 => any::<u16>().prop_map(KeyFault::Truncate),
        1 => prop::collection::vec(any::<u8>(), 1..4).prop_map(KeyFault::Append),
        1 => any::<u16>().prop_map(KeyFault::ContentOf),
        1 => Just(KeyFault::Empty),
    ];
    let op = prop_oneof![
        3 => (0u8..4).prop_map(POp::Add),
        3 => any::<u16>().prop_map(POp::Delete),
        3 => any::<u16>().prop_map(POp::Open),
        1 => Just(POp::OpenMaster),
        2 => any::<u16>().prop_map(POp::OpenNotLive),
        1 => (any::<u16>(), any::<u8>()).prop_map(|(s, h)| POp::OpenMangled(s, h)),
        2 => (any::<u16>(), fault).prop_map(|(s, f)| POp::OpenTampered(s, f)),
    ];
    let p = TreeParams { unit: 512, file_cap: 3000, max_children: 2, depth: 1 };
    // a short prefix that changes the key set, so that most histories open after a delete
    let prefix = prop::collection::vec(
        prop_oneof![(0u8..4).prop_map(POp::Add), any::<u16>().prop_map(POp::Delete)],
        1..=2,
    );
    (
        1u64..1_000_000,
        prop::collection::vec(pw, 4),
        tree(p),
        prefix,
        prop::collection::vec(op, 2..=max_ops - 2),
    )
        .prop_map(|(key_seed, pool, tree, mut ops, rest)| {
            ops.extend(rest);
            PwCase {
                key_seed,
                pool: pool.into_iter().enumerate().map(|(i, s)| format!("{i}{s}")).collect(),
                tree,
                ops,
            }
        })
        .boxed()
}

fn open_with(storage: &Arc<Storage>, cred: &Credentials) -> Result<RepoOpen, String> {
    let be = storage.handle();
    match guarded(|| {
        Repository::new(&repo_opts(), &backends(be))
            .map_err(|e| estr(&e))?
            .open(cred)
            .map_err(|e| estr(&e))
    }) {
        Ok(r) => r,
        Err(p) => Err(format!("panic: {p}")),
    }
}

/// the handle decrypts with the real master key and reads the one snapshot of the repository
fn handle_reads(repo: RepoOpen, master: &Key64, snap: &SnapshotFile, model: &Flat) -> Result<(), String> {
    if key64_of(&repo.key()) != *master {
        return Err("the handle holds a different master key".into());
    }
    let snaps = g2("get_all_snapshots", guarded(|| repo.get_all_snapshots()))?;
    if snaps.len() != 1 || snaps[0].id != snap.id || snaps[0].tree != snap.tree {
        return Err("the handle does not list the snapshot of the repository".into());
    }
    let full = g2("to_indexed", guarded(|| repo.to_indexed()))?;
    let got = read_snapshot(&full, snap, true)?;
    match compare(model, &got, &CmpOpts { full_meta: true, content: true }) {
        None => Ok(()),
        Some(d) => Err(format!("the handle reads other content: {d}")),
    }
}

/// byte positions of a key file that may be damaged: everything except the digits of the scrypt
/// cost parameters (inflating them is a resource question, not one of this property)
fn key_file_positions(raw: &[u8]) -> Vec<usize> {
    let mut banned = vec![false; raw.len()];
    for pat in [&b"\"N\":"[..], &b"\"r\":"[..], &b"\"p\":"[..]] {
        if let Some(at) = raw.windows(pat.len()).position(|w| w == pat) {
            let mut i = at + pat.len();
            // the separator before and after the number too (a digit may appear from a flipped ',')
            banned[i - 1] = true;
            while i < raw.len() && (raw[i].is_ascii_digit() || raw[i] == b' ') {
                banned[i] = true;
                i += 1;
            }
            if i < raw.len() {
                banned[i] = true;
            }
        }
    }
    (0..raw.len()).filter(|i| !banned[*i]).collect()
}

fn run_pw(c: &PwCase, _ctx: &Ctx) -> Outcome {
    let mut out = Outcome::pass();
    macro_rules! fail {
        ($($arg:tt)*) => {{
            out.failure = Some(format!($($arg)*));
            return out;
        }};
    }
    if c.pool.len() < 4 {
        return out.skip("pool too small");
    }
    let mut cfg = RepoCfg::simple();
    cfg.key_seed = c.key_seed;
    let storage = Storage::new();
    let be = storage.handle();
    let pw0 = c.pool[0].clone();
    let cf = cfg.config_file();
    let init = guarded(|| {
        Repository::new(&repo_opts(), &backends(be))
            .map_err(|e| estr(&e))?
            .init_with_config(&Credentials::password(&pw0), &KeyOptions::default(), cf)
            .map_err(|e| estr(&e))
    });
    let repo = match init {
        Ok(Ok(r)) => r,
        Ok(Err(e)) => fail!("init with a password failed: {e}"),
        Err(p) => fail!("init with a password panicked: {p}"),
    };
    let master_mk = repo.key();
    let master = key64_of(&master_mk);
    let Some(first_key) = *repo.key_id() else {
        fail!("init with a password reports no key id");
    };
    let key_files = storage.ids(FileType::Key);
    if key_files != vec![*first_key] {
        fail!("init with a password: expected exactly the reported key file, found {}", key_files.len());
    }
    let snap = {
        let ids = match g2("to_indexed_ids", guarded(|| repo.to_indexed_ids())) {
            Ok(r) => r,
            Err(e) => fail!("{e}"),
        };
        match backup_tree(&ids, &c.tree, &ReadSchedule::default(), &force_opts(), snap_template(1_700_000_000, "host", "", "")) {
            Ok(s) => s,
            Err(e) => fail!("{e}"),
        }
    };
    let model = flatten(&c.tree);
    let master_cred = Credentials::Masterkey(master_mk);

    // model: live key files and the pool index of their password
    let mut live: Vec<(KeyId, usize)> = vec![(first_key, 0)];
    let mut deleted_before_open = false;
    let mut any_delete = false;
    for (i, op) in c.ops.iter().enumerate() {
        let is_live = |pwi: usize, live: &[(KeyId, usize)]| live.iter().any(|(_, p)| *p == pwi);
        match op {
            POp::Add(pi) => {
                out = out.class("op_add");
                let pwi = usize::from(*pi) % c.pool.len();
                let h = match open_with(&storage, &master_cred) {
                    Ok(h) => h,
                    Err(e) => fail!("op #{i}: open with the master key failed: {e}"),
                };
                let pw = c.pool[pwi].clone();
                match g2("add_key", guarded(|| h.add_key(&pw, &KeyOptions::default()))) {
                    Ok(id) => {
                        if !storage.ids(FileType::Key).contains(&*id) {
                            fail!("op #{i}: add_key returned an id for which no key file exists");
                        }
                        live.push((id, pwi));
                    }
                    Err(e) => fail!("op #{i}: {e}"),
                }
            }
            POp::Delete(sel) => {
                out = out.class("op_delete");
                if live.is_empty() {
                    continue;
                }
                let k = pick_idx(*sel, live.len());
                let (id, _) = live.remove(k);
                let h = match open_with(&storage, &master_cred) {
                    Ok(h) => h,
                    Err(e) => fail!("op #{i}: open with the master key failed: {e}"),
                };
                if let Err(e) = g2("delete_key", guarded(|| h.delete_key(&id))) {
                    fail!("op #{i}: {e}");
                }
                if storage.ids(FileType::Key).contains(&*id) {
                    fail!("op #{i}: delete_key returned Ok but the key file is still there");
                }
                any_delete = true;
            }
            POp::Open(sel) => {
                out = out.class("op_open_live");
                if live.is_empty() {
                    continue;
                }
                let (_, pwi) = live[pick_idx(*sel, live.len())];
                deleted_before_open |= any_delete;
                match open_with(&storage, &Credentials::password(&c.pool[pwi])) {
                    Err(e) => fail!("op #{i}: open with the live password #{pwi} failed: {e}"),
                    Ok(h) => {
                        if let Err(e) = handle_reads(h, &master, &snap, &model) {
                            fail!("op #{i}: open with the live password #{pwi}: {e}");
                        }
                    }
                }
            }
            POp::OpenMaster => {
                out = out.class("op_open_master");
                deleted_before_open |= any_delete;
                match open_with(&storage, &master_cred) {
                    Err(e) => fail!("op #{i}: open with the master key failed: {e}"),
                    Ok(h) => {
                        if let Err(e) = handle_reads(h, &master, &snap, &model) {
                            fail!("op #{i}: open with the master key: {e}");
                        }
                    }
                }
            }
            POp::OpenNotLive(sel) => {
                let cands: Vec<usize> = (0..c.pool.len()).filter(|p| !is_live(*p, &live)).collect();
                if cands.is_empty() {
                    continue;
                }
                out = out.class("op_open_not_live");
                let pwi = cands[pick_idx(*sel, cands.len())];
                deleted_before_open |= any_delete;
                if open_with(&storage, &Credentials::password(&c.pool[pwi])).is_ok() {
                    fail!(
                        "op #{i}: the repository opens with password #{pwi}, which belongs to no key file ({} key files are left)",
                        live.len()
                    );
                }
            }
            POp::OpenMangled(sel, how) => {
                if live.is_empty() {
                    continue;
                }
                out = out.class("op_open_mangled");
                let (_, pwi) = live[pick_idx(*sel, live.len())];
                let pw = &c.pool[pwi];
                let mut chars: Vec<char> = pw.chars().collect();
                match how % 8 {
                    0 => chars.push(' '),
                    1 => _ = chars.pop(),
                    2 => chars.insert(0, 'x'),
                    4 => chars.push('\n'),
                    5 => chars.extend(['\r', '\n']),
                    6 => chars.push('\r'),
                    7 => chars.push('\t'),
                    _ => {
                        let k = usize::from(*how) % chars.len();
                        chars[k] = if chars[k] == 'a' { 'b' } else { 'a' };
                    }
                }
                let bad: String = chars.into_iter().collect();
                if c.pool.iter().enumerate().any(|(j, p)| *p == bad && is_live(j, &live)) {
                    continue;
                }
                deleted_before_open |= any_delete;
                if open_with(&storage, &Credentials::password(&bad)).is_ok() {
                    fail!("op #{i}: the repository opens with a password that differs from the live password #{pwi} in one place");
                }
            }
            POp::OpenTampered(sel, fault) => {
                if live.is_empty() {
                    continue;
                }
                out = out.class("op_open_tampered_key_file");
                let (kid, pwi) = live[pick_idx(*sel, live.len())];
                let fork = storage.fork();
                let raw = fork.get(FileType::Key, &kid).expect("live key file").to_vec();
                let new: Vec<u8> = match fault {
                    KeyFault::Flip(p, b) => {
                        let pos = key_file_positions(&raw);
                        let at = pos[pick_idx(*p, pos.len())];
                        let mut d = raw.clone();
                        d[at] ^= 1 << (b % 8);
                        d
                    }
                    KeyFault::Truncate(p) => raw[..pick_idx(*p, raw.len())].to_vec(),
                    KeyFault::Append(x) => {
                        let mut d = raw.clone();
                        d.extend_from_slice(x);
                        d
                    }
                    KeyFault::ContentOf(s) => {
                        let (other, _) = live[pick_idx(*s, live.len())];
                        fork.get(FileType::Key, &other).expect("live key file").to_vec()
                    }
                    KeyFault::Empty => Vec::new(),
                };
                // keep the scrypt cost parameters as they were (see key_file_positions)
                fork.put(FileType::Key, *kid, new);
                deleted_before_open |= any_delete;
                // fail, or a handle that is as good as an untampered one
                if let Ok(h) = open_with(&fork, &Credentials::password(&c.pool[pwi])) {
                    if let Err(e) = handle_reads(h, &master, &snap, &model) {
                        fail!("op #{i}: open after damaging key file {} ({fault:?}): {e}", hex8(&id_bytes(&kid)));
                    }
                    out = out.class("tampered_key_file_still_opens");
                }
            }
        }
    }
    out.nontrivial = deleted_before_open;
    out
}

// ================================================================== spec

pub fn spec() -> PropSpec {
    PropSpec {
        id: "C04",
        level: "fault_enumeration",
        rule: "plaintext: configuration (v1/v2, compression unset/0/levels) x source tree with a 24-byte canary in every name, link target, non-hardlinked file content, the backup path, host name, tag and label x history of 1-4 (quick) / 1-8 (thorough) backup/forget/prune operations after an initial backup, with probability 0.35 replayed on a second repository with the same master key; non-trivial = >= 2 packs, >= 50 distinct nonces and >= 1 canary confirmed inside decrypted content. crypto: key x plaintext (0..64 KiB, boundary lengths weighted) x compression level (none, -7..22) x mutation script (bit flip in nonce/body/tag, truncation, extension, splice with a second valid message, other key) x wrong uncompressed lengths x garbage (raw, random, damaged zstd frame); non-trivial = plaintext >= 1 byte and >= 1 mutation. tamper: small repository (1-3 backups; one third with fixed-size chunks, no compression, few blobs per pack) x every stored file except keys (packs sampled beyond 40 files) x {one bit flipped in each of nonce/body/tag (for packs: of a generated blob, in the header, in the length field), truncation to 0/1/generated/len-1, extension, and in 30% of the cases swap with every sibling}; non-trivial = at least one fault each on a pack, a snapshot file and an index file made a read fail. password: 3-6 operations of add_key/delete_key/open(live pw)/open(master key)/open(pool password without key file)/open(mangled live pw)/open after damaging a key file; non-trivial = an open attempt after a delete. Distinct by hash of the case.",
        assumptions: vec![
            "cryptographic strength is not tested: AES-CTR / Poly1305 come from the same crate in the library and in the independent decoder; framing, key splitting and usage are independent",
            "nonce randomness is only observed as non-repetition (also of identical plaintexts under the same key)",
            "a verbatim copy of a whole message (same nonce and same ciphertext) is accepted only if the history contains a prune with fast-repack",
            "a read of a damaged repository may fail by Err or by a caught panic; both count as 'failed'",
            "a damaged read that returns exactly the stored content (e.g. a flipped bit in a pack header that the read never looks at) satisfies the statement",
            "key files are public by design: damaging one must not let a wrong password in, the right password may fail or work; scrypt cost digits are not damaged (resource question)",
            "an empty blob with compression on is not judged (the library never stores empty blobs)",
        ],
        subs: vec![
            Box::new(Sub {
                name: "plaintext",
                cases_quick: 320,
                cases_thorough: 8000,
                max_shrink_iters: 150,
                strategy: plain_strategy,
                run: run_plain,
            }) as Box<dyn DynSub>,
            Box::new(Sub {
                name: "crypto",
                cases_quick: 20_000,
                cases_thorough: 600_000,
                max_shrink_iters: 2000,
                strategy: crypto_strategy,
                run: run_crypto,
            }),
            Box::new(Sub {
                name: "tamper",
                cases_quick: 128,
                cases_thorough: 3000,
                max_shrink_iters: 60,
                strategy: tamper_strategy,
                run: run_tamper,
            }),
            Box::new(Sub {
                name: "password",
                cases_quick: 48,
                cases_thorough: 480,
                max_shrink_iters: 30,
                strategy: pw_strategy,
                run: run_pw,
            }),
        ],
        extra: None,
    }
}
