//! C10 — Backups running concurrently with prune or each other stay intact.
//!
//! Generated: a pre-state whose history ends with a forget, and two commands A, B (backup‖prune,
//! prune‖backup, backup‖backup), each with its own repository handle on the same storage.
//! Schedules are ENUMERATED: A runs in its own thread and is parked right before its k-th backend
//! call (reads and listings included) for every k; then B runs completely, or up to its own j-th
//! call where it is parked while A finishes. Oracle: the model of every snapshot (old and both new
//! ones) after the overlap (backup‖backup) resp. after a follow-up prune (when a prune took part);
//! packs marked by the overlapping prune must still exist before the follow-up prune.

use std::{
    collections::BTreeSet,
    sync::{
        Arc,
        atomic::{AtomicBool, Ordering},
    },
};

use proptest::prelude::*;
use rustic_core::{FileType, Id, repofile::SnapshotFile};
use serde::{Deserialize, Serialize};
use vpcore::fmt::BType;

use crate::{
    engine::{Ctx, DynSub, Outcome, PropSpec, Sub, guarded, pick_idx},
    r#gen::{Edit, apply_edit, edit, tree},
    history::{HOp, Lim, PruneCfg, World, hop, prune_cfg},
    inspect::{index_view, reachable},
    membe::{Files, MemBackend, Storage, id_bytes},
    model::{Flat, MNode, ReadSchedule, flatten},
    repo::{
        CheckVerdict, CmpOpts, RepoCfg, backup_tree, check_verdict, compare, estr, force_opts, open_full,
        open_repo, read_snapshot, repo_cfg, snap_template,
    },
};

#[derive(Debug, Clone, Copy, Serialize, Deserialize, PartialEq, Eq)]
pub enum Pairing {
    BackupPrune,
    PruneBackup,
    BackupBackup,
}

#[derive(Debug, Clone, Serialize, Deserialize)]
pub struct Case {
    pub cfg: RepoCfg,
    pub tree: MNode,
    pub pre: Vec<HOp>,
    pub forget: u16,
    pub pairing: Pairing,
    pub edits_a: Vec<Edit>,
    pub edits_b: Vec<Edit>,
    pub prune: PruneCfg,
    /// positions (scaled) at which B is parked; B also always runs once without being parked
    pub js: Vec<u16>,
    /// thorough: enumerate every j instead of the generated ones
    #[serde(default)]
    pub all_j: bool,
    /// pre-state continues after the forget: a non-instant prune marks the unused packs and this
    /// many hours pass — the repository then holds marked packs whose keep-delete time is over
    #[serde(default)]
    pub aged: Option<u16>,
    /// with `aged`: the hours pass WITHOUT a marking prune before them — the packs are old but not
    /// marked when the overlap starts
    #[serde(default)]
    pub age_unmarked: bool,
    /// the overlapping prune command is two prune runs in a row
    #[serde(default)]
    pub prune_twice: bool,
}

fn strategy(ctx: &Ctx) -> BoxedStrategy<Case> {
    let thorough = ctx.tier.is_thorough();
    repo_cfg()
        .prop_flat_map(move |cfg| {
            let mut p = super::c07::params(&cfg);
            p.file_cap = 40_000;
            p.max_children = 3;
            p.depth = 2;
            (
                Just(cfg),
                tree(p),
                prop::collection::vec(
                    hop(p, false).prop_filter("backups only", |o| matches!(o, HOp::Backup { .. })),
                    1..3,
                ),
                any::<u16>(),
                prop_oneof![Just(Pairing::BackupPrune), Just(Pairing::PruneBackup), Just(Pairing::BackupBackup)],
                prop::collection::vec(edit(p), 0..3),
                prop::collection::vec(edit(p), 0..3),
                prune_cfg(),
                prop::collection::vec(any::<u16>(), 3),
                Just(thorough),
                prop::option::weighted(0.5, prop_oneof![1 => Just(1u16), 2 => Just(24u16), 5 => 24u16..2000]),
                (any::<bool>(), prop::bool::weighted(0.5)),
            )
        })
        .prop_map(|(cfg, tree, pre, forget, pairing, edits_a, edits_b, mut prune, js, all_j, aged, (age_unmarked, prune_twice))| {
            // the overlapping prune is a non-instant one whose keep-delete exceeds any backup here
            // (early-delete-index stays as generated: without instant-delete it must have no effect)
            prune.instant_delete = false;
            prune.keep_delete_23h = true;
            Case {
                cfg,
                tree,
                pre,
                forget,
                pairing,
                edits_a,
                edits_b,
                prune,
                js,
                all_j,
                aged,
                age_unmarked,
                prune_twice,
            }
        })
        .boxed()
}

#[derive(Clone)]
enum Cmd {
    Backup { tree: MNode, time: i64 },
    Prune(PruneCfg),
    /// two prune runs in a row (what the first one marks must survive the second)
    PruneTwice(PruneCfg),
}

/// Each of the two overlapping commands gets its own rayon pool. The library uses the pool of the
/// calling thread (`rayon::spawn`, parallel iterators); in one shared pool a worker that waits
/// inside A's job steals B's job and, when that parks at B's gate, A can never finish: a deadlock
/// of the harness, not of two real processes.
fn pool(which: usize) -> &'static rayon::ThreadPool {
    static POOLS: std::sync::OnceLock<[rayon::ThreadPool; 2]> = std::sync::OnceLock::new();
    &POOLS.get_or_init(|| {
        let mk = |n: &str| {
            let n = n.to_string();
            rayon::ThreadPoolBuilder::new()
                .num_threads(12)
                .thread_name(move |i| format!("c10-pool-{n}-{i}"))
                .build()
                .expect("rayon pool")
        };
        [mk("A"), mk("B")]
    })[which]
}

fn run_cmd_in(which: usize, cmd: &Cmd, be: MemBackend, cfg: &RepoCfg) -> Result<Option<SnapshotFile>, String> {
    pool(which).install(|| run_cmd(cmd, be, cfg))
}

fn run_cmd(cmd: &Cmd, be: MemBackend, cfg: &RepoCfg) -> Result<Option<SnapshotFile>, String> {
    let r = guarded(|| -> Result<Option<SnapshotFile>, String> {
        match cmd {
            Cmd::Backup { tree, time } => {
                let repo = open_repo(be, cfg)?.to_indexed_ids().map_err(|e| estr(&e))?;
                backup_tree(&repo, tree, &ReadSchedule::default(), &force_opts(), snap_template(*time, "host", "", "")).map(Some)
            }
            Cmd::Prune(p) | Cmd::PruneTwice(p) => {
                for _ in 0..(if matches!(cmd, Cmd::PruneTwice(_)) { 2 } else { 1 }) {
                    let repo = open_repo(be.clone(), cfg)?;
                    let opts = p.options(cfg);
                    let plan = repo.prune_plan(&opts).map_err(|e| format!("prune_plan: {}", estr(&e)))?;
                    repo.prune(&opts, plan).map_err(|e| format!("prune: {}", estr(&e)))?;
                }
                Ok(None)
            }
        }
    });
    match r {
        Ok(x) => x,
        Err(p) => Err(format!("panicked: {p}")),
    }
}

struct Overlap {
    res_a: Result<Option<SnapshotFile>, String>,
    res_b: Result<Option<SnapshotFile>, String>,
    a_parked: bool,
    b_parked: bool,
}

/// A parked before its k-th backend call; B runs fully (j = None) or is parked before its j-th call
/// while A finishes.
fn overlap(storage: &Arc<Storage>, cfg: &RepoCfg, a: &Cmd, b: &Cmd, k: usize, j: Option<usize>) -> Overlap {
    let be_a = storage.handle();
    be_a.control(|c| c.gate_at = Some(k));
    let done_a = Arc::new(AtomicBool::new(false));
    let (cfg_a, a2, be_a2, done_a2) = (cfg.clone(), a.clone(), be_a.clone(), done_a.clone());
    let th_a = std::thread::Builder::new()
        .name("c10-A".into())
        .stack_size(16 << 20)
        .spawn(move || {
            let r = run_cmd_in(0, &a2, be_a2, &cfg_a);
            done_a2.store(true, Ordering::SeqCst);
            r
        })
        .expect("spawn A");
    let a_parked = be_a.wait_parked(|| done_a.load(Ordering::SeqCst));

    let be_b = storage.handle();
    let mut b_parked = false;
    let res_b;
    match j {
        None => {
            res_b = run_cmd_in(1, b, be_b, cfg);
            be_a.release();
        }
        Some(j) => {
            be_b.control(|c| c.gate_at = Some(j));
            let done_b = Arc::new(AtomicBool::new(false));
            let (cfg_b, b2, be_b2, done_b2) = (cfg.clone(), b.clone(), be_b.clone(), done_b.clone());
            let th_b = std::thread::Builder::new()
                .name("c10-B".into())
                .stack_size(16 << 20)
                .spawn(move || {
                    let r = run_cmd_in(1, &b2, be_b2, &cfg_b);
                    done_b2.store(true, Ordering::SeqCst);
                    r
                })
                .expect("spawn B");
            b_parked = be_b.wait_parked(|| done_b.load(Ordering::SeqCst));
            // A finishes while B is parked
            be_a.release();
            while !done_a.load(Ordering::SeqCst) {
                std::thread::sleep(std::time::Duration::from_micros(200));
            }
            be_b.release();
            res_b = th_b.join().unwrap_or_else(|_| Err("thread B died".into()));
        }
    }
    be_a.release();
    let res_a = th_a.join().unwrap_or_else(|_| Err("thread A died".into()));
    Overlap {
        res_a,
        res_b,
        a_parked,
        b_parked,
    }
}

fn verify_all(storage: &Arc<Storage>, cfg: &RepoCfg, snaps: &[(SnapshotFile, Arc<Flat>)]) -> Result<(), String> {
    let want: BTreeSet<[u8; 32]> = snaps.iter().map(|(s, _)| id_bytes(&s.id)).collect();
    let have: BTreeSet<[u8; 32]> = storage.ids(FileType::Snapshot).iter().map(id_bytes).collect();
    if want != have {
        return Err(format!("{} snapshot files exist, {} snapshots were created and not forgotten", have.len(), want.len()));
    }
    let full = open_full(storage, cfg)?;
    for (s, m) in snaps {
        let got = read_snapshot(&full, s, true).map_err(|e| format!("snapshot {} cannot be read: {e}", s.id))?;
        if let Some(d) = compare(m, &got, &CmpOpts { full_meta: true, content: true }) {
            return Err(format!("snapshot {}: {d}", s.id));
        }
    }
    Ok(())
}

pub fn run(c: &Case, _ctx: &Ctx) -> Outcome {
    let mut out = Outcome::pass().class(format!("{:?}", c.pairing));
    macro_rules! fail {
        ($($arg:tt)*) => {{
            out.failure = Some(format!($($arg)*));
            return out;
        }};
    }
    // pre-state: backups, then forget one snapshot (so that a prune has something to do)
    let mut w = match World::new(&c.cfg, &c.tree) {
        Ok(w) => w,
        Err(e) => fail!("{e}"),
    };
    let first = HOp::Backup { edits: vec![], parent: false };
    for op in std::iter::once(&first).chain(c.pre.iter()) {
        if let Err(e) = w.step(op) {
            fail!("pre-state: {e}");
        }
    }
    if let Err(e) = w.step(&HOp::Forget { sel: vec![c.forget] }) {
        fail!("pre-state: {e}");
    }
    if let Some(hours) = c.aged {
        let mut mark = c.prune.clone();
        mark.instant_delete = false;
        mark.keep_delete_23h = true;
        let ops = if c.age_unmarked { vec![HOp::Age { hours }] } else { vec![HOp::Prune(mark), HOp::Age { hours }] };
        for op in ops {
            if let Err(e) = w.step(&op) {
                fail!("pre-state: {e}");
            }
        }
        out = out
            .class_if(hours >= 24 && !c.age_unmarked, "marked_packs_past_keep_delete_in_pre_state")
            .class_if(hours >= 24 && c.age_unmarked, "unmarked_packs_older_than_keep_delete_in_pre_state");
    }
    // packs marked for deletion in the pre-state whose keep-delete time (23 h) is over
    let expired_marks: BTreeSet<Id> = if c.aged.is_some_and(|h| h >= 23) {
        match w.index() {
            Ok(v) => v.marked.keys().map(crate::inspect::to_id).collect(),
            Err(e) => fail!("pre-state: {e}"),
        }
    } else {
        BTreeSet::new()
    };
    let base: Files = w.storage.files();
    let pre: Vec<(SnapshotFile, Arc<Flat>)> = w.live.iter().map(|l| (l.snap.clone(), l.model.clone())).collect();
    let mut tree_a = w.tree.clone();
    for e in &c.edits_a {
        _ = apply_edit(&mut tree_a, e, 5001);
    }
    let mut tree_b = w.tree.clone();
    for e in &c.edits_b {
        _ = apply_edit(&mut tree_b, e, 5002);
    }
    let prune_cmd = |p: PruneCfg| if c.prune_twice { Cmd::PruneTwice(p) } else { Cmd::Prune(p) };
    let (a, b) = match c.pairing {
        Pairing::BackupPrune => (Cmd::Backup { tree: tree_a.clone(), time: w.clock + 100 }, prune_cmd(c.prune.clone())),
        Pairing::PruneBackup => (prune_cmd(c.prune.clone()), Cmd::Backup { tree: tree_b.clone(), time: w.clock + 200 }),
        Pairing::BackupBackup => (
            Cmd::Backup { tree: tree_a.clone(), time: w.clock + 100 },
            Cmd::Backup { tree: tree_b.clone(), time: w.clock + 200 },
        ),
    };
    let model_of = |cmd: &Cmd| match cmd {
        Cmd::Backup { tree, .. } => Some(Arc::new(flatten(tree))),
        Cmd::Prune(_) | Cmd::PruneTwice(_) => None,
    };
    // number of backend calls of B when run alone (to scale the generated j positions)
    let n_b = {
        let st = Storage::from_files(base.clone());
        let be = st.handle();
        if let Err(e) = run_cmd(&b, be.clone(), &c.cfg) {
            fail!("command B alone on the pre-state: {e}");
        }
        be.control(|ctl| ctl.ops_seen)
    };
    let mut js: Vec<Option<usize>> = vec![None];
    if c.all_j {
        js.extend((0..n_b).map(Some));
    } else {
        js.extend(c.js.iter().map(|j| Some(pick_idx(*j, n_b.max(1)))));
    }
    let follow_up = PruneCfg {
        max_unused: Lim::Unlimited,
        max_repack: Lim::Unlimited,
        keep_pack_1h: false,
        keep_delete_23h: false,
        instant_delete: false,
        early_delete_index: false,
        fast_repack: false,
        repack_all: false,
        repack_uncompressed: false,
        no_resize: true,
        repack_cacheable_only: None,
    };
    let key = c.cfg.key64();
    let mut schedules = 0u64;
    let mut interesting = 0u64;
    let mut failed_cmds = 0u64;
    let (mut t_overlap, mut t_follow, mut t_verify, mut t_check) = (std::time::Duration::ZERO, std::time::Duration::ZERO, std::time::Duration::ZERO, std::time::Duration::ZERO);
    // backend calls of A when run alone: the positions at which A can be parked
    let n_a = {
        let st = Storage::from_files(base.clone());
        let be = st.handle();
        if let Err(e) = run_cmd(&a, be.clone(), &c.cfg) {
            fail!("command A alone on the pre-state: {e}");
        }
        be.control(|ctl| ctl.ops_seen)
    };
    // every position; for very long commands the quick tier takes an even sample of 40 positions
    // (first and last included), the thorough tier enumerates all of them
    let ks: Vec<usize> = if c.all_j || n_a <= 40 {
        (0..n_a).collect()
    } else {
        (0..40).map(|i| i * (n_a - 1) / 39).collect()
    };
    out = out.class_if(ks.len() < n_a, "positions_sampled");
    let mut k_done = 0usize;
    for k in ks {
        k_done += 1;
        let mut a_ever_parked = false;
        for j in &js {
            let st = Storage::from_files(base.clone());
            let packs_before: BTreeSet<Id> = st.ids(FileType::Pack).into_iter().collect();
            let t0 = std::time::Instant::now();
            let ov = overlap(&st, &c.cfg, &a, &b, k, *j);
            t_overlap += t0.elapsed();
            schedules += 1;
            a_ever_parked |= ov.a_parked;
            let tag = format!(
                "{:?}, A parked before its call #{k}{}",
                c.pairing,
                match j {
                    None => ", B ran completely meanwhile".to_string(),
                    Some(j) => format!(", B parked before its call #{j} while A finished{}", if ov.b_parked { "" } else { " (B ended earlier)" }),
                }
            );
            let mut snaps = pre.clone();
            for (cmd, res) in [(&a, &ov.res_a), (&b, &ov.res_b)] {
                match res {
                    // Without locks a command may find a file it listed removed by the other one
                    // and give up with an error: the statement promises that no snapshot loses
                    // data, not that both commands succeed. A panic is not an orderly error.
                    Err(e) if e.starts_with("panicked") => fail!("[{tag}] a command panicked: {e}"),
                    Err(_) => {
                        failed_cmds += 1;
                        // a failed backup must not leave a snapshot behind that is not in the model:
                        // verify_all compares the snapshot file set below
                    }
                    Ok(Some(s)) => snaps.push((s.clone(), model_of(cmd).unwrap())),
                    Ok(None) => {}
                }
            }
            let prune_involved = c.pairing != Pairing::BackupBackup;
            if prune_involved {
                // packs the overlapping (non-instant, keep-delete 23 h) prune marks must still exist
                let now: BTreeSet<Id> = st.ids(FileType::Pack).into_iter().collect();
                // (packs that were already marked in the pre-state and have waited out the
                // keep-delete time may go)
                if let Some(gone) = packs_before.difference(&now).find(|g| !expired_marks.contains(*g)) {
                    fail!("[{tag}] pack {gone:?} was removed by a non-instant prune with keep-delete 23h");
                }
                // is this schedule one where the backup used blobs of packs the prune marked?
                if let Ok(view) = index_view(&st, &key) {
                    if let Some((s, _)) = snaps.last() {
                        let blobs_in_marked: BTreeSet<_> = view.marked.values().flatten().copied().collect();
                        if !blobs_in_marked.is_empty() {
                            // reachable() fails if blobs are only in marked packs: that is exactly the interesting case
                            match reachable(&st, &key, &view, &id_bytes(&s.tree)) {
                                Err(_) => interesting += 1,
                                Ok(r) => {
                                    if r.iter().any(|b| blobs_in_marked.contains(b) && b.0 == BType::Data) {
                                        interesting += 1;
                                    }
                                }
                            }
                        }
                    }
                }
                // follow-up prune, then everything must be there
                let be = st.handle();
                let t0 = std::time::Instant::now();
                let r = run_cmd(&Cmd::Prune(follow_up.clone()), be, &c.cfg);
                t_follow += t0.elapsed();
                if let Err(e) = r {
                    fail!("[{tag}] the follow-up prune failed: {e}");
                }
            }
            let t0 = std::time::Instant::now();
            let vr = verify_all(&st, &c.cfg, &snaps);
            t_verify += t0.elapsed();
            if let Err(e) = vr {
                fail!("[{tag}]{} {e}", if prune_involved { " after the follow-up prune:" } else { "" });
            }
            // pack data is read by check once per position (with B run completely), otherwise the
            // structural check
            let t0 = std::time::Instant::now();
            let cv = open_repo(st.handle(), &c.cfg).map(|r| check_verdict(&r, j.is_none()));
            t_check += t0.elapsed();
            match cv {
                Ok(CheckVerdict::Errors(e)) => fail!("[{tag}] {e}"),
                Err(e) => fail!("[{tag}] {e}"),
                _ => {}
            }
        }
        if !a_ever_parked {
            break; // this run of A issued fewer backend calls than the solo run
        }
    }
    let k = k_done;
    if std::env::var_os("VP_DEBUG").is_some() {
        eprintln!("C10 debug: n_a={n_a} n_b={n_b} schedules={schedules} t_overlap={t_overlap:?} t_followup={t_follow:?} t_verify={t_verify:?} t_check={t_check:?}");
    }
    out.nontrivial = interesting > 0 || c.pairing == Pairing::BackupBackup;
    out.count("schedules", schedules)
        .count("schedules_backup_uses_marked_pack", interesting)
        .count("positions_k", k as u64)
        .count("commands_that_gave_up_with_an_error", failed_cmds)
}

pub fn spec() -> PropSpec {
    PropSpec {
        id: "C10",
        level: "exploration",
        rule: "proptest generates (configuration, source tree, pre-state of 2–3 backups followed by a forget, pairing backup‖prune / prune‖backup / backup‖backup, edit scripts for the new backups, options of the overlapping prune — always non-instant with keep-delete 23 h). For each case the schedules are enumerated: command A is parked before its k-th backend call for EVERY k (reads and listings included), and for each k command B runs completely or is parked before 3 generated positions of its own call sequence (all positions in the thorough tier) while A finishes. Counter `schedules` = schedules executed and judged. Non-trivial = a schedule in which the backup's snapshot references a blob of a pack that the overlapping prune marked (counter), or backup‖backup; distinct by hash of the case.",
        assumptions: vec![
            "interleavings inside a single backend call and among the worker threads of one command are not controlled",
            "keep-delete of the overlapping prune (23 h) exceeds the duration of the backup; the follow-up prune uses keep-delete 0",
            "a parked backend call may occupy one rayon worker; a harness-side deadlock would end in exit code 2 via the watchdog, never in a violation",
        ],
        subs: vec![Box::new(Sub {
            name: "schedules",
            cases_quick: 64,
            cases_thorough: 150,
            max_shrink_iters: 30,
            strategy,
            run,
        }) as Box<dyn DynSub>],
        extra: None,
    }
}
