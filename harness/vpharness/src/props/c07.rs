//! C07 — Identical content is stored once; unchanged data adds nothing.
//!
//! Generated: (configuration, source tree, rounds of edit scripts). Between consecutive backups
//! the index is reloaded. Oracle: the exact upload set `N \ K` — N = blobs the new snapshot
//! references (trees from the listing, file chunks *predicted by the reference chunker* on the model
//! content), K = blobs in the index before the backup (decoded independently) — compared with the
//! blobs found in the packs the backup wrote (decoded independently).

use std::collections::{BTreeMap, BTreeSet};

use proptest::prelude::*;
use rustic_core::BackupOptions;
use serde::{Deserialize, Serialize};
use vpcore::{
    chunkref::{fixed_chunks, ref_chunks},
    fmt::{BType, Id32, sha256},
};

use crate::{
    engine::{Ctx, DynSub, Outcome, PropSpec, Sub},
    r#gen::{Edit, TreeParams, apply_edit, edit, tree},
    inspect::{BlobKey, index_view, pack_ids, pack_info},
    membe::{Storage, id_bytes},
    model::{FlatKind, MNode, ReadSchedule, flatten},
    repo::{
        ChunkerCfg, CmpOpts, RepoCfg, backup_tree, check_repo, compare, force_opts, init_repo,
        open_full, open_ids, read_snapshot, repo_cfg, show_path, snap_template,
    },
};

#[derive(Debug, Clone, Serialize, Deserialize)]
pub struct Case {
    pub cfg: RepoCfg,
    pub tree: MNode,
    /// one entry per further backup; an empty script = unchanged source
    pub rounds: Vec<Vec<Edit>>,
    /// use a parent snapshot (default options) instead of `force`
    pub with_parent: bool,
}

pub fn params(cfg: &RepoCfg) -> TreeParams {
    TreeParams {
        unit: cfg.unit(),
        file_cap: 400_000,
        max_children: 4,
        depth: 3,
    }
}

fn strategy(_ctx: &Ctx) -> BoxedStrategy<Case> {
    repo_cfg()
        .prop_flat_map(|cfg| {
            let p = params(&cfg);
            (
                Just(cfg),
                tree(p),
                prop::collection::vec(
                    prop_oneof![
                        1 => Just(Vec::new()),
                        4 => prop::collection::vec(edit(p), 1..4),
                    ],
                    1..4,
                ),
                any::<bool>(),
            )
        })
        .prop_map(|(cfg, tree, rounds, with_parent)| Case {
            cfg,
            tree,
            rounds,
            with_parent,
        })
        .boxed()
}

/// chunk ids the reference chunker predicts for `data` under `cfg`
pub fn predicted_chunks(cfg: &RepoCfg, data: &[u8]) -> Vec<Id32> {
    let lens = match cfg.chunker {
        ChunkerCfg::Fixed { size } => fixed_chunks(data.len(), size as usize),
        _ => {
            let (avg, min, max) = cfg.rabin_params().unwrap();
            let tab = super::c06::table(cfg.poly);
            ref_chunks(data, &tab, avg, min, max).lens
        }
    };
    let mut out = Vec::with_capacity(lens.len());
    let mut pos = 0;
    for l in lens {
        out.push(sha256(&data[pos..pos + l]));
        pos += l;
    }
    out
}

pub fn run(c: &Case, _ctx: &Ctx) -> Outcome {
    let storage = Storage::new();
    let key = c.cfg.key64();
    let mut out = Outcome::pass();
    macro_rules! fail {
        ($($arg:tt)*) => {{
            out.failure = Some(format!($($arg)*));
            return out;
        }};
    }
    if let Err(e) = init_repo(storage.handle(), &c.cfg) {
        fail!("{e}");
    }
    let mut tree = c.tree.clone();
    let mut prev_tree_id: Option<String> = None;
    let mut interesting = false;
    let mut dup_uploads = 0u64;

    // round 0 = initial backup, then one backup per edit script
    let mut scripts: Vec<Option<&Vec<Edit>>> = vec![None];
    scripts.extend(c.rounds.iter().map(Some));
    for (round, script) in scripts.iter().enumerate() {
        let mut unchanged = false;
        if let Some(script) = script {
            let before = flatten(&tree);
            let tree_before = tree.clone();
            let chunks_before: BTreeMap<Vec<u8>, usize> = before
                .iter()
                .filter_map(|(k, e)| match &e.kind {
                    FlatKind::File(b) => Some((k.clone(), predicted_chunks(&c.cfg, b).len())),
                    _ => None,
                })
                .collect();
            for e in script.iter() {
                let eff = apply_edit(&mut tree, e, 1000 + round as i64);
                if eff.structural && matches!(e, Edit::Duplicate(..) | Edit::Move(..)) {
                    interesting = true;
                }
                if eff.content_changed
                    && matches!(e, Edit::Insert(..) | Edit::Delete(..) | Edit::Prepend(..) | Edit::Overwrite(..))
                    && chunks_before.values().any(|n| *n >= 4)
                {
                    interesting = true;
                }
            }
            // compare the full model (incl. ctime, which the flat view does not carry)
            unchanged = tree == tree_before;
        }
        let model = flatten(&tree);

        // K: what the index holds before this backup (independent decoder)
        let view_before = match index_view(&storage, &key) {
            Ok(v) => v,
            Err(e) => fail!("round {round}: cannot decode the index: {e}"),
        };
        let known: BTreeSet<BlobKey> = view_before.blobs.keys().copied().collect();
        let packs_before = pack_ids(&storage);
        let index_files_before = view_before.files.len();

        // the index is reloaded for every backup
        let repo = match open_ids(&storage, &c.cfg) {
            Ok(r) => r,
            Err(e) => fail!("round {round}: {e}"),
        };
        let opts: BackupOptions = if c.with_parent { BackupOptions::default() } else { force_opts() };
        let snap = match backup_tree(
            &repo,
            &tree,
            &ReadSchedule::default(),
            &opts,
            snap_template(1_700_000_000 + round as i64 * 100, "host", "", ""),
        ) {
            Ok(s) => s,
            Err(e) => fail!("round {round}: {e}"),
        };
        drop(repo);

        // what was uploaded: blobs in the packs this backup wrote (independent decoder)
        let packs_after = pack_ids(&storage);
        let mut uploaded: Vec<BlobKey> = Vec::new();
        for p in packs_after.difference(&packs_before) {
            match pack_info(&storage, &key, p) {
                Ok(info) => uploaded.extend(info.entries.iter().map(|e| (e.tpe, e.id))),
                Err(e) => fail!("round {round}: {e}"),
            }
        }
        let uploaded_set: BTreeSet<BlobKey> = uploaded.iter().copied().collect();
        dup_uploads += (uploaded.len() - uploaded_set.len()) as u64;

        // N: what the new snapshot references
        let full = match open_full(&storage, &c.cfg) {
            Ok(r) => r,
            Err(e) => fail!("round {round}: {e}"),
        };
        let got = match read_snapshot(&full, &snap, true) {
            Ok(g) => g,
            Err(e) => fail!("round {round}: backup returned Ok but the snapshot cannot be read: {e}"),
        };
        if let Some(d) = compare(&model, &got, &CmpOpts { full_meta: true, content: true }) {
            fail!("round {round}: snapshot differs from the source: {d}");
        }
        let mut needed: BTreeSet<BlobKey> = BTreeSet::new();
        _ = needed.insert((BType::Tree, id_bytes(&snap.tree)));
        for (path, g) in &got {
            if let Some(st) = g.node.subtree {
                _ = needed.insert((BType::Tree, id_bytes(&st)));
            }
            if let FlatKind::File(bytes) = &model[path].kind {
                let predicted = predicted_chunks(&c.cfg, bytes);
                let recorded: Vec<Id32> = g
                    .node
                    .content
                    .as_ref()
                    .map(|v| v.iter().map(|d| id_bytes(d)).collect())
                    .unwrap_or_default();
                if recorded != predicted {
                    fail!(
                        "round {round}: file {:?} ({} bytes) is recorded with {} chunks, the chunker definition gives {}",
                        show_path(path),
                        bytes.len(),
                        recorded.len(),
                        predicted.len()
                    );
                }
                needed.extend(predicted.into_iter().map(|id| (BType::Data, id)));
            }
        }
        let expected: BTreeSet<BlobKey> = needed.difference(&known).copied().collect();
        if uploaded_set != expected {
            let missing: Vec<_> = expected.difference(&uploaded_set).take(3).collect();
            let surplus: Vec<_> = uploaded_set.difference(&expected).take(3).collect();
            fail!(
                "round {round}: uploaded blob set differs from (referenced \\ already indexed): {} expected, {} uploaded; not uploaded: {:?}; uploaded although already known or unreferenced: {:?}",
                expected.len(),
                uploaded_set.len(),
                missing.iter().map(|b| format!("{}:{}", b.0.as_str(), &hex::encode(b.1)[..8])).collect::<Vec<_>>(),
                surplus.iter().map(|b| format!("{}:{}", b.0.as_str(), &hex::encode(b.1)[..8])).collect::<Vec<_>>()
            );
        }
        // the index now lists exactly the new packs with exactly those blobs
        let view_after = match index_view(&storage, &key) {
            Ok(v) => v,
            Err(e) => fail!("round {round}: cannot decode the index after the backup: {e}"),
        };
        for b in &needed {
            if !view_after.blobs.contains_key(b) {
                fail!("round {round}: referenced {} blob {} is not in the index after the backup", b.0.as_str(), &hex::encode(b.1)[..8]);
            }
        }
        for p in packs_after.difference(&packs_before) {
            if !view_after.packs.contains_key(p) {
                fail!("round {round}: new pack {} is not listed by any index file", &hex::encode(p)[..8]);
            }
        }
        // summary counters
        if let Some(sum) = &snap.summary {
            let (d, t) = (
                uploaded.iter().filter(|b| b.0 == BType::Data).count() as u64,
                uploaded.iter().filter(|b| b.0 == BType::Tree).count() as u64,
            );
            if sum.data_blobs != d || sum.tree_blobs != t {
                fail!(
                    "round {round}: summary reports {} data / {} tree blobs added, the written packs hold {d} / {t}",
                    sum.data_blobs,
                    sum.tree_blobs
                );
            }
            if expected.is_empty() && sum.data_added != 0 {
                fail!("round {round}: nothing new was referenced but the summary reports data_added = {}", sum.data_added);
            }
        }
        // unchanged source: nothing at all is added and the tree id is the same
        if unchanged {
            if let Some(prev) = &prev_tree_id {
                if *prev != snap.tree.to_hex().to_string() {
                    fail!("round {round}: unchanged source produced a different tree id");
                }
            }
            if !uploaded.is_empty() || view_after.files.len() != index_files_before {
                fail!(
                    "round {round}: unchanged source added {} blobs and {} index files",
                    uploaded.len(),
                    view_after.files.len() - index_files_before
                );
            }
            out = out.class("noop_backup");
        }
        prev_tree_id = Some(snap.tree.to_hex().to_string());
        // typed identity: an id referenced both as tree and as data is indexed under both types
        let trees: BTreeSet<Id32> = needed.iter().filter(|b| b.0 == BType::Tree).map(|b| b.1).collect();
        if needed.iter().any(|b| b.0 == BType::Data && trees.contains(&b.1)) {
            out = out.class("tree_data_same_id");
            interesting = true;
        }
        if round + 1 == scripts.len() {
            if let Err(e) = check_repo(&full, true) {
                fail!("after the last backup: {e}");
            }
        }
    }
    out = out
        .class(if c.with_parent { "with_parent" } else { "forced" })
        .count("in_run_duplicate_uploads", dup_uploads);
    out.nontrivial = interesting;
    out
}

pub fn spec() -> PropSpec {
    PropSpec {
        id: "C07",
        level: "exploration",
        rule: "proptest: repository configuration (as C01) x source tree x 1–3 further backups, each after an edit script of 1–3 edits (insert/delete/overwrite/prepend/append at generated offsets, replace, duplicate file, move, rename, remove, add, touch, chmod, type change) or after no change at all; the index is reloaded before every backup; with a parent or forced. Non-trivial = an insert/delete/prepend/overwrite while some file has ≥4 chunks, or a duplicate/move, or an id referenced both as tree and as data; distinct by hash of the case.",
        assumptions: vec![
            "chunk ids are predicted with the reference chunker of C06 (from-scratch fingerprint); tree ids are taken from the library's listing and only their membership in the written packs is judged",
            "duplicate uploads of one blob inside a single run are allowed by the statement (they are counted in evidence, not judged)",
        ],
        subs: vec![Box::new(Sub {
            name: "dedup",
            cases_quick: 700,
            cases_thorough: 25_000,
            max_shrink_iters: 300,
            strategy,
            run,
        }) as Box<dyn DynSub>],
        extra: None,
    }
}
