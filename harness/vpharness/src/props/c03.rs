//! C03 — Every crash point or failed write leaves only fully readable snapshots.
//!
//! Generated: a pre-state (short history) and one command under test. The command is run once on
//! a recording backend to obtain its ordered log of storage-changing operations; then
//! * crash: for EVERY prefix length k the state "pre-state + first k operations" is materialised,
//! * fault: for EVERY k the command is re-run with its k-th storage-changing operation failing
//!   (not applied / applied but reported as failed),
//! and on each resulting state every visible snapshot must be completely readable through a fresh
//! handle, pre-existing snapshots must still hold their model content, and a command whose storage
//! operation failed must not report success.

use std::{collections::BTreeSet, sync::Arc};

use proptest::prelude::*;
use rustic_core::{
    BackupOptions, ConfigOptions, FileType, KeyOptions, RepairIndexOptions, RepairSnapshotsOptions,
    RewriteOptions, RewriteTreesOptions,
    repofile::{KeyId, SnapshotFile},
};
use serde::{Deserialize, Serialize};

use crate::{
    engine::{Ctx, DynSub, Outcome, PropSpec, Sub, guarded, pick_idx},
    r#gen::{Edit, apply_edit, edit, tree},
    history::{HOp, PruneCfg, World, hop, prune_cfg},
    inspect::{index_view, reachable, to_id},
    membe::{FailMode, Files, MemBackend, Storage, count_applied_mut, id_bytes, materialise_prefix},
    model::{Flat, MNode, ReadSchedule, flatten},
    repo::{
        CmpOpts, RepoCfg, backup_tree, compare, estr, force_opts, init_repo, open_full, open_ids,
        open_repo, read_snapshot, repo_cfg, snap_template,
    },
};

#[derive(Debug, Clone, Serialize, Deserialize, PartialEq, Eq)]
pub enum Cmd {
    Backup { edits: Vec<Edit>, parent: bool },
    /// copy all snapshots of a second repository (a variant of the tree) into this one
    CopyInto { edits: Vec<Edit> },
    Merge,
    Rewrite { forget: bool, sel: u16 },
    /// after losing one data pack (+ repair index), repair the snapshots
    RepairSnapshots { delete: bool, sel: u16 },
    /// repair the index; `damage`: 0 nothing, 1 an index file removed, 2 read-all
    RepairIndex { damage: u8, sel: u16 },
    Forget { sel: u16 },
    Prune(PruneCfg),
    ApplyConfig { compression: i32, extra_verify: bool },
    AddKey,
    DeleteKey,
}

#[derive(Debug, Clone, Serialize, Deserialize)]
pub struct Case {
    pub cfg: RepoCfg,
    pub tree: MNode,
    pub pre: Vec<HOp>,
    pub cmd: Cmd,
    /// latency seeds used to record further linearisations (thorough)
    pub lat: Vec<u64>,
}

fn strategy(ctx: &Ctx) -> BoxedStrategy<Case> {
    let thorough = ctx.tier.is_thorough();
    repo_cfg()
        .prop_flat_map(move |cfg| {
            let mut p = super::c07::params(&cfg);
            p.file_cap = 60_000;
            p.max_children = 3;
            let edits = || prop::collection::vec(edit(p), 0..3);
            let cmd = prop_oneof![
                4 => (edits(), any::<bool>()).prop_map(|(edits, parent)| Cmd::Backup { edits, parent }),
                2 => edits().prop_map(|edits| Cmd::CopyInto { edits }),
                1 => Just(Cmd::Merge),
                2 => (any::<bool>(), any::<u16>()).prop_map(|(forget, sel)| Cmd::Rewrite { forget, sel }),
                3 => (any::<bool>(), any::<u16>()).prop_map(|(delete, sel)| Cmd::RepairSnapshots { delete, sel }),
                3 => (0u8..3, any::<u16>()).prop_map(|(damage, sel)| Cmd::RepairIndex { damage, sel }),
                1 => any::<u16>().prop_map(|sel| Cmd::Forget { sel }),
                5 => prune_cfg().prop_map(|mut p| {
                    // the documented-unsafe combination (with instant-delete) is excluded; without
                    // instant-delete the option is documented to have no effect
                    if p.instant_delete {
                        p.early_delete_index = false;
                    }
                    Cmd::Prune(p)
                }),
                1 => (1i32..6, any::<bool>()).prop_map(|(compression, extra_verify)| Cmd::ApplyConfig { compression, extra_verify }),
                1 => Just(Cmd::AddKey),
                1 => Just(Cmd::DeleteKey),
            ];
            (
                Just(cfg),
                tree(p),
                prop::collection::vec(
                    hop(p, false).prop_map(|mut o| {
                        if let HOp::Prune(p) = &mut o {
                            if p.instant_delete {
                                p.early_delete_index = false;
                            }
                        }
                        o
                    }),
                    0..4,
                ),
                cmd,
                prop::collection::vec(any::<u64>(), if thorough { 2 } else { 1 }),
            )
        })
        .prop_map(|(cfg, tree, pre, cmd, lat)| Case { cfg, tree, pre, cmd, lat })
        .boxed()
}

#[derive(Clone)]
struct Env {
    cfg: RepoCfg,
    /// source repository for CopyInto (never disturbed)
    src: Option<(Arc<Storage>, RepoCfg, Vec<SnapshotFile>, Arc<Flat>)>,
    /// tree to back up for Cmd::Backup
    new_tree: MNode,
    snaps: Vec<SnapshotFile>,
    key_to_delete: Option<KeyId>,
    time: i64,
}

/// run the command under test through the handle `be`
fn run_cmd(cmd: &Cmd, be: &MemBackend, env: &Env) -> Result<(), String> {
    let r = guarded(|| -> Result<(), String> {
        match cmd {
            Cmd::Backup { parent, .. } => {
                let repo = open_repo(be.clone(), &env.cfg)?.to_indexed_ids().map_err(|e| estr(&e))?;
                let opts: BackupOptions = if *parent { BackupOptions::default() } else { force_opts() };
                backup_tree(&repo, &env.new_tree, &ReadSchedule::default(), &opts, snap_template(env.time, "host", "", "")).map(|_| ())
            }
            Cmd::CopyInto { .. } => {
                let (src, scfg, snaps, _) = env.src.as_ref().unwrap();
                let from = open_full(src, scfg)?;
                let to = open_repo(be.clone(), &env.cfg)?.to_indexed_ids().map_err(|e| estr(&e))?;
                from.copy(&to, snaps.iter()).map_err(|e| format!("copy: {}", estr(&e)))
            }
            Cmd::Merge => {
                let repo = open_repo(be.clone(), &env.cfg)?.to_indexed().map_err(|e| estr(&e))?;
                let cmp = |a: &rustic_core::repofile::Node, b: &rustic_core::repofile::Node| a.meta.mtime.cmp(&b.meta.mtime);
                repo.merge_snapshots(&env.snaps, &cmp, snap_template(env.time, "host", "", "merged"))
                    .map(|_| ())
                    .map_err(|e| format!("merge: {}", estr(&e)))
            }
            Cmd::Rewrite { forget, sel } => {
                let repo = open_repo(be.clone(), &env.cfg)?.to_indexed().map_err(|e| estr(&e))?;
                let mut topts = RewriteTreesOptions::default();
                // exclude one top-level entry of the source tree (plain names only), else everything named "a"
                let names: Vec<String> = env
                    .new_tree
                    .children()
                    .iter()
                    .filter_map(|c| String::from_utf8(c.name.clone()).ok())
                    .filter(|n| n.chars().all(|c| c.is_ascii_alphanumeric()))
                    .collect();
                let name = if names.is_empty() { "a".to_string() } else { names[pick_idx(*sel, names.len())].clone() };
                topts.excludes.globs = vec![format!("!{name}")];
                repo.rewrite_snapshots_and_trees(env.snaps.clone(), &RewriteOptions::default().forget(*forget), &topts)
                    .map(|_| ())
                    .map_err(|e| format!("rewrite: {}", estr(&e)))
            }
            Cmd::RepairSnapshots { delete, .. } => {
                let repo = open_repo(be.clone(), &env.cfg)?.to_indexed().map_err(|e| estr(&e))?;
                repo.repair_snapshots(&RepairSnapshotsOptions::default().delete(*delete), env.snaps.clone(), false)
                    .map_err(|e| format!("repair snapshots: {}", estr(&e)))
            }
            Cmd::RepairIndex { damage, .. } => {
                let repo = open_repo(be.clone(), &env.cfg)?;
                repo.repair_index(&RepairIndexOptions::default().read_all(*damage == 2), false)
                    .map_err(|e| format!("repair index: {}", estr(&e)))
            }
            Cmd::Forget { sel } => {
                let repo = open_repo(be.clone(), &env.cfg)?;
                if env.snaps.is_empty() {
                    return Ok(());
                }
                let id = env.snaps[pick_idx(*sel, env.snaps.len())].id;
                repo.delete_snapshots(&[id]).map_err(|e| format!("forget: {}", estr(&e)))
            }
            Cmd::Prune(p) => {
                let repo = open_repo(be.clone(), &env.cfg)?;
                let opts = p.options(&env.cfg);
                let plan = repo.prune_plan(&opts).map_err(|e| format!("prune_plan: {}", estr(&e)))?;
                repo.prune(&opts, plan).map_err(|e| format!("prune: {}", estr(&e)))
            }
            Cmd::ApplyConfig { compression, extra_verify } => {
                let mut repo = open_repo(be.clone(), &env.cfg)?;
                let mut o = ConfigOptions::default();
                if env.cfg.version >= 2 {
                    o.set_compression = Some(*compression);
                }
                o.set_extra_verify = Some(*extra_verify);
                o.set_treepack_size = Some(bytesize::ByteSize(12_345));
                repo.apply_config(&o).map(|_| ()).map_err(|e| format!("apply_config: {}", estr(&e)))
            }
            Cmd::AddKey => {
                let repo = open_repo(be.clone(), &env.cfg)?;
                repo.add_key("second password", &KeyOptions::default())
                    .map(|_| ())
                    .map_err(|e| format!("add_key: {}", estr(&e)))
            }
            Cmd::DeleteKey => {
                let repo = open_repo(be.clone(), &env.cfg)?;
                match &env.key_to_delete {
                    Some(id) => repo.delete_key(id).map_err(|e| format!("delete_key: {}", estr(&e))),
                    None => Ok(()),
                }
            }
        }
    });
    match r {
        Ok(x) => x,
        Err(p) => Err(format!("PANIC: {p}")),
    }
}

#[derive(Clone, Copy, PartialEq, Eq)]
enum Removal {
    /// the command never removes snapshots
    Never,
    /// the command removes snapshots without replacement (forget)
    Plain,
    /// a snapshot may disappear only when a replacement with the same time is present
    IfReplaced,
}

struct Expect<'a> {
    pre: &'a [(SnapshotFile, Arc<Flat>)],
    /// content a NEW snapshot must have, where the command defines it (backup, copy)
    new_models: Vec<Arc<Flat>>,
    removal: Removal,
}

/// the invariant on one materialised state
fn verify_state(files: Files, cfg: &RepoCfg, ex: &Expect<'_>) -> Result<usize, String> {
    let storage = Storage::from_files(files);
    let present: BTreeSet<[u8; 32]> = storage.ids(FileType::Snapshot).iter().map(id_bytes).collect();
    for (s, _) in ex.pre {
        if !present.contains(&id_bytes(&s.id)) && ex.removal == Removal::Never {
            return Err(format!("pre-existing snapshot {} disappeared", s.id));
        }
    }
    if present.is_empty() {
        // nothing visible: still the repository must open
        open_repo(storage.handle(), cfg).map_err(|e| format!("repository cannot be opened any more: {e}"))?;
        return Ok(0);
    }
    let full = open_full(&storage, cfg).map_err(|e| format!("snapshots are visible but the repository/index cannot be loaded: {e}"))?;
    let all = match guarded(|| full.get_all_snapshots()) {
        Ok(Ok(a)) => a,
        Ok(Err(e)) => return Err(format!("visible snapshot files cannot be read: {}", estr(&e))),
        Err(p) => return Err(format!("listing snapshots panicked: {p}")),
    };
    let key = cfg.key64();
    let view = index_view(&storage, &key).map_err(|e| format!("index unreadable: {e}"))?;
    for s in &all {
        let got = read_snapshot(&full, s, true).map_err(|e| format!("visible snapshot {} cannot be read completely: {e}", s.id))?;
        // cross-check with the independent reader: every referenced blob exists and hashes
        reachable(&storage, &key, &view, &id_bytes(&s.tree))
            .map_err(|e| format!("visible snapshot {}: {e}", s.id))?;
        if let Some((_, m)) = ex.pre.iter().find(|(p, _)| p.id == s.id) {
            if let Some(d) = compare(m, &got, &CmpOpts { full_meta: true, content: true }) {
                return Err(format!("pre-existing snapshot {} lost its content: {d}", s.id));
            }
        } else if !ex.new_models.is_empty() {
            let ok = ex
                .new_models
                .iter()
                .any(|m| compare(m, &got, &CmpOpts { full_meta: true, content: true }).is_none());
            if !ok {
                return Err(format!("new snapshot {} is readable but does not have the content the command was given", s.id));
            }
        }
    }
    if ex.removal == Removal::IfReplaced {
        for (s, _) in ex.pre {
            if !present.contains(&id_bytes(&s.id)) && !all.iter().any(|n| n.id != s.id && n.time == s.time) {
                return Err(format!("snapshot {} was removed but no replacement is visible", s.id));
            }
        }
    }
    Ok(all.len())
}

pub fn run(c: &Case, ctx: &Ctx) -> Outcome {
    let mut out = Outcome::pass();
    macro_rules! fail {
        ($($arg:tt)*) => {{
            out.failure = Some(format!($($arg)*));
            return out;
        }};
    }
    // ---- pre-state
    let mut w = match World::new(&c.cfg, &c.tree) {
        Ok(w) => w,
        Err(e) => fail!("{e}"),
    };
    let first = HOp::Backup { edits: vec![], parent: false };
    for op in std::iter::once(&first).chain(c.pre.iter()) {
        if let Err(e) = w.step(op) {
            fail!("building the pre-state: {e}");
        }
    }
    if w.live.is_empty() {
        if let Err(e) = w.step(&first) {
            fail!("building the pre-state: {e}");
        }
    }
    let key = c.cfg.key64();
    let mut env = Env {
        cfg: c.cfg.clone(),
        src: None,
        new_tree: w.tree.clone(),
        snaps: w.live.iter().map(|l| l.snap.clone()).collect(),
        key_to_delete: None,
        time: w.clock + 100,
    };
    let mut new_models: Vec<Arc<Flat>> = Vec::new();
    let mut removal = Removal::Never;
    // command-specific preparation of the pre-state
    match &c.cmd {
        Cmd::Backup { edits, .. } => {
            for e in edits {
                _ = apply_edit(&mut env.new_tree, e, 4242);
            }
            new_models.push(Arc::new(flatten(&env.new_tree)));
        }
        Cmd::CopyInto { edits } => {
            let mut scfg = c.cfg.clone();
            scfg.key_seed += 17;
            let src = Storage::new();
            if let Err(e) = init_repo(src.handle(), &scfg) {
                fail!("{e}");
            }
            let mut t = w.tree.clone();
            for e in edits {
                _ = apply_edit(&mut t, e, 777);
            }
            let snap = {
                let repo = match open_ids(&src, &scfg) {
                    Ok(r) => r,
                    Err(e) => fail!("{e}"),
                };
                match backup_tree(&repo, &t, &ReadSchedule::default(), &force_opts(), snap_template(1_650_000_000, "src", "", "")) {
                    Ok(s) => s,
                    Err(e) => fail!("{e}"),
                }
            };
            let m = Arc::new(flatten(&t));
            new_models.push(m.clone());
            env.src = Some((src, scfg, vec![snap], m));
        }
        Cmd::Rewrite { forget, .. } => {
            if *forget {
                removal = Removal::IfReplaced;
            }
        }
        Cmd::RepairSnapshots { delete, sel } => {
            // lose a data pack, repair the index (outside the command under test)
            if let Ok(view) = index_view(&w.storage, &key) {
                let mut packs: Vec<_> = view
                    .packs
                    .iter()
                    .filter(|(_, b)| !b.is_empty() && b.iter().all(|x| x.0 == vpcore::fmt::BType::Data))
                    .collect();
                packs.sort_by_key(|(_, b)| b.iter().map(|x| x.1).min());
                if !packs.is_empty() {
                    let victim = *packs[pick_idx(*sel, packs.len())].0;
                    _ = w.storage.del(FileType::Pack, &to_id(&victim));
                    if let Err(e) = crate::cmds::repair_index(&w.storage, &c.cfg, false, false) {
                        fail!("preparing the damaged pre-state: {e}");
                    }
                    out = out.class("damaged_before_repair");
                }
            }
            if *delete {
                removal = Removal::IfReplaced;
            }
        }
        Cmd::RepairIndex { damage, sel } => {
            if *damage == 1 {
                let ids = w.storage.ids(FileType::Index);
                if !ids.is_empty() {
                    _ = w.storage.del(FileType::Index, &ids[pick_idx(*sel, ids.len())]);
                }
            }
        }
        Cmd::Forget { .. } => removal = Removal::Plain,
        Cmd::DeleteKey => {
            let be = w.storage.handle();
            match guarded(|| open_repo(be, &c.cfg).and_then(|r| r.add_key("to be deleted", &KeyOptions::default()).map_err(|e| estr(&e)))) {
                Ok(Ok(id)) => env.key_to_delete = Some(id),
                Ok(Err(e)) => fail!("preparing a key: {e}"),
                Err(p) => fail!("preparing a key panicked: {p}"),
            }
        }
        _ => {}
    }
    // which pre-existing snapshots are expected to be readable: those that are readable now
    // (a lost pack makes some unreadable before the command under test even starts)
    let mut pre: Vec<(SnapshotFile, Arc<Flat>)> = Vec::new();
    {
        let full = match open_full(&w.storage, &c.cfg) {
            Ok(f) => f,
            Err(e) => fail!("pre-state: {e}"),
        };
        for l in &w.live {
            if let Ok(got) = read_snapshot(&full, &l.snap, true) {
                if compare(&l.model, &got, &CmpOpts { full_meta: true, content: true }).is_none() {
                    pre.push((l.snap.clone(), l.model.clone()));
                }
            }
        }
    }
    let damaged_pre = pre.len() != w.live.len();
    let base: Files = w.storage.files();
    let ex = Expect {
        pre: &pre,
        new_models,
        removal,
    };
    // with a damaged pre-state the damaged snapshots are visible but unreadable from the start:
    // the invariant is then judged on the snapshots that were readable before the command
    let judge = |files: Files| -> Result<usize, String> {
        if damaged_pre {
            verify_damaged(files, &c.cfg, &ex, &w)
        } else {
            verify_state(files, &c.cfg, &ex)
        }
    };

    // ---- record (one or more linearisations)
    let mut logs: Vec<Vec<crate::membe::Op>> = Vec::new();
    let mut seeds: Vec<Option<u64>> = vec![None];
    seeds.extend(c.lat.iter().copied().map(Some));
    for seed in seeds {
        let st = Storage::from_files(base.clone());
        let be = st.handle();
        if let Some(s) = seed {
            be.control(|ctl| ctl.latency = Some((s, 300, 1500)));
        }
        if let Err(e) = run_cmd(&c.cmd, &be, &env) {
            fail!("the command under test fails on an undisturbed backend: {e}");
        }
        let log: Vec<_> = st.log.snapshot().into_iter().filter(|o| o.kind.mutating() && o.applied).collect();
        if let Err(e) = judge(st.files()) {
            fail!("after the complete, undisturbed command: {e}");
        }
        let sig: Vec<_> = log.iter().map(|o| (o.kind, o.tpe, o.id)).collect();
        if !logs.iter().any(|l: &Vec<crate::membe::Op>| l.iter().map(|o| (o.kind, o.tpe, o.id)).collect::<Vec<_>>() == sig) {
            logs.push(log);
        }
    }
    let n = logs[0].len();
    out = out
        .class(format!("cmd_{}", cmd_name(&c.cmd)))
        .count("storage_ops", n as u64)
        .count("linearisations", logs.len() as u64);

    // ---- crash points: every prefix of every observed linearisation
    let mut states = 0u64;
    for log in &logs {
        for k in 0..=count_applied_mut(log) {
            let files = materialise_prefix(&base, log, k);
            states += 1;
            if let Err(e) = judge(files) {
                let op = log.get(k.saturating_sub(1));
                fail!(
                    "crash after {k} of {} storage operations of `{}` (last applied: {}): {e}",
                    log.len(),
                    cmd_name(&c.cmd),
                    op.map_or("none".to_string(), |o| format!("{:?} {} {:?}", o.kind, o.tpe, o.id))
                );
            }
        }
    }
    // ---- single faults
    let mut panics = 0u64;
    let quick_cap = if ctx.tier.is_thorough() { usize::MAX } else { 40 };
    for k in 0..n.min(quick_cap) {
        for mode in [FailMode::NotApplied, FailMode::AppliedButReported] {
            let st = Storage::from_files(base.clone());
            let be = st.handle();
            be.control(|ctl| ctl.fail_mut_at = Some((k, mode)));
            let res = run_cmd(&c.cmd, &be, &env);
            let hit = be.control(|ctl| ctl.fail_hit);
            states += 1;
            match res {
                Ok(()) if hit => {
                    let op = &logs[0][k.min(logs[0].len() - 1)];
                    fail!(
                        "`{}` reported success although its storage operation #{k} ({:?} {}) failed ({mode:?})",
                        cmd_name(&c.cmd),
                        op.kind,
                        op.tpe
                    );
                }
                Err(e) if e.starts_with("PANIC") => panics += 1,
                _ => {}
            }
            if let Err(e) = judge(st.files()) {
                fail!("after storage operation #{k} of `{}` failed ({mode:?}): {e}", cmd_name(&c.cmd));
            }
        }
    }
    out = out.count("states_checked", states).count("panics_on_fault", panics);
    out.nontrivial = n >= 3;
    out
}

/// variant of the invariant for a pre-state that already contains damaged snapshots: only the
/// snapshots that were readable before, and new ones, are judged
fn verify_damaged(files: Files, cfg: &RepoCfg, ex: &Expect<'_>, w: &World) -> Result<usize, String> {
    let storage = Storage::from_files(files);
    let full = open_full(&storage, cfg).map_err(|e| format!("repository/index cannot be loaded: {e}"))?;
    let all = match guarded(|| full.get_all_snapshots()) {
        Ok(Ok(a)) => a,
        Ok(Err(e)) => return Err(format!("visible snapshot files cannot be read: {}", estr(&e))),
        Err(p) => return Err(format!("listing snapshots panicked: {p}")),
    };
    let damaged: BTreeSet<_> = w
        .live
        .iter()
        .filter(|l| !ex.pre.iter().any(|(p, _)| p.id == l.snap.id))
        .map(|l| l.snap.id)
        .collect();
    for s in &all {
        if damaged.contains(&s.id) {
            continue;
        }
        let got = read_snapshot(&full, s, true).map_err(|e| format!("visible snapshot {} cannot be read completely: {e}", s.id))?;
        if let Some((_, m)) = ex.pre.iter().find(|(p, _)| p.id == s.id) {
            if let Some(d) = compare(m, &got, &CmpOpts { full_meta: true, content: true }) {
                return Err(format!("pre-existing snapshot {} lost its content: {d}", s.id));
            }
        }
    }
    for (s, _) in ex.pre {
        if !all.iter().any(|a| a.id == s.id) && ex.removal == Removal::Never {
            return Err(format!("pre-existing snapshot {} disappeared", s.id));
        }
    }
    Ok(all.len())
}

fn cmd_name(c: &Cmd) -> &'static str {
    match c {
        Cmd::Backup { .. } => "backup",
        Cmd::CopyInto { .. } => "copy",
        Cmd::Merge => "merge",
        Cmd::Rewrite { .. } => "rewrite",
        Cmd::RepairSnapshots { .. } => "repair-snapshots",
        Cmd::RepairIndex { .. } => "repair-index",
        Cmd::Forget { .. } => "forget",
        Cmd::Prune(_) => "prune",
        Cmd::ApplyConfig { .. } => "config",
        Cmd::AddKey => "add-key",
        Cmd::DeleteKey => "delete-key",
    }
}

pub fn spec() -> PropSpec {
    PropSpec {
        id: "C03",
        level: "fault_enumeration",
        rule: "proptest generates (configuration, source tree, pre-state history of 0–3 backup/forget/prune operations, command under test ∈ {backup with/without parent, copy into, merge, rewrite ±forget, repair snapshots ±delete after a pack loss, repair index (intact / index file missing / read-all), forget, prune with generated options except instant-delete+early-delete-index, config change, add key, delete key}); for each pair the command's storage-operation log is recorded (plus further linearisations under seeded latency) and then enumerated exhaustively: every prefix length (crash) and every single failing operation in two modes (not applied; applied but reported as failed; capped at the first 40 operations in the quick tier). Non-trivial = the command issues ≥3 storage-changing operations; distinct by hash of the case. `states_checked` in the sub counters is the number of materialised states judged.",
        assumptions: vec![
            "single storage operations are atomic (as the backends promise); torn writes are out of scope",
            "only observed linearisations of the command's concurrent writers are enumerated",
            "a panic after an injected failure counts as 'did not report success' and is tallied separately",
            "for commands whose new snapshot content is not given by the input (merge, rewrite, repair) a new snapshot must be completely readable (library reader and independent blob walk); for backup and copy it must equal the model",
        ],
        subs: vec![Box::new(Sub {
            name: "crashfault",
            cases_quick: 600,
            cases_thorough: 3000,
            max_shrink_iters: 60,
            strategy,
            run,
        }) as Box<dyn DynSub>],
        extra: None,
    }
}
