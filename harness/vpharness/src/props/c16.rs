//! C16 — Hot/cold repositories keep the hot copy complete at every moment.
//!
//! Generated: histories {backup, forget, prune with repacking, copy into, config change, key
//! add/remove, restore, repair index} on a hot/cold pair of in-memory stores that share one totally
//! ordered operation log; in half of the cases the cold store rejects (and records) reads of packs
//! that were not warmed up first. Then a generated subset of hot files is removed and the hot/cold
//! repair is run.
//! Oracles: (1) for EVERY prefix of the combined log: each key/snapshot/index file and tree pack
//! listed by the cold store exists in the hot store with identical bytes and no data pack is in the
//! hot store; (2) differential against the same history on a single store (tree ids, model content,
//! check verdict, reachable blobs); (3) no cold pack read without a preceding warm-up;
//! (4) repair restores invariant (1) and a normal open + check succeeds.

use std::{collections::BTreeSet, sync::Arc};

use proptest::prelude::*;
use rustic_core::{
    BackupOptions, ConfigOptions, Credentials, FileType, Id, KeyOptions, OpenStatus, Repository,
    RepositoryBackends, RestoreOptions, WriteBackend,
    repofile::{KeyId, SnapshotFile},
};
use serde::{Deserialize, Serialize};
use vpcore::fmt::{BType, parse_pack};

use crate::{
    engine::{Ctx, DynSub, Outcome, PropSpec, Sub, guarded, pick_idx},
    fsutil::{Scratch, walk},
    r#gen::{Edit, apply_edit, edit, tree},
    history::{PruneCfg, prune_cfg},
    inspect::{index_view, reachable},
    membe::{Files, MemBackend, Op, OpKind, OpLog, Storage, id_bytes, tidx},
    model::{Flat, MNode, ReadSchedule, flatten},
    repo::{
        CheckVerdict, CmpOpts, RepoCfg, backup_tree, check_verdict, compare, estr, force_opts, init_repo,
        open_ids, read_snapshot, repo_cfg, repo_opts, snap_template,
    },
    restore::{FsCmp, compare_fs, restore_snapshot},
};

#[derive(Debug, Clone, Serialize, Deserialize, PartialEq, Eq)]
pub enum Hc {
    Backup { edits: Vec<Edit>, parent: bool },
    Forget(u16),
    Prune(PruneCfg),
    /// copy a snapshot of a (single-store) source repository into the pair
    CopyInto { edits: Vec<Edit> },
    Config { compression: i32 },
    AddKey,
    DeleteKey,
    /// restore the selected snapshot to disk (reads data packs from the cold store)
    Restore(u16),
    /// restore snapshot `from`, remove the files picked by `drop` and (if `touch`) give the rest
    /// another mtime, then restore snapshot `sel` over it: the existing files are compared blob by
    /// blob and only the missing blobs are fetched, from packs that must still all be warmed up
    RestoreOver { sel: u16, from: u16, drop: u16, touch: bool },
    RepairIndex { read_all: bool },
}

#[derive(Debug, Clone, Serialize, Deserialize)]
pub struct Case {
    pub cfg: RepoCfg,
    pub tree: MNode,
    pub ops: Vec<Hc>,
    /// the cold store rejects reads of packs that were not warmed up
    pub strict_cold: bool,
    /// which hot files are removed before the repair (bit per file, cycled); 0xffff = all
    pub remove_mask: u16,
    pub remove_config: bool,
    /// only set in the committed witness of the known finding: also run check --read-data on the
    /// pair and judge it against the single store
    #[serde(default)]
    pub judge_read_data: bool,
}

fn strategy(_ctx: &Ctx) -> BoxedStrategy<Case> {
    repo_cfg()
        .prop_flat_map(|cfg| {
            let mut p = super::c07::params(&cfg);
            p.file_cap = 60_000;
            p.max_children = 3;
            let edits = || prop::collection::vec(edit(p), 0..3);
            let op = prop_oneof![
                5 => (edits(), any::<bool>()).prop_map(|(edits, parent)| Hc::Backup { edits, parent }),
                2 => any::<u16>().prop_map(Hc::Forget),
                4 => prune_cfg().prop_map(|mut p| {
                    if p.instant_delete {
                        p.early_delete_index = false;
                    }
                    Hc::Prune(p)
                }),
                1 => edits().prop_map(|edits| Hc::CopyInto { edits }),
                1 => (1i32..6).prop_map(|compression| Hc::Config { compression }),
                1 => Just(Hc::AddKey),
                1 => Just(Hc::DeleteKey),
                2 => any::<u16>().prop_map(Hc::Restore),
                3 => (any::<u16>(), any::<u16>(), any::<u16>(), prop::bool::weighted(0.8))
                    .prop_map(|(sel, from, drop, touch)| Hc::RestoreOver { sel, from, drop, touch }),
                1 => any::<bool>().prop_map(|read_all| Hc::RepairIndex { read_all }),
            ];
            (
                Just(cfg),
                tree(p),
                prop::collection::vec(op, 1..7),
                any::<bool>(),
                prop_oneof![1 => Just(0xffffu16), 3 => any::<u16>()],
                any::<bool>(),
            )
        })
        .prop_map(|(cfg, tree, ops, strict_cold, remove_mask, remove_config)| Case {
            cfg,
            tree,
            ops,
            strict_cold,
            remove_mask,
            remove_config,
            judge_read_data: false,
        })
        .boxed()
}

/// one repository: either a hot/cold pair or a single store
struct Repo {
    cfg: RepoCfg,
    cold: Arc<Storage>,
    hot: Option<Arc<Storage>>,
    tree: MNode,
    live: Vec<(SnapshotFile, Arc<Flat>)>,
    clock: i64,
    extra_key: Option<KeyId>,
}

impl Repo {
    fn backends(&self) -> RepositoryBackends {
        RepositoryBackends::new(
            Arc::new(self.cold.handle()) as Arc<dyn WriteBackend>,
            self.hot.as_ref().map(|h| Arc::new(h.handle()) as Arc<dyn WriteBackend>),
        )
    }

    fn new(cfg: &RepoCfg, tree: &MNode, pair: bool, strict_cold: bool) -> Result<Self, String> {
        let log = Arc::new(OpLog::default());
        let cold = Storage::with_log(log.clone(), 0);
        let hot = pair.then(|| Storage::with_log(log, 1));
        if pair && strict_cold {
            cold.enable_cold();
        }
        let r = Self {
            cfg: cfg.clone(),
            cold,
            hot,
            tree: tree.clone(),
            live: Vec::new(),
            clock: 1_700_000_000,
            extra_key: None,
        };
        let mut config = cfg.config_file();
        if pair {
            config.is_hot = Some(true);
        }
        let be = r.backends();
        guarded(|| {
            Repository::new(&repo_opts(), &be)
                .map_err(|e| estr(&e))?
                .init_with_config(&cfg.credentials(), &KeyOptions::default(), config)
                .map(|_| ())
                .map_err(|e| format!("init: {}", estr(&e)))
        })
        .map_err(|p| format!("init panicked: {p}"))??;
        Ok(r)
    }

    fn open(&self) -> Result<Repository<OpenStatus>, String> {
        Repository::new(&repo_opts(), &self.backends())
            .map_err(|e| estr(&e))?
            .open(&self.cfg.credentials())
            .map_err(|e| format!("open: {}", estr(&e)))
    }

    fn step(&mut self, op: &Hc) -> Result<(), String> {
        let r = guarded(|| self.step_inner(op));
        match r {
            Ok(x) => x,
            Err(p) => Err(format!("panicked: {p}")),
        }
    }

    fn step_inner(&mut self, op: &Hc) -> Result<(), String> {
        self.clock += 100;
        // every command starts with a cold store: a warm-up requested by an earlier command must
        // not excuse a missing request of this one
        self.cold.cool_down();
        match op {
            Hc::Backup { edits, parent } => {
                for e in edits {
                    _ = apply_edit(&mut self.tree, e, self.clock - 1_700_000_000);
                }
                let repo = self.open()?.to_indexed_ids().map_err(|e| estr(&e))?;
                let opts: BackupOptions = if *parent { BackupOptions::default() } else { force_opts() };
                let snap = backup_tree(&repo, &self.tree, &ReadSchedule::default(), &opts, snap_template(self.clock, "host", "", ""))?;
                self.live.push((snap, Arc::new(flatten(&self.tree))));
            }
            Hc::Forget(sel) => {
                if self.live.len() > 1 {
                    let i = pick_idx(*sel, self.live.len());
                    let (s, _) = self.live.remove(i);
                    self.open()?.delete_snapshots(&[s.id]).map_err(|e| format!("forget: {}", estr(&e)))?;
                }
            }
            Hc::Prune(p) => {
                let repo = self.open()?;
                let opts = p.options(&self.cfg);
                let plan = repo.prune_plan(&opts).map_err(|e| format!("prune_plan: {}", estr(&e)))?;
                repo.prune(&opts, plan).map_err(|e| format!("prune: {}", estr(&e)))?;
            }
            Hc::CopyInto { edits } => {
                let mut scfg = self.cfg.clone();
                scfg.key_seed += 31;
                let src = Storage::new();
                drop(init_repo(src.handle(), &scfg)?);
                let mut t = self.tree.clone();
                for e in edits {
                    _ = apply_edit(&mut t, e, 999);
                }
                let snap = {
                    let repo = open_ids(&src, &scfg)?;
                    backup_tree(&repo, &t, &ReadSchedule::default(), &force_opts(), snap_template(self.clock, "src", "", ""))?
                };
                let from = crate::repo::open_full(&src, &scfg)?;
                let to = self.open()?.to_indexed_ids().map_err(|e| estr(&e))?;
                let before: BTreeSet<Id> = self.cold.ids(FileType::Snapshot).into_iter().collect();
                from.copy(&to, [&snap]).map_err(|e| format!("copy: {}", estr(&e)))?;
                let all = self.open()?.get_all_snapshots().map_err(|e| estr(&e))?;
                for s in all {
                    if !before.contains(&Id::new(id_bytes(&s.id))) {
                        self.live.push((s, Arc::new(flatten(&t))));
                    }
                }
            }
            Hc::Config { compression } => {
                let mut repo = self.open()?;
                let mut o = ConfigOptions::default();
                if self.cfg.version >= 2 {
                    o.set_compression = Some(*compression);
                }
                o.set_datapack_size = Some(bytesize::ByteSize(20_000));
                _ = repo.apply_config(&o).map_err(|e| format!("apply_config: {}", estr(&e)))?;
            }
            Hc::AddKey => {
                if self.extra_key.is_none() {
                    let id = self.open()?.add_key("another password", &KeyOptions::default()).map_err(|e| format!("add_key: {}", estr(&e)))?;
                    self.extra_key = Some(id);
                }
            }
            Hc::DeleteKey => {
                if let Some(id) = self.extra_key.take() {
                    self.open()?.delete_key(&id).map_err(|e| format!("delete_key: {}", estr(&e)))?;
                }
            }
            Hc::Restore(sel) => {
                if !self.live.is_empty() {
                    let (s, m) = &self.live[pick_idx(*sel, self.live.len())];
                    let repo = self.open()?.to_indexed().map_err(|e| estr(&e))?;
                    let scratch = Scratch::new("c16");
                    let dest = scratch.path().join("d");
                    restore_snapshot(&repo, s, &dest, &RestoreOptions::default().no_ownership(true))?;
                    let fs = walk(&dest).map_err(|e| e.to_string())?;
                    if let Some(d) = compare_fs(m, &fs, &FsCmp { ownership: false, hardlinks: true, exact_set: true }) {
                        return Err(format!("restored tree differs from the source: {d}"));
                    }
                }
            }
            Hc::RestoreOver { sel, from, drop, touch } => {
                if !self.live.is_empty() {
                    let (s0, _) = &self.live[pick_idx(*from, self.live.len())];
                    let (s, m) = &self.live[pick_idx(*sel, self.live.len())];
                    let repo = self.open()?.to_indexed().map_err(|e| estr(&e))?;
                    let scratch = Scratch::new("c16");
                    let dest = scratch.path().join("d");
                    let opts = RestoreOptions::default().no_ownership(true);
                    restore_snapshot(&repo, s0, &dest, &opts)?;
                    let before = walk(&dest).map_err(|e| e.to_string())?;
                    for (i, (k, e)) in before.iter().enumerate() {
                        if !matches!(e.kind, crate::fsutil::FsKind::File(_)) {
                            continue;
                        }
                        let path = dest.join(crate::model::name_os(k));
                        if crate::model::splitmix(u64::from(*drop) ^ (i as u64).wrapping_mul(0x9E37_79B9)) % 3 == 0 {
                            std::fs::remove_file(&path).map_err(|e| e.to_string())?;
                        } else if *touch {
                            filetime::set_file_mtime(&path, filetime::FileTime::from_unix_time(1_234_567_890, 0))
                                .map_err(|e| e.to_string())?;
                        }
                    }
                    // what the first restore warmed up has cooled down again in the meantime
                    self.cold.cool_down();
                    restore_snapshot(&repo, s, &dest, &opts).map_err(|e| format!("restore over an existing destination: {e}"))?;
                    let fs = walk(&dest).map_err(|e| e.to_string())?;
                    if let Some(d) = compare_fs(m, &fs, &FsCmp { ownership: false, hardlinks: true, exact_set: false }) {
                        return Err(format!("tree restored over an existing destination differs from the source: {d}"));
                    }
                }
            }
            Hc::RepairIndex { read_all } => {
                let repo = self.open()?;
                repo.repair_index(&rustic_core::RepairIndexOptions::default().read_all(*read_all), false)
                    .map_err(|e| format!("repair_index: {}", estr(&e)))?;
            }
        }
        Ok(())
    }

    fn verify_snapshots(&self) -> Result<(), String> {
        // reading back is the oracle's business: it does not have to ask for warm-up
        self.cold.warm_everything();
        let r = self.verify_snapshots_inner();
        self.cold.cool_down();
        r
    }

    fn verify_snapshots_inner(&self) -> Result<(), String> {
        let repo = self.open()?.to_indexed().map_err(|e| format!("to_indexed: {}", estr(&e)))?;
        for (s, m) in &self.live {
            let got = read_snapshot(&repo, s, true)?;
            if let Some(d) = compare(m, &got, &CmpOpts { full_meta: true, content: true }) {
                return Err(format!("snapshot {}: {d}", s.id));
            }
        }
        Ok(())
    }
}

/// invariant (1) on a pair of file maps
fn hot_complete(cold: &Files, hot: &Files, key: &[u8; 64]) -> Result<(), String> {
    for ((t, id), data) in cold {
        let tpe = crate::membe::tfrom(*t);
        let must = match tpe {
            FileType::Key | FileType::Snapshot | FileType::Index => true,
            FileType::Pack => pack_is_tree(key, data),
            FileType::Config => false,
        };
        if must {
            match hot.get(&(*t, *id)) {
                None => return Err(format!("{tpe} file {id:?} is listed by the cold store but missing in the hot store")),
                Some(h) if h != data => return Err(format!("{tpe} file {id:?} differs between hot and cold store")),
                _ => {}
            }
        }
    }
    for ((t, id), data) in hot {
        if *t == tidx(FileType::Pack) && !pack_is_tree(key, data) {
            return Err(format!("data pack {id:?} was placed in the hot store"));
        }
    }
    Ok(())
}

fn pack_is_tree(key: &[u8; 64], data: &[u8]) -> bool {
    match parse_pack(key, data) {
        Ok(info) => info.entries.first().is_some_and(|e| e.tpe == BType::Tree),
        // an undecodable pack cannot be classified; treat as data (not required in hot)
        Err(_) => false,
    }
}

/// walk the combined log and check invariant (1) after every applied storage-changing operation
fn check_all_prefixes(log: &[Op], key: &[u8; 64]) -> Result<usize, String> {
    let mut cold = Files::new();
    let mut hot = Files::new();
    let mut n = 0;
    for op in log {
        if !op.kind.mutating() || !op.applied {
            continue;
        }
        let files = if op.store == 0 { &mut cold } else { &mut hot };
        let k = if op.tpe == FileType::Config { (0, Id::default()) } else { (tidx(op.tpe), op.id) };
        match op.kind {
            OpKind::Write => _ = files.insert(k, op.data.clone().expect("data logged")),
            OpKind::Remove => _ = files.remove(&k),
            _ => {}
        }
        n += 1;
        hot_complete(&cold, &hot, key).map_err(|e| {
            format!(
                "after storage operation #{n} ({:?} {} {:?} on the {} store): {e}",
                op.kind,
                op.tpe,
                op.id,
                if op.store == 0 { "cold" } else { "hot" }
            )
        })?;
    }
    Ok(n)
}

pub fn run(c: &Case, _ctx: &Ctx) -> Outcome {
    let mut out = Outcome::pass().class_if(c.strict_cold, "strict_cold_store").class_if(
        c.strict_cold && c.ops.iter().any(|o| matches!(o, Hc::RestoreOver { .. })),
        "restore_over_existing_files_from_strict_cold_store",
    );
    macro_rules! fail {
        ($($arg:tt)*) => {{
            out.failure = Some(format!($($arg)*));
            return out;
        }};
    }
    let key = c.cfg.key64();
    let mut pair = match Repo::new(&c.cfg, &c.tree, true, c.strict_cold) {
        Ok(r) => r,
        Err(e) => fail!("hot/cold pair: {e}"),
    };
    let mut single = match Repo::new(&c.cfg, &c.tree, false, false) {
        Ok(r) => r,
        Err(e) => fail!("single store: {e}"),
    };
    let first = Hc::Backup { edits: vec![], parent: false };
    let mut repacked_tree = false;
    for (i, op) in std::iter::once(&first).chain(c.ops.iter()).enumerate() {
        let packs_before: BTreeSet<Id> = pair.hot.as_ref().unwrap().ids(FileType::Pack).into_iter().collect();
        let rs = single.step(op);
        let rp = pair.step(op);
        match (&rs, &rp) {
            (Ok(()), Ok(())) => {}
            (Err(a), Err(b)) => {
                // both refuse (e.g. a generated prune option the configuration does not support)
                out = out.class("op_refused_by_both");
                let _ = (a, b);
                continue;
            }
            (Ok(()), Err(e)) => fail!("op #{i} {op:?} succeeds on a single store but fails on the hot/cold pair: {e}"),
            (Err(e), Ok(())) => fail!("op #{i} {op:?} fails on a single store ({e}) but succeeds on the hot/cold pair"),
        }
        if matches!(op, Hc::Prune(_)) {
            let after: BTreeSet<Id> = pair.hot.as_ref().unwrap().ids(FileType::Pack).into_iter().collect();
            if after.difference(&packs_before).next().is_some() {
                repacked_tree = true;
            }
        }
    }
    // (1) every prefix
    let log = pair.cold.log.snapshot();
    let nops = match check_all_prefixes(&log, &key) {
        Ok(n) => n,
        Err(e) => fail!("{e}"),
    };
    // (3) warm-up order
    if let Some(cs) = pair.cold.cold_state() {
        if let Some((kind, id)) = cs.violations.first() {
            fail!("pack {id:?} was read from the cold store ({kind:?}) without a preceding warm-up request");
        }
    }
    // (2) differential: same snapshots (trees), same content, same verdict, same reachable blobs
    let trees_s: Vec<_> = single.live.iter().map(|(s, _)| s.tree).collect();
    let trees_p: Vec<_> = pair.live.iter().map(|(s, _)| s.tree).collect();
    if trees_s != trees_p {
        fail!("snapshot trees differ between single-store and hot/cold run");
    }
    if let Err(e) = pair.verify_snapshots() {
        fail!("hot/cold pair: {e}");
    }
    if let Err(e) = single.verify_snapshots() {
        fail!("single store: {e}");
    }
    let vs = single.open().map(|r| check_verdict(&r, false));
    let vp = pair.open().map(|r| check_verdict(&r, false));
    match (vs, vp) {
        (Ok(CheckVerdict::Clean), Ok(CheckVerdict::Clean)) => {}
        (Ok(CheckVerdict::Inconclusive(_)), _) | (_, Ok(CheckVerdict::Inconclusive(_))) => out = out.class("check_inconclusive"),
        (a, b) => fail!("check verdicts differ or report errors: single store {a:?}, hot/cold {b:?}"),
    }
    // check --read-data on a hot/cold pair reads packs through the hot store: known finding, judged
    // only by the committed witness (the repository's own test suite asserts this failure)
    if c.judge_read_data {
        if let Ok(CheckVerdict::Errors(e)) = pair.open().map(|r| check_verdict(&r, true)) {
            let mut o = Outcome::fail(format!(
                "check --read-data succeeds on a single store but fails on the equivalent hot/cold pair: {e}"
            ));
            o.classes = out.classes;
            return o.known("hotcold-check-read-data");
        }
    }
    let reach = |r: &Repo| -> Result<BTreeSet<_>, String> {
        let view = index_view(&r.cold, &key)?;
        let mut all = BTreeSet::new();
        for (s, _) in &r.live {
            all.extend(reachable(&r.cold, &key, &view, &id_bytes(&s.tree))?);
        }
        Ok(all)
    };
    match (reach(&single), reach(&pair)) {
        (Ok(a), Ok(b)) if a == b => {}
        (Ok(a), Ok(b)) => fail!("reachable blob sets differ: {} on the single store, {} on the pair", a.len(), b.len()),
        (Err(e), _) | (_, Err(e)) => fail!("reachable blobs: {e}"),
    }

    // (4) remove hot files, repair
    let hot = pair.hot.clone().unwrap();
    let hot_files: Vec<(u8, Id)> = hot.files().keys().copied().collect();
    let mut removed_types = BTreeSet::new();
    for (i, (t, id)) in hot_files.iter().enumerate() {
        let is_config = *t == 0;
        let remove = if is_config { c.remove_config } else { c.remove_mask == 0xffff || (c.remove_mask >> (i % 16)) & 1 == 1 };
        if remove {
            hot.with_files(|f| _ = f.remove(&(*t, *id)));
            _ = removed_types.insert(*t);
        }
    }
    let be = pair.backends();
    let creds: Credentials = c.cfg.credentials();
    let rep = guarded(|| -> Result<(), String> {
        let repo = Repository::new(&repo_opts(), &be)
            .map_err(|e| estr(&e))?
            .open_only_cold(&creds)
            .map_err(|e| format!("open_only_cold: {}", estr(&e)))?;
        repo.init_hot().map_err(|e| format!("init_hot: {}", estr(&e)))?;
        repo.repair_hotcold_except_packs(false).map_err(|e| format!("repair_hotcold_except_packs: {}", estr(&e)))?;
        let repo = Repository::new(&repo_opts(), &be)
            .map_err(|e| estr(&e))?
            .open(&creds)
            .map_err(|e| format!("open after repair: {}", estr(&e)))?;
        repo.repair_hotcold_packs(false).map_err(|e| format!("repair_hotcold_packs: {}", estr(&e)))
    });
    match rep {
        Ok(Ok(())) => {}
        Ok(Err(e)) => fail!("hot/cold repair after removing hot files of {} type(s): {e}", removed_types.len()),
        Err(p) => fail!("hot/cold repair panicked: {p}"),
    }
    if let Err(e) = hot_complete(&pair.cold.files(), &hot.files(), &key) {
        fail!("after the hot/cold repair: {e}");
    }
    if let Some(cs) = pair.cold.cold_state() {
        if let Some((kind, id)) = cs.violations.first() {
            fail!("during the repair pack {id:?} was read from the cold store ({kind:?}) without a warm-up request");
        }
    }
    match pair.open().map(|r| check_verdict(&r, false)) {
        Ok(CheckVerdict::Errors(e)) => fail!("after the hot/cold repair: {e}"),
        Err(e) => fail!("after the hot/cold repair: {e}"),
        _ => {}
    }
    if let Err(e) = pair.verify_snapshots() {
        fail!("after the hot/cold repair: {e}");
    }
    out.nontrivial = repacked_tree || removed_types.len() >= 2;
    out.count("storage_ops_prefixes_checked", nops as u64)
        .class_if(repacked_tree, "prune_repacked_tree_pack")
        .class_if(removed_types.len() >= 2, "repair_of_>=2_file_types")
}

#[allow(dead_code)]
fn _unused(_: MemBackend) {}

pub fn spec() -> PropSpec {
    PropSpec {
        id: "C16",
        level: "fault_enumeration",
        rule: "proptest generates (configuration, source tree, history of 1–6 operations after an initial backup from {backup ±parent, forget, prune with generated options, copy into, config change, key add/remove, restore to disk into an empty destination or over an earlier restore with files removed / re-dated, repair index ±read-all}, strict cold store on/off, subset of hot files to remove incl. all and incl. the config); the history runs on a hot/cold pair of in-memory stores with one shared operation log and, for the differential, on a single store. The hot⊇cold invariant is evaluated after EVERY applied storage operation of the combined log (counter storage_ops_prefixes_checked). Non-trivial = a prune that wrote a new tree pack, or a repair after removing hot files of ≥2 types; distinct by hash of the case.",
        assumptions: vec![
            "storage operations are atomic; the interruption model is 'any prefix of the combined hot+cold operation sequence'",
            "pack type (tree/data) is decided with the independent trailer decoder",
            "check --read-data on a hot/cold pair is a known finding (the repository's own test suite asserts that it fails) and is only judged by its committed witness",
        ],
        subs: vec![Box::new(Sub {
            name: "hotcold",
            cases_quick: 400,
            cases_thorough: 5000,
            max_shrink_iters: 100,
            strategy,
            run,
        }) as Box<dyn DynSub>],
        extra: None,
    }
}
