//! C18 — Accepted configurations work; refused or unnamed settings change nothing.
//!
//! Sub-check `config`: generated `ConfigOptions` (every field unset / 0 / 1 / validation boundary /
//! interior / huge) applied at `Repository::init` and as a sequence of `apply_config` calls.
//! Oracles: no panic; an accepted configuration carries a complete smoke run (backup, read back
//! = model, check --read-data, prune, restore = model); after every accepted change the stored
//! configuration, re-read through a fresh `open`, differs from the previous one exactly in the
//! named fields; version downgrades are refused; after a refused change the stored bytes are
//! identical.
//!
//! Sub-check `prune_limits`: generated `PruneOptions` (limits 0 % … u64::MAX %, sizes, unlimited;
//! negative / zero / huge spans; all boolean switches) on a small repository with a forgotten
//! snapshot. Oracles: `prune_plan` / `prune` return Ok or Err, never panic; after Ok the remaining
//! snapshot reads back equal to its model and `check --read-data` is clean.

use std::{str::FromStr, sync::Arc};

use proptest::prelude::*;
use rustic_core::{
    ConfigOptions, FileType, Id, KeyOptions, LimitOption, PruneOptions, Repository, RestoreOptions,
    jiff::Span,
    repofile::{Chunker, ConfigFile, SnapshotFile},
};
use serde::{Deserialize, Serialize};
use serde_json::Value;

use crate::{
    engine::{Ctx, DynSub, Outcome, PropSpec, Sub, guarded},
    fsutil::{Scratch, walk},
    r#gen::{Edit, TreeParams, apply_edit, edit, tree},
    membe::Storage,
    model::{Content, MKind, MNode, MTime, Piece, ReadSchedule, flatten},
    repo::{
        ChunkerCfg, CmpOpts, PackCfg, RepoCfg, RepoOpen, backends, backup_tree, check_repo, compare,
        estr, force_opts, init_repo, open_full, open_repo, read_snapshot, repo_opts, snap_template,
    },
    restore::{FsCmp, compare_fs, restore_snapshot},
};

// ---------------------------------------------------------------------------------------------
// known findings: input-side predicates
// ---------------------------------------------------------------------------------------------

/// `ConfigOptions::apply` assigns `extra_verify` unconditionally
pub const K_EXTRA_VERIFY: &str = "extra-verify-reset";
/// `PackSizer::pack_size`: `isqrt(current) * grow + default` in u32
pub const K_GROW: &str = "packsize-grow-overflow";
/// fixed-size chunker with chunk size 0 is accepted and stores every file as empty
pub const K_FIXED_ZERO: &str = "fixed-chunker-size-zero";
/// `decide_repack`: `p * used / (100 - p)`
pub const K_UNUSED_100: &str = "prune-max-unused-percent-ge-100";
/// `decide_repack`: `p * total / 100` (and `p * used`) overflow u64 for a huge percentage
pub const K_PCT_OVERFLOW: &str = "prune-max-repack-percent-overflow";

/// pick the key to report: the first matching key that is listed as known, else the first match
fn choose_key(ctx: &Ctx, matched: &[&'static str]) -> Option<&'static str> {
    matched
        .iter()
        .find(|k| ctx.is_known(k))
        .or_else(|| matched.first())
        .copied()
}

/// development knob: `VP_ASSUME_KNOWN=all` (or a comma list of keys) treats the matching cases as
/// not judged, to see what is left behind the known findings before they are listed
fn assumed_known(ctx: &Ctx, matched: &[&'static str]) -> Option<&'static str> {
    if ctx.strict {
        return None;
    }
    let v = std::env::var("VP_ASSUME_KNOWN").ok()?;
    matched
        .iter()
        .find(|k| v == "all" || v.split(',').any(|x| x == **k))
        .copied()
}

// ---------------------------------------------------------------------------------------------
// generated configuration options
// ---------------------------------------------------------------------------------------------

#[derive(Debug, Clone, Default, PartialEq, Eq, Serialize, Deserialize)]
#[serde(default)]
pub struct Opts {
    #[serde(skip_serializing_if = "Option::is_none")]
    pub version: Option<u32>,
    /// 0 = rabin, 1 = fixed_size
    #[serde(skip_serializing_if = "Option::is_none")]
    pub chunker: Option<u8>,
    #[serde(skip_serializing_if = "Option::is_none")]
    pub chunk_size: Option<u64>,
    #[serde(skip_serializing_if = "Option::is_none")]
    pub chunk_min: Option<u64>,
    #[serde(skip_serializing_if = "Option::is_none")]
    pub chunk_max: Option<u64>,
    #[serde(skip_serializing_if = "Option::is_none")]
    pub compression: Option<i32>,
    #[serde(skip_serializing_if = "Option::is_none")]
    pub append_only: Option<bool>,
    #[serde(skip_serializing_if = "Option::is_none")]
    pub treepack_size: Option<u64>,
    #[serde(skip_serializing_if = "Option::is_none")]
    pub treepack_limit: Option<u64>,
    #[serde(skip_serializing_if = "Option::is_none")]
    pub treepack_grow: Option<u32>,
    #[serde(skip_serializing_if = "Option::is_none")]
    pub datapack_size: Option<u64>,
    #[serde(skip_serializing_if = "Option::is_none")]
    pub datapack_limit: Option<u64>,
    #[serde(skip_serializing_if = "Option::is_none")]
    pub datapack_grow: Option<u32>,
    #[serde(skip_serializing_if = "Option::is_none")]
    pub min_pct: Option<u32>,
    #[serde(skip_serializing_if = "Option::is_none")]
    pub max_pct: Option<u32>,
    #[serde(skip_serializing_if = "Option::is_none")]
    pub extra_verify: Option<bool>,
}

/// a byte size the way a caller without access to the `bytesize` crate (or the CLI) gets one:
/// by parsing the decimal number
fn bs<T: FromStr>(v: u64) -> T {
    v.to_string()
        .parse()
        .ok()
        .expect("a plain decimal number parses as a byte size")
}

fn lib_chunker(c: u8) -> Chunker {
    if c == 0 { Chunker::Rabin } else { Chunker::FixedSize }
}

/// is this one of the boundary / huge values the non-triviality rule asks for
fn boundary_u(v: u64) -> bool {
    v <= 1
        || matches!(v, 63 | 64 | 65 | 99 | 100 | 101 | 4095 | 4096)
        || v >= u64::from(u32::MAX) - 1
        || (v >= 64
            && (v.is_power_of_two() || (v + 1).is_power_of_two() || (v - 1).is_power_of_two()))
}

fn boundary_i(v: i32) -> bool {
    matches!(v, -131_073 | -131_072 | -8 | -7 | -1 | 0 | 1 | 22 | 23 | i32::MIN | i32::MAX)
}

impl Opts {
    pub fn to_lib(&self) -> ConfigOptions {
        let mut o = ConfigOptions::default();
        o.set_version = self.version;
        o.set_chunker = self.chunker.map(lib_chunker);
        o.set_chunk_size = self.chunk_size.map(bs);
        o.set_chunk_min_size = self.chunk_min.map(bs);
        o.set_chunk_max_size = self.chunk_max.map(bs);
        o.set_compression = self.compression;
        o.set_append_only = self.append_only;
        o.set_treepack_size = self.treepack_size.map(bs);
        o.set_treepack_size_limit = self.treepack_limit.map(bs);
        o.set_treepack_growfactor = self.treepack_grow;
        o.set_datapack_size = self.datapack_size.map(bs);
        o.set_datapack_size_limit = self.datapack_limit.map(bs);
        o.set_datapack_growfactor = self.datapack_grow;
        o.set_min_packsize_tolerate_percent = self.min_pct;
        o.set_max_packsize_tolerate_percent = self.max_pct;
        o.set_extra_verify = self.extra_verify;
        o
    }

    pub fn named(&self) -> usize {
        [
            self.version.is_some(),
            self.chunker.is_some(),
            self.chunk_size.is_some(),
            self.chunk_min.is_some(),
            self.chunk_max.is_some(),
            self.compression.is_some(),
            self.append_only.is_some(),
            self.treepack_size.is_some(),
            self.treepack_limit.is_some(),
            self.treepack_grow.is_some(),
            self.datapack_size.is_some(),
            self.datapack_limit.is_some(),
            self.datapack_grow.is_some(),
            self.min_pct.is_some(),
            self.max_pct.is_some(),
            self.extra_verify.is_some(),
        ]
        .iter()
        .filter(|b| **b)
        .count()
    }

    pub fn has_boundary(&self) -> bool {
        let u64s = [
            self.version.map(u64::from),
            self.chunk_size,
            self.chunk_min,
            self.chunk_max,
            self.treepack_size,
            self.treepack_limit,
            self.treepack_grow.map(u64::from),
            self.datapack_size,
            self.datapack_limit,
            self.datapack_grow.map(u64::from),
            self.min_pct.map(u64::from),
            self.max_pct.map(u64::from),
        ];
        u64s.iter().flatten().any(|v| boundary_u(*v)) || self.compression.is_some_and(boundary_i)
    }

    /// The configuration a change that names exactly these settings must produce from `old`.
    /// `Err` = a named value cannot be stored in the field at all, so accepting it is wrong.
    pub fn expect(&self, old: &ConfigFile) -> Result<ConfigFile, String> {
        fn to_usize(name: &str, v: u64) -> Result<usize, String> {
            usize::try_from(v).map_err(|_| format!("{name}={v} does not fit the stored field"))
        }
        fn to_u32(name: &str, v: u64) -> Result<u32, String> {
            u32::try_from(v).map_err(|_| format!("{name}={v} does not fit the stored 32-bit field"))
        }
        let mut c = old.clone();
        if let Some(v) = self.version {
            c.version = v;
        }
        if let Some(ch) = self.chunker {
            c.chunker = Some(lib_chunker(ch));
        }
        if let Some(v) = self.chunk_size {
            c.chunk_size = Some(to_usize("chunk_size", v)?);
        }
        if let Some(v) = self.chunk_min {
            c.chunk_min_size = Some(to_usize("chunk_min_size", v)?);
        }
        if let Some(v) = self.chunk_max {
            c.chunk_max_size = Some(to_usize("chunk_max_size", v)?);
        }
        if let Some(v) = self.compression {
            c.compression = Some(v);
        }
        if let Some(v) = self.append_only {
            c.append_only = Some(v);
        }
        if let Some(v) = self.treepack_size {
            c.treepack_size = Some(to_u32("treepack_size", v)?);
        }
        if let Some(v) = self.treepack_limit {
            c.treepack_size_limit = Some(to_u32("treepack_size_limit", v)?);
        }
        if let Some(v) = self.treepack_grow {
            c.treepack_growfactor = Some(v);
        }
        if let Some(v) = self.datapack_size {
            c.datapack_size = Some(to_u32("datapack_size", v)?);
        }
        if let Some(v) = self.datapack_limit {
            c.datapack_size_limit = Some(to_u32("datapack_size_limit", v)?);
        }
        if let Some(v) = self.datapack_grow {
            c.datapack_growfactor = Some(v);
        }
        if let Some(v) = self.min_pct {
            c.min_packsize_tolerate_percent = Some(v);
        }
        if let Some(v) = self.max_pct {
            c.max_packsize_tolerate_percent = Some(v);
        }
        if let Some(v) = self.extra_verify {
            c.extra_verify = Some(v);
        }
        Ok(c)
    }
}

/// field-by-field difference of two stored configurations (None = identical)
fn diff_cfg(want: &ConfigFile, got: &ConfigFile) -> Option<String> {
    let w = serde_json::to_value(want).expect("config serialises");
    let g = serde_json::to_value(got).expect("config serialises");
    let (Value::Object(w), Value::Object(g)) = (w, g) else {
        return Some("configuration does not serialise as an object".into());
    };
    let mut keys: Vec<&String> = w.keys().chain(g.keys()).collect();
    keys.sort();
    keys.dedup();
    let diffs: Vec<String> = keys
        .into_iter()
        .filter(|k| w.get(*k) != g.get(*k))
        .map(|k| {
            let show = |v: Option<&Value>| v.map_or("unset".to_string(), Value::to_string);
            format!("{k}: expected {}, stored {}", show(w.get(k)), show(g.get(k)))
        })
        .collect();
    if diffs.is_empty() { None } else { Some(diffs.join("; ")) }
}

/// pack sizes and pack size limits. `near_max` = weight of the values just below 2^32 (as a pack
/// size they overflow PackSizer::pack_size together with any grow factor: kept rare)
fn size_values(near_max: u32) -> BoxedStrategy<u64> {
    prop_oneof![
        4 => Just(0u64),
        2 => Just(1u64),
        4 => prop::sample::select(vec![63u64, 64, 65, 100, 4095, 4096, 4097, 65_536]),
        6 => 1u64..200_000,
        2 => prop::sample::select(vec![4u64 << 20, 32 << 20, 1 << 31]),
        near_max => prop::sample::select(vec![u64::from(u32::MAX) - 1, u64::from(u32::MAX)]),
        2 => prop::sample::select(vec![u64::from(u32::MAX) + 1, 1u64 << 40, u64::MAX]),
    ]
    .boxed()
}

fn grow_values() -> BoxedStrategy<u32> {
    prop_oneof![
        6 => Just(0u32),
        5 => Just(1u32),
        4 => Just(32u32),
        4 => 2u32..2000,
        // (these overflow PackSizer::pack_size: kept rare so that most cases are judged)
        1 => prop::sample::select(vec![65_536u32, 1 << 24, u32::MAX - 1, u32::MAX]),
    ]
    .boxed()
}

/// (chunker, size, min, max): half of the time a coherent rabin / fixed parameter set with
/// boundary members, otherwise every field on its own
fn chunk_group(p: f64) -> BoxedStrategy<(Option<u8>, Option<u64>, Option<u64>, Option<u64>)> {
    let any_size = || {
        prop_oneof![
            2 => Just(0u64),
            1 => Just(1u64),
            2 => prop::sample::select(vec![63u64, 64, 65, 4095, 4096, 4097]),
            3 => (6u32..=16, -1i64..=1).prop_map(|(k, d)| ((1i64 << k) + d) as u64),
            2 => 2u64..100_000,
            1 => prop::sample::select(vec![1u64 << 20, 512 << 10, 8 << 20]),
            1 => prop::sample::select(vec![1u64 << 31, 1 << 32, 1 << 40, 1 << 63, u64::from(u32::MAX), u64::MAX - 1, u64::MAX]),
        ]
    };
    let independent = (
        prop::option::weighted(p, prop_oneof![Just(0u8), Just(1u8)]),
        prop::option::weighted(p, any_size()),
        prop::option::weighted(p, any_size()),
        prop::option::weighted(p, any_size()),
    );
    // coherent rabin triple around 2^k, each member optionally pushed over its boundary
    let rabin = (
        6u32..=13,
        prop::sample::select(vec![0u8, 0, 1, 1, 2, 2, 3, 3, 4, 5]),
        prop::sample::select(vec![0u8, 0, 1, 1, 2, 2, 3, 3, 4]),
        prop::sample::select(vec![0u8, 0, 0, 0, 0, 0, 0, 0, 1, 2]),
        prop::bool::weighted(0.5),
    )
        .prop_map(|(k, minsel, maxsel, sizesel, name_chunker)| {
            let avg = 1u64 << k;
            let min = match minsel {
                0 => 64,
                1 => 65,
                2 => avg,
                3 => avg / 2 + 32,
                4 => avg + 1, // refused
                _ => 63,      // refused
            };
            let max = match maxsel {
                0 => avg,
                1 => avg + 1,
                2 => avg * 8,
                3 => u64::MAX,
                _ => avg - 1, // refused
            };
            let size = match sizesel {
                0 => avg,
                1 => avg + 1, // refused
                _ => avg - 1, // refused
            };
            (name_chunker.then_some(0u8), Some(size), Some(min), Some(max))
        });
    let fixed = (
        prop_oneof![
            1 => Just(0u64),
            4 => 1u64..64,
            8 => 64u64..70_000,
            2 => prop::sample::select(vec![1u64 << 20, u64::from(u32::MAX), 1 << 40, u64::MAX]),
        ],
        prop::option::weighted(0.2, any_size()),
        prop::option::weighted(0.2, any_size()),
    )
        .prop_map(|(size, min, max)| (Some(1u8), Some(size), min, max));
    prop_oneof![
        5 => independent,
        3 => rabin,
        2 => fixed,
    ]
    .boxed()
}

/// one set of options; `p` = probability that a field is named at all
fn opts(p: f64) -> BoxedStrategy<Opts> {
    let version = prop::option::weighted(
        p * 0.5,
        prop_oneof![
            1 => Just(0u32),
            2 => Just(1u32),
            7 => Just(2u32),
            1 => Just(3u32),
            1 => Just(u32::MAX),
        ],
    );
    let compression = prop::option::weighted(
        p,
        prop_oneof![
            8 => Just(0i32),
            12 => prop::sample::select(vec![-8i32, -7, -1, 1, 3, 23]),
            // the upper boundary: rare, because a backup at an ultra level needs several GB
            1 => Just(22i32),
            4 => -7i32..=19,
            4 => prop::sample::select(vec![-131_073i32, -131_072, i32::MIN, i32::MAX]),
        ],
    );
    let append_only = prop::option::weighted(p * 0.25, prop::bool::weighted(0.4));
    let pct_min = prop::option::weighted(
        p * 0.7,
        prop_oneof![
            4 => prop::sample::select(vec![0u32, 1, 30, 99, 100]),
            1 => prop::sample::select(vec![101u32, u32::MAX]),
            1 => 0u32..=100,
        ],
    );
    let pct_max = prop::option::weighted(
        p * 0.7,
        prop_oneof![
            4 => prop::sample::select(vec![0u32, 100, 101, 200, u32::MAX]),
            1 => prop::sample::select(vec![1u32, 99]),
            1 => 100u32..1000,
        ],
    );
    let extra_verify = prop::option::weighted(p * 0.2, prop::bool::weighted(0.4));
    (
        (version, chunk_group(p), compression, append_only),
        (
            prop::option::weighted(p, size_values(1)),
            prop::option::weighted(p * 0.6, size_values(3)),
            prop::option::weighted(p * 0.6, grow_values()),
        ),
        (
            prop::option::weighted(p, size_values(1)),
            prop::option::weighted(p * 0.6, size_values(3)),
            prop::option::weighted(p * 0.6, grow_values()),
        ),
        (pct_min, pct_max, extra_verify),
    )
        .prop_map(
            |((version, (chunker, chunk_size, chunk_min, chunk_max), compression, append_only), tp, dp, (min_pct, max_pct, extra_verify))| Opts {
                version,
                chunker,
                chunk_size,
                chunk_min,
                chunk_max,
                compression,
                append_only,
                treepack_size: tp.0,
                treepack_limit: tp.1,
                treepack_grow: tp.2,
                datapack_size: dp.0,
                datapack_limit: dp.1,
                datapack_grow: dp.2,
                min_pct,
                max_pct,
                extra_verify,
            },
        )
        .boxed()
}

fn any_opts() -> BoxedStrategy<Opts> {
    prop_oneof![3 => opts(0.12), 3 => opts(0.3), 1 => opts(0.6)].boxed()
}

// ---------------------------------------------------------------------------------------------
// sub-check "config"
// ---------------------------------------------------------------------------------------------

#[derive(Debug, Clone, PartialEq, Eq, Serialize, Deserialize)]
pub enum Start {
    /// `Repository::init` with these options
    Init(Opts),
    /// a version-1 repository (only `init_with_config` can create one)
    V1,
}

#[derive(Debug, Clone, PartialEq, Eq, Serialize, Deserialize)]
pub struct FileSpec {
    /// size class relative to the chunker parameters of the configuration in force
    pub class: u8,
    /// 0 = random, 1 = zeros, 2 = periodic
    pub kind: u8,
    pub seed: u64,
}

#[derive(Debug, Clone, PartialEq, Eq, Serialize, Deserialize)]
pub struct CfgCase {
    pub start: Start,
    /// `apply_config` calls, in order
    pub steps: Vec<Opts>,
    /// back up a first tree right after init, so that later changes hit a repository with data
    pub backup_first: bool,
    /// forget the first snapshot before the prune of the smoke run
    pub forget_first: bool,
    /// 0 = default prune options, 1 = unlimited repack / no unused space, 2 = repack everything +
    /// instant delete
    pub prune_mode: u8,
    pub files: Vec<FileSpec>,
    /// all configuration changes are issued through ONE open handle (otherwise each through a
    /// freshly opened one)
    #[serde(default)]
    pub same_handle: bool,
}

const N_CLASSES: u8 = 13;
const FILE_CAP: u64 = 300_000;

fn cfg_strategy(_ctx: &Ctx) -> BoxedStrategy<CfgCase> {
    (
        prop_oneof![
            6 => prop_oneof![1 => Just(Opts::default()), 5 => opts(0.12), 3 => opts(0.3), 1 => opts(0.6)].prop_map(Start::Init),
            1 => Just(Start::V1),
        ],
        prop::collection::vec(any_opts(), 0..=4),
        prop::bool::weighted(0.5),
        prop::bool::weighted(0.6),
        prop_oneof![2 => Just(0u8), 2 => Just(1u8), 1 => Just(2u8)],
        prop::collection::vec(
            (0..N_CLASSES, 0u8..3, any::<u64>()).prop_map(|(class, kind, seed)| FileSpec { class, kind, seed }),
            1..=5,
        ),
        any::<bool>(),
    )
        .prop_map(|(start, steps, backup_first, forget_first, prune_mode, files, same_handle)| CfgCase {
            start,
            steps,
            backup_first,
            forget_first,
            prune_mode,
            files,
            same_handle,
        })
        .boxed()
}

fn all_opts(c: &CfgCase) -> Vec<&Opts> {
    let mut v = Vec::new();
    if let Start::Init(o) = &c.start {
        v.push(o);
    }
    v.extend(c.steps.iter());
    v
}

/// input-side predicates of the known findings of this sub-check
fn cfg_known_keys(c: &CfgCase) -> Vec<&'static str> {
    let seq = all_opts(c);
    let mut keys = Vec::new();
    // an explicit extra_verify followed by a change that does not name it
    let first_named = seq.iter().position(|o| o.extra_verify.is_some());
    // (the version-1 start configuration leaves extra_verify unset)
    let reset = first_named.is_some_and(|i| seq[i + 1..].iter().any(|o| o.extra_verify.is_none()));
    if reset {
        keys.push(K_EXTRA_VERIFY);
    }
    // isqrt(bytes in the repository) * grow + size can exceed u32: repositories of this check stay
    // below 4 MiB, so isqrt < 2048
    let over = |grow: Vec<Option<u32>>, size: Vec<Option<u64>>, default: u64| {
        let g = grow.iter().flatten().copied().max().map_or(32, |g| g.max(32));
        let s = size
            .iter()
            .flatten()
            .copied()
            .filter(|s| *s <= u64::from(u32::MAX))
            .max()
            .map_or(default, |s| s.max(default));
        u64::from(g) * 2048 + s > u64::from(u32::MAX)
    };
    if over(
        seq.iter().map(|o| o.treepack_grow).collect(),
        seq.iter().map(|o| o.treepack_size).collect(),
        4 << 20,
    ) || over(
        seq.iter().map(|o| o.datapack_grow).collect(),
        seq.iter().map(|o| o.datapack_size).collect(),
        32 << 20,
    ) {
        keys.push(K_GROW);
    }
    if seq.iter().any(|o| o.chunk_size == Some(0)) && seq.iter().any(|o| o.chunker == Some(1)) {
        keys.push(K_FIXED_ZERO);
    }
    keys
}

fn creds_cfg() -> RepoCfg {
    RepoCfg::simple()
}

fn v1_config() -> ConfigFile {
    let mut cfg = RepoCfg::simple();
    cfg.version = 1;
    cfg.chunker = ChunkerCfg::Default;
    cfg.tree_pack = PackCfg { size: None, grow: None, limit: None };
    cfg.data_pack = PackCfg { size: None, grow: None, limit: None };
    cfg.extra_verify = None;
    cfg.config_file()
}

fn fresh(storage: &Arc<Storage>) -> Result<RepoOpen, String> {
    open_repo(storage.handle(), &creds_cfg())
}

fn raw_config(storage: &Arc<Storage>) -> Option<Vec<u8>> {
    storage.get(FileType::Config, &Id::default()).map(|b| b.to_vec())
}

/// length of a smoke-run file of the given class under the configuration in force
fn file_len(class: u8, cfg: &ConfigFile) -> u64 {
    let unit = cfg.chunk_size() as u64;
    let (min, max) = match cfg.chunker() {
        Chunker::Rabin => (cfg.chunk_min_size() as u64, cfg.chunk_max_size() as u64),
        Chunker::FixedSize => (unit, unit),
    };
    let raw = match class {
        0 => 0,
        1 => 1,
        2 => unit.saturating_sub(1),
        3 => unit,
        4 => unit.saturating_add(1),
        5 => unit.saturating_mul(2).saturating_add(3),
        6 => unit.saturating_mul(5).saturating_add(17),
        7 => min.saturating_sub(1),
        8 => min.saturating_add(1),
        9 => max,
        10 => max.saturating_add(1),
        11 => max.saturating_mul(3).saturating_add(5),
        _ => 40_000,
    };
    // never more than ~64 of the smallest possible chunks per file (a 1-byte fixed-size chunker
    // would otherwise produce 300 000 blobs) and never more than the cap
    let smallest = match cfg.chunker() {
        Chunker::Rabin => min.max(1),
        Chunker::FixedSize => unit.max(1),
    };
    raw.min(FILE_CAP).min(smallest.saturating_mul(64))
}

fn mk_node(name: &str, kind: MKind, inode: u64) -> MNode {
    let dir = matches!(kind, MKind::Dir { .. });
    MNode {
        name: name.as_bytes().to_vec(),
        kind,
        perm: if dir { 0o755 } else { 0o644 },
        mtime: MTime(1_600_000_000 + inode as i64, 0),
        ctime: MTime(1_600_000_000 + inode as i64, 0),
        uid: 1000,
        gid: 100,
        inode,
        device: 7,
        links: 1,
    }
}

fn mk_file(name: &str, spec: &FileSpec, salt: u64, cfg: &ConfigFile, inode: u64) -> MNode {
    let len = file_len(spec.class, cfg) as u32;
    let seed = spec.seed ^ salt;
    let piece = match spec.kind {
        0 => Piece::Rand { seed, skip: 0, len },
        1 => Piece::Zeros { len },
        _ => Piece::Period { seed, p: 37, skip: 0, len },
    };
    let content = if len == 0 { Content(vec![]) } else { Content(vec![piece]) };
    mk_node(name, MKind::File { content }, inode)
}

/// the smoke-run tree. `second` = the tree of the second backup: first file changed, one added
fn smoke_tree(c: &CfgCase, cfg: &ConfigFile, second: bool) -> MNode {
    let mut children = Vec::new();
    for (i, f) in c.files.iter().enumerate() {
        let salt = if second && i == 0 { 0x5EC0_17D } else { 0 };
        children.push(mk_file(&format!("f{i}"), f, salt, cfg, 200 + i as u64));
    }
    if second {
        let f = FileSpec { class: 5, kind: 0, seed: c.files[0].seed ^ 0xADD };
        children.push(mk_file("fz", &f, 1, cfg, 300));
    }
    let inner = mk_file("g0", &c.files[c.files.len() - 1], 0x1717, cfg, 400);
    children.push(mk_node("d", MKind::Dir { children: vec![inner] }, 401));
    children.push(mk_node("e", MKind::Dir { children: vec![] }, 402));
    children.push(mk_node("l", MKind::Symlink { target: b"f0".to_vec() }, 403));
    let mut root = mk_node("s", MKind::Dir { children }, 100);
    // a symlink carries mode 0777
    for ch in root.children_mut().expect("dir") {
        if matches!(ch.kind, MKind::Symlink { .. }) {
            ch.perm = 0o777;
        }
    }
    root.normalise();
    root
}

fn backup(storage: &Arc<Storage>, tree: &MNode, time: i64) -> Result<SnapshotFile, String> {
    let repo = fresh(storage)?
        .to_indexed_ids()
        .map_err(|e| format!("to_indexed_ids: {}", estr(&e)))?;
    backup_tree(
        &repo,
        tree,
        &ReadSchedule::default(),
        &force_opts(),
        snap_template(time, "host", "", ""),
    )
}

fn smoke_prune_opts(mode: u8) -> PruneOptions {
    let mut o = PruneOptions::default();
    match mode {
        0 => {}
        1 => {
            o.max_repack = LimitOption::Unlimited;
            o.max_unused = LimitOption::Size(bs(0));
            o.keep_delete = Span::new();
        }
        _ => {
            o.max_repack = LimitOption::Unlimited;
            o.repack_all = true;
            o.instant_delete = true;
        }
    }
    o
}

#[derive(Default)]
struct SmokeInfo {
    multi_chunk: bool,
    packs: usize,
    prune_err: bool,
}

/// backup, read back, check, prune, restore on the configuration `cfg` the repository accepted
fn smoke(
    storage: &Arc<Storage>,
    c: &CfgCase,
    cfg: &ConfigFile,
    first: Option<&(SnapshotFile, MNode)>,
) -> Result<SmokeInfo, String> {
    let mut info = SmokeInfo::default();
    let tree = smoke_tree(c, cfg, true);
    let model = flatten(&tree);
    let snap = backup(storage, &tree, 1_700_000_100)?;
    let cmp = CmpOpts { full_meta: true, content: true };

    let full = open_full(storage, &creds_cfg()).map_err(|e| format!("after a successful backup: {e}"))?;
    let got = read_snapshot(&full, &snap, true)
        .map_err(|e| format!("backup returned Ok but the snapshot cannot be read: {e}"))?;
    if let Some(d) = compare(&model, &got, &cmp) {
        return Err(format!("listing/dump differs from the source: {d}"));
    }
    info.multi_chunk = got
        .values()
        .any(|g| g.node.content.as_ref().is_some_and(|c| c.len() >= 2));
    if let Some((snap_a, tree_a)) = first {
        let got = read_snapshot(&full, snap_a, true)
            .map_err(|e| format!("the snapshot written before the configuration changes cannot be read: {e}"))?;
        if let Some(d) = compare(&flatten(tree_a), &got, &cmp) {
            return Err(format!("the snapshot written before the configuration changes differs from its source: {d}"));
        }
    }
    check_repo(&full, true).map_err(|e| format!("after backup: {e}"))?;
    info.packs = storage.ids(FileType::Pack).len();
    drop(full);

    let append_only = cfg.append_only == Some(true);
    let repo = fresh(storage)?;
    if let (Some((snap_a, _)), true) = (first, c.forget_first) {
        match guarded(|| repo.delete_snapshots(&[snap_a.id])) {
            Err(p) => return Err(format!("forget panicked: {p}")),
            Ok(Err(e)) if !append_only => return Err(format!("forget returned an error: {}", estr(&e))),
            Ok(_) => {}
        }
    }
    let popts = smoke_prune_opts(c.prune_mode);
    match guarded(|| repo.prune_plan(&popts).and_then(|plan| repo.prune(&popts, plan))) {
        Err(p) => return Err(format!("prune (mode {}) panicked: {p}", c.prune_mode)),
        Ok(Err(_)) => {
            // an error is a permitted outcome of prune (append-only repositories always refuse);
            // the state after a failed prune is not judged here
            info.prune_err = true;
            return Ok(info);
        }
        Ok(Ok(())) => {}
    }
    drop(repo);

    let full = open_full(storage, &creds_cfg()).map_err(|e| format!("after prune: {e}"))?;
    let scratch = Scratch::new("c18");
    let dest = scratch.path().join("dest");
    restore_snapshot(&full, &snap, &dest, &RestoreOptions::default().numeric_id(true))
        .map_err(|e| format!("after prune: {e}"))?;
    let fs = walk(&dest).map_err(|e| format!("cannot walk the restored tree: {e}"))?;
    if let Some(d) = compare_fs(
        &model,
        &fs,
        &FsCmp { ownership: super::c01::is_root(), hardlinks: true, exact_set: true },
    ) {
        return Err(format!("after prune the restored tree differs from the source: {d}"));
    }
    check_repo(&full, true).map_err(|e| format!("after prune: {e}"))?;
    Ok(info)
}

pub fn run_config(c: &CfgCase, ctx: &Ctx) -> Outcome {
    let matched = cfg_known_keys(c);
    let mut out = Outcome::pass()
        .class(match c.start {
            Start::Init(_) => "start_init",
            Start::V1 => "start_v1",
        })
        .class(format!("steps={}", c.steps.len()));
    if let Some(k) = assumed_known(ctx, &matched) {
        return out.skip(format!("assumed-known:{k}"));
    }
    if let Some(k) = choose_key(ctx, &matched) {
        out = out.known(k);
    }
    macro_rules! fail {
        ($($arg:tt)*) => {{
            out.failure = Some(format!($($arg)*));
            return out;
        }};
    }

    // (memory) at most one case with a zstd ultra level at a time, see `repo::ultra_gate`
    let top_level = std::iter::once(match &c.start {
        Start::Init(o) => o.compression,
        Start::V1 => None,
    })
    .chain(c.steps.iter().map(|s| s.compression))
    .flatten()
    .filter(|l| *l <= 22)
    .max();
    crate::repo::ultra_gate(top_level);
    out = out.class_if(top_level.is_some_and(|l| l >= 20), "zstd_ultra_level");

    let storage = Storage::new();
    let creds = creds_cfg().credentials();
    let mut accepted_named = 0usize;

    // ---- start -------------------------------------------------------------------------------
    let mut cur: ConfigFile = match &c.start {
        Start::V1 => {
            let cfg = v1_config();
            let r = guarded(|| {
                Repository::new(&repo_opts(), &backends(storage.handle()))?.init_with_config(
                    &creds,
                    &KeyOptions::default(),
                    cfg.clone(),
                )
            });
            match r {
                Ok(Ok(_)) => cfg,
                Ok(Err(e)) => fail!("init_with_config of a plain version-1 configuration failed: {}", estr(&e)),
                Err(p) => fail!("init_with_config panicked: {p}"),
            }
        }
        Start::Init(o) => {
            let lib = o.to_lib();
            let r = guarded(|| {
                Repository::new(&repo_opts(), &backends(storage.handle()))?.init(&creds, &KeyOptions::default(), &lib)
            });
            match r {
                Err(p) => fail!("init panicked: {p}"),
                Ok(Err(_)) => {
                    if raw_config(&storage).is_some() {
                        fail!("init refused the options but left a config file in the backend");
                    }
                    return out.class("init_refused");
                }
                Ok(Ok(repo)) => {
                    if let Some(v) = o.version.filter(|v| *v < 2) {
                        fail!("init accepted version {v}, lower than the version 2 it starts from");
                    }
                    let mem = repo.config().clone();
                    drop(repo);
                    let stored = match fresh(&storage) {
                        Ok(r) => r.config().clone(),
                        Err(e) => fail!("init returned Ok but the repository cannot be opened: {e}"),
                    };
                    if let Some(d) = diff_cfg(&mem, &stored) {
                        fail!("the handle returned by init and a fresh open disagree on the configuration: {d}");
                    }
                    if stored.id == ConfigFile::default().id
                        || u64::from_str_radix(&stored.chunker_polynomial, 16).map_or(true, |p| p == 0)
                    {
                        fail!("init stored no repository id or no usable chunker polynomial");
                    }
                    let mut base = ConfigFile::default();
                    base.version = 2;
                    base.id = stored.id;
                    base.chunker_polynomial = stored.chunker_polynomial.clone();
                    match o.expect(&base) {
                        Err(e) => fail!("init accepted the options although {e}"),
                        Ok(want) => {
                            if let Some(d) = diff_cfg(&want, &stored) {
                                fail!("configuration stored by init differs from defaults + named options: {d}");
                            }
                        }
                    }
                    accepted_named += o.named();
                    out = out.class("init_ok");
                    stored
                }
            }
        }
    };

    // ---- optional first backup -----------------------------------------------------------------
    let mut first: Option<(SnapshotFile, MNode)> = None;
    if c.backup_first {
        let tree = smoke_tree(c, &cur, false);
        match backup(&storage, &tree, 1_700_000_000) {
            Ok(s) => first = Some((s, tree)),
            Err(e) => fail!("first backup on the accepted initial configuration: {e}"),
        }
        out = out.class("backup_before_changes");
    }

    // ---- configuration changes -----------------------------------------------------------------
    let (mut n_ok, mut n_err) = (0u64, 0u64);
    let mut shared: Option<RepoOpen> = None;
    if c.same_handle && !c.steps.is_empty() {
        shared = match fresh(&storage) {
            Ok(r) => Some(r),
            Err(e) => fail!("cannot open the repository: {e}"),
        };
        out = out.class("changes_through_one_handle");
    }
    for (i, o) in c.steps.iter().enumerate() {
        let before = raw_config(&storage);
        let mut repo = match shared.take() {
            Some(r) => r,
            None => match fresh(&storage) {
                Ok(r) => r,
                Err(e) => fail!("step {i}: cannot open the repository: {e}"),
            },
        };
        let lib = o.to_lib();
        let applied = guarded(|| repo.apply_config(&lib));
        // what the handle that issued the change works with afterwards
        let mem_after = repo.config().clone();
        if c.same_handle {
            shared = Some(repo);
        } else {
            drop(repo);
        }
        match applied {
            Err(p) => fail!("step {i}: apply_config panicked: {p}"),
            Ok(Err(_)) => {
                n_err += 1;
                if let Some(d) = diff_cfg(&cur, &mem_after) {
                    fail!("step {i}: a refused change altered the configuration the open handle goes on working with: {d}");
                }
                if raw_config(&storage) != before {
                    fail!("step {i}: apply_config refused the change but the stored config file changed");
                }
                let stored = match fresh(&storage) {
                    Ok(r) => r.config().clone(),
                    Err(e) => fail!("step {i}: after a refused change the repository cannot be opened: {e}"),
                };
                if let Some(d) = diff_cfg(&cur, &stored) {
                    fail!("step {i}: after a refused change a fresh open yields a different configuration: {d}");
                }
            }
            Ok(Ok(changed)) => {
                n_ok += 1;
                if let Some(v) = o.version.filter(|v| *v < cur.version) {
                    fail!("step {i}: version {v} accepted although the stored version is {}", cur.version);
                }
                let mem = mem_after;
                let stored = match fresh(&storage) {
                    Ok(r) => r.config().clone(),
                    Err(e) => fail!("step {i}: apply_config returned Ok but the repository cannot be opened: {e}"),
                };
                match o.expect(&cur) {
                    Err(e) => fail!("step {i}: apply_config accepted the options although {e}"),
                    Ok(want) => {
                        if let Some(d) = diff_cfg(&want, &stored) {
                            fail!("step {i}: stored configuration is not the previous one + the named settings: {d}");
                        }
                    }
                }
                if let Some(d) = diff_cfg(&stored, &mem) {
                    fail!("step {i}: the handle that applied the change and a fresh open disagree: {d}");
                }
                if !changed && raw_config(&storage) != before {
                    fail!("step {i}: apply_config reported 'unchanged' but rewrote the config file");
                }
                accepted_named += o.named();
                cur = stored;
            }
        }
    }
    out = out
        .count("changes_accepted", n_ok)
        .count("changes_refused", n_err)
        .class_if(n_ok > 0, "change_accepted")
        .class_if(n_err > 0, "change_refused");

    // ---- smoke run on the configuration in force ----------------------------------------------
    let info = match smoke(&storage, c, &cur, first.as_ref()) {
        Ok(i) => i,
        Err(e) => fail!(
            "smoke run on the accepted configuration {} failed: {e}",
            serde_json::to_string(&cur).unwrap_or_default()
        ),
    };
    let boundary = all_opts(c).iter().any(|o| o.has_boundary());
    out = out
        .class("smoke_done")
        .class(match cur.chunker() {
            Chunker::Rabin => "final_rabin",
            Chunker::FixedSize => "final_fixed",
        })
        .class_if(cur.version == 1, "final_v1")
        .class_if(cur.append_only == Some(true), "final_append_only")
        .class_if(info.multi_chunk, "multi_chunk_file")
        .class_if(info.packs >= 3, "packs>=3")
        .class_if(info.prune_err, "smoke_prune_err")
        .class_if(boundary, "boundary_value");
    out.nontrivial = boundary && accepted_named > 0 && !info.prune_err;
    out
}

// ---------------------------------------------------------------------------------------------
// sub-check "prune_limits"
// ---------------------------------------------------------------------------------------------

#[derive(Debug, Clone, PartialEq, Eq, Serialize, Deserialize)]
pub enum Lim {
    Percent(u64),
    Size(u64),
    Unlimited,
}

impl Lim {
    fn to_lib(&self) -> LimitOption {
        match self {
            Lim::Percent(p) => LimitOption::Percentage(*p),
            Lim::Size(s) => LimitOption::Size(bs(*s)),
            Lim::Unlimited => LimitOption::Unlimited,
        }
    }
}

/// unit: 0 seconds, 1 hours, 2 days, 3 years; always inside the limits of the span type
#[derive(Debug, Clone, PartialEq, Eq, Serialize, Deserialize)]
pub struct SpanSpec {
    pub unit: u8,
    pub n: i64,
}

impl SpanSpec {
    fn to_lib(&self) -> Span {
        let s = Span::new();
        let r = match self.unit {
            0 => s.try_seconds(self.n.clamp(-631_107_417_600, 631_107_417_600)),
            1 => s.try_hours(self.n.clamp(-175_307_616, 175_307_616)),
            2 => s.try_days(self.n.clamp(-7_304_484, 7_304_484)),
            _ => s.try_years(self.n.clamp(-19_998, 19_998)),
        };
        r.expect("span inside the documented limits")
    }
}

#[derive(Debug, Clone, PartialEq, Eq, Serialize, Deserialize)]
pub struct POpts {
    pub max_unused: Lim,
    pub max_repack: Lim,
    pub keep_pack: SpanSpec,
    pub keep_delete: SpanSpec,
    pub instant_delete: bool,
    pub early_delete_index: bool,
    pub fast_repack: bool,
    pub repack_uncompressed: bool,
    pub repack_all: bool,
    pub repack_cacheable_only: Option<bool>,
    pub no_resize: bool,
}

impl POpts {
    fn to_lib(&self) -> PruneOptions {
        let mut o = PruneOptions::default();
        o.max_unused = self.max_unused.to_lib();
        o.max_repack = self.max_repack.to_lib();
        o.keep_pack = self.keep_pack.to_lib();
        o.keep_delete = self.keep_delete.to_lib();
        o.instant_delete = self.instant_delete;
        o.early_delete_index = self.early_delete_index;
        o.fast_repack = self.fast_repack;
        o.repack_uncompressed = self.repack_uncompressed;
        o.repack_all = self.repack_all;
        o.repack_cacheable_only = self.repack_cacheable_only;
        o.no_resize = self.no_resize;
        o
    }
}

#[derive(Debug, Clone, Serialize, Deserialize)]
pub struct PruneCase {
    pub cfg: RepoCfg,
    pub tree: MNode,
    pub edits: Vec<Edit>,
    /// forget the second snapshot instead of the first
    pub forget_second: bool,
    pub popts: POpts,
    /// run plan + prune this many times with the same options (the second round meets packs
    /// that the first one marked for deletion)
    pub rounds: u8,
}

fn lim() -> BoxedStrategy<Lim> {
    prop_oneof![
        6 => prop::sample::select(vec![0u64, 1, 5, 10, 50, 99]).prop_map(Lim::Percent),
        2 => Just(Lim::Percent(100)),
        2 => prop::sample::select(vec![101u64, 200, 1000]).prop_map(Lim::Percent),
        1 => prop::sample::select(vec![u64::from(u32::MAX), 1u64 << 40, u64::MAX / 100, u64::MAX]).prop_map(Lim::Percent),
        3 => prop::sample::select(vec![0u64, 1]).prop_map(Lim::Size),
        2 => (1u64..50_000).prop_map(Lim::Size),
        2 => prop::sample::select(vec![u64::from(u32::MAX), u64::MAX - 1, u64::MAX]).prop_map(Lim::Size),
        3 => Just(Lim::Unlimited),
    ]
    .boxed()
}

fn span() -> BoxedStrategy<SpanSpec> {
    prop_oneof![
        4 => Just(SpanSpec { unit: 0, n: 0 }),
        2 => prop::sample::select(vec![1i64, -1, 3600, -3600, 631_107_417_600, -631_107_417_600]).prop_map(|n| SpanSpec { unit: 0, n }),
        2 => prop::sample::select(vec![23i64, -23, 1, 175_307_616, -175_307_616]).prop_map(|n| SpanSpec { unit: 1, n }),
        2 => prop::sample::select(vec![1i64, -1, 30, 100_000, -100_000, 7_304_484, -7_304_484]).prop_map(|n| SpanSpec { unit: 2, n }),
        1 => prop::sample::select(vec![1i64, -1, 100, 19_998, -19_998]).prop_map(|n| SpanSpec { unit: 3, n }),
    ]
    .boxed()
}

fn prune_cfg() -> BoxedStrategy<RepoCfg> {
    (
        prop_oneof![1 => Just(1u8), 3 => Just(2u8)],
        prop_oneof![Just(None), Just(Some(0i32)), Just(Some(3i32))],
        prop_oneof![Just(Some(0u32)), Just(Some(1500u32)), Just(Some(8192u32)), Just(None)],
        prop_oneof![Just(Some(0u32)), Just(Some(3000u32)), Just(Some(20_000u32)), Just(None)],
        prop_oneof![3 => Just(Some(0u32)), 1 => Just(Some(1u32)), 1 => Just(None)],
    )
        .prop_map(|(version, compression, tsize, dsize, grow)| {
            let mut c = RepoCfg::simple();
            c.version = version;
            c.compression = if version == 1 { None } else { compression };
            c.tree_pack = PackCfg { size: tsize, grow, limit: None };
            c.data_pack = PackCfg { size: dsize, grow, limit: None };
            c
        })
        .boxed()
}

fn prune_tree_params() -> TreeParams {
    TreeParams { unit: 512, file_cap: 20_000, max_children: 3, depth: 2 }
}

fn prune_strategy(_ctx: &Ctx) -> BoxedStrategy<PruneCase> {
    let p = prune_tree_params();
    let popts = (
        (lim(), lim(), span(), span()),
        (
            prop::bool::weighted(0.3),
            prop::bool::weighted(0.3),
            prop::bool::weighted(0.25),
            prop::bool::weighted(0.15),
            prop::bool::weighted(0.2),
            prop_oneof![3 => Just(None), 1 => Just(Some(true)), 1 => Just(Some(false))],
            prop::bool::weighted(0.2),
        ),
    )
        .prop_map(|((max_unused, max_repack, keep_pack, keep_delete), b)| POpts {
            max_unused,
            max_repack,
            keep_pack,
            keep_delete,
            instant_delete: b.0,
            early_delete_index: b.1,
            fast_repack: b.2,
            repack_uncompressed: b.3,
            repack_all: b.4,
            repack_cacheable_only: b.5,
            no_resize: b.6,
        });
    (
        prune_cfg(),
        tree(p),
        prop::collection::vec(edit(p), 1..5),
        prop::bool::weighted(0.35),
        popts,
        1u8..=2,
    )
        .prop_map(|(cfg, tree, edits, forget_second, popts, rounds)| PruneCase {
            cfg,
            tree,
            edits,
            forget_second,
            popts,
            rounds,
        })
        .boxed()
}

fn err_class(e: &rustic_core::RusticError) -> String {
    let s = estr(e);
    let l = s.lines().find(|l| !l.trim().is_empty()).unwrap_or("").trim();
    l.chars().filter(|c| !c.is_ascii_digit()).take(70).collect()
}

fn prune_known_keys(c: &PruneCase) -> Vec<&'static str> {
    let mut keys = Vec::new();
    let p = &c.popts;
    let overridden = p.repack_uncompressed || p.repack_all;
    if let Lim::Percent(pc) = p.max_unused {
        if !overridden && pc >= 100 {
            keys.push(K_UNUSED_100);
        }
    }
    if let Lim::Percent(pc) = p.max_repack {
        // repositories of this check hold less than 2^24 bytes
        if pc > (1u64 << 40) {
            keys.push(K_PCT_OVERFLOW);
        }
    }
    keys
}

pub fn run_prune(c: &PruneCase, ctx: &Ctx) -> Outcome {
    let matched = prune_known_keys(c);
    let p = &c.popts;
    let lim_class = |l: &Lim| match l {
        Lim::Percent(p) if *p < 100 => "pct<100",
        Lim::Percent(100) => "pct=100",
        Lim::Percent(_) => "pct>100",
        Lim::Size(0) => "size=0",
        Lim::Size(_) => "size>0",
        Lim::Unlimited => "unlimited",
    };
    let mut out = Outcome::pass()
        .class(format!("max_unused:{}", lim_class(&p.max_unused)))
        .class(format!("max_repack:{}", lim_class(&p.max_repack)))
        .class_if(p.keep_pack.n < 0 || p.keep_delete.n < 0, "negative_span")
        .class_if(p.keep_pack.n.abs() > 1_000_000 || p.keep_delete.n.abs() > 1_000_000, "huge_span")
        .class_if(p.instant_delete, "instant_delete")
        .class_if(p.repack_all || p.repack_uncompressed, "repack_all/uncompressed")
        .class(format!("rounds={}", c.rounds));
    if let Some(k) = assumed_known(ctx, &matched) {
        return out.skip(format!("assumed-known:{k}"));
    }
    if let Some(k) = choose_key(ctx, &matched) {
        out = out.known(k);
    }
    macro_rules! fail {
        ($($arg:tt)*) => {{
            out.failure = Some(format!($($arg)*));
            return out;
        }};
    }

    // ---- a repository with two snapshots, one of them forgotten ---------------------------------
    let storage = Storage::new();
    let repo = match init_repo(storage.handle(), &c.cfg).and_then(|r| r.to_indexed_ids().map_err(|e| estr(&e))) {
        Ok(r) => r,
        Err(e) => fail!("setup: {e}"),
    };
    let tree_a = c.tree.clone();
    let snap_a = match backup_tree(&repo, &tree_a, &ReadSchedule::default(), &force_opts(), snap_template(1_700_000_000, "host", "", "")) {
        Ok(s) => s,
        Err(e) => fail!("setup, first backup: {e}"),
    };
    drop(repo);
    let mut tree_b = tree_a.clone();
    for (i, e) in c.edits.iter().enumerate() {
        _ = apply_edit(&mut tree_b, e, 10 + i as i64);
    }
    tree_b.normalise();
    let repo = match open_repo(storage.handle(), &c.cfg).and_then(|r| r.to_indexed_ids().map_err(|e| estr(&e))) {
        Ok(r) => r,
        Err(e) => fail!("setup: {e}"),
    };
    let snap_b = match backup_tree(&repo, &tree_b, &ReadSchedule::default(), &force_opts(), snap_template(1_700_000_500, "host", "", "")) {
        Ok(s) => s,
        Err(e) => fail!("setup, second backup: {e}"),
    };
    let (gone, kept, kept_tree) = if c.forget_second {
        (&snap_b, &snap_a, &tree_a)
    } else {
        (&snap_a, &snap_b, &tree_b)
    };
    match guarded(|| repo.delete_snapshots(&[gone.id])) {
        Ok(Ok(())) => {}
        Ok(Err(e)) => fail!("setup, forget: {}", estr(&e)),
        Err(p) => fail!("setup, forget panicked: {p}"),
    }
    drop(repo);
    let model = flatten(kept_tree);
    let cmp = CmpOpts { full_meta: true, content: true };

    // ---- prune with the generated options -------------------------------------------------------
    let lib = p.to_lib();
    let (mut plans_ok, mut plans_err, mut prunes_ok, mut prunes_err) = (0u64, 0u64, 0u64, 0u64);
    let mut repacked = false;
    for round in 0..c.rounds {
        let repo = match open_repo(storage.handle(), &c.cfg) {
            Ok(r) => r,
            Err(e) => fail!("round {round}: {e}"),
        };
        let plan = match guarded(|| repo.prune_plan(&lib)) {
            Err(pn) => fail!("round {round}: prune_plan panicked: {pn}"),
            Ok(Err(e)) => {
                plans_err += 1;
                out = out.class(format!("plan_err:{}", err_class(&e)));
                None
            }
            Ok(Ok(plan)) => {
                plans_ok += 1;
                repacked |= !plan.repack_packs().is_empty();
                Some(plan)
            }
        };
        let mut judge = true;
        if let Some(plan) = plan {
            match guarded(|| repo.prune(&lib, plan)) {
                Err(pn) => fail!("round {round}: prune panicked: {pn}"),
                Ok(Err(e)) => {
                    prunes_err += 1;
                    out = out.class(format!("prune_err:{}", err_class(&e)));
                    judge = false; // state after a failed prune is not part of this property
                }
                Ok(Ok(())) => prunes_ok += 1,
            }
        }
        drop(repo);
        if !judge {
            break;
        }
        let full = match open_full(&storage, &c.cfg) {
            Ok(r) => r,
            Err(e) => fail!("round {round}: after prune returned without error: {e}"),
        };
        let got = match read_snapshot(&full, kept, true) {
            Ok(g) => g,
            Err(e) => fail!("round {round}: after prune the remaining snapshot cannot be read: {e}"),
        };
        if let Some(d) = compare(&model, &got, &cmp) {
            fail!("round {round}: after prune the remaining snapshot differs from its source: {d}");
        }
        if let Err(e) = check_repo(&full, true) {
            fail!("round {round}: after prune: {e}");
        }
    }
    out = out
        .count("plans_ok", plans_ok)
        .count("plans_err", plans_err)
        .count("prunes_ok", prunes_ok)
        .count("prunes_err", prunes_err)
        .class_if(prunes_ok > 0, "prune_ok")
        .class_if(plans_err + prunes_err > 0, "prune_or_plan_err")
        .class_if(repacked, "repacked");
    out.nontrivial = prunes_ok > 0;
    out
}

pub fn spec() -> PropSpec {
    PropSpec {
        id: "C18",
        level: "exploration",
        rule: "config: proptest over (start = Repository::init with generated ConfigOptions | a version-1 repository) x 0..4 apply_config calls x smoke-tree shape; every ConfigOptions field independently unset or one of {0, 1, validation boundaries (63/64/65, 4095/4096, 2^k and 2^k±1, 99/100/101 %, compression -8/-7/22/23 and the zstd limits), interior, u32::MAX±1, 2^40, 2^63, u64::MAX}, half of the chunker groups drawn as coherent rabin/fixed parameter sets with single members pushed over a boundary; smoke run = backup of 1-5 files sized relative to the accepted chunk size (0, 1, size-1/size/size+1, 2x, 5x, min±1, max, max+1, 3x max; capped at 300 kB and 64 smallest chunks) + subdirectory + symlink, fresh open, ls/dump = model, check --read-data, forget, prune (default | unlimited repack | repack-all + instant delete), restore to disk = model, check --read-data. Non-trivial = the case names at least one boundary/huge value, at least one named option set was accepted, and the smoke run (including prune) completed. prune_limits: proptest over (small repository with two snapshots related by an edit script, one forgotten) x PruneOptions with max_unused / max_repack in {0,1,5,10,50,99,100,101,200,1000,u32::MAX,2^40,u64::MAX/100,u64::MAX % ; size 0,1,interior,u32::MAX,u64::MAX ; unlimited}, keep_pack / keep_delete spans {0, ±1 s … ±631107417600 s, ±23 h, ±175307616 h, ±1 d … ±7304484 d, ±1 y … ±19998 y}, all boolean switches, 1-2 rounds. Non-trivial = at least one prune returned Ok and the remaining snapshot was verified.",
        assumptions: vec![
            "byte sizes are produced the way the CLI does it, by parsing the decimal number (the harness cannot name the ByteSize type)",
            "prune returning Err is an admissible outcome (the statement only excludes panics); the repository state after a failed prune is not judged here",
            "the harness is built with overflow checks (like the repository's own test profile), so arithmetic overflow counts as a panic",
            "spans are generated inside the limits of jiff::Span; fast_repack together with repack_uncompressed is generated although the CLI declares them conflicting (the public type allows it)",
        ],
        subs: vec![
            Box::new(Sub {
                name: "config",
                cases_quick: 1000,
                cases_thorough: 40_000,
                max_shrink_iters: 300,
                strategy: cfg_strategy,
                run: run_config,
            }) as Box<dyn DynSub>,
            Box::new(Sub {
                name: "prune_limits",
                cases_quick: 300,
                cases_thorough: 12_000,
                max_shrink_iters: 300,
                strategy: prune_strategy,
                run: run_prune,
            }) as Box<dyn DynSub>,
        ],
        extra: None,
    }
}
