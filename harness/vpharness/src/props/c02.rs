//! C02 — Forget and prune never lose data still referenced by a snapshot.
//!
//! Generated: histories of backup / forget / prune (all prune options) plus craft operations that
//! create the repository shapes named in the quantifier (duplicate blobs, duplicate index entries,
//! unreferenced packs, already-marked packs, blobs re-used from marked packs, tree/data id sharing).
//! Oracle: a model of every live snapshot, checked after *every* operation through a fresh handle;
//! `check --read-data` after every prune and at the end; the two-phase-deletion invariant.

use std::collections::BTreeMap;

use proptest::prelude::*;
use serde::{Deserialize, Serialize};
use vpcore::fmt::Id32;

use crate::{
    engine::{Ctx, DynSub, Outcome, PropSpec, Sub},
    r#gen::tree,
    history::{HOp, PruneCfg, World, hop},
    model::MNode,
    repo::{CheckVerdict, RepoCfg, repo_cfg},
};

#[derive(Debug, Clone, Serialize, Deserialize)]
pub struct Case {
    pub cfg: RepoCfg,
    pub tree: MNode,
    pub ops: Vec<HOp>,
}

fn strategy(ctx: &Ctx) -> BoxedStrategy<Case> {
    let len = if ctx.tier.is_thorough() { 16 } else { 9 };
    repo_cfg()
        .prop_flat_map(move |cfg| {
            let mut p = super::c07::params(&cfg);
            p.file_cap = 200_000;
            (Just(cfg), tree(p), prop::collection::vec(hop(p, true), 2..=len))
        })
        .prop_map(|(cfg, tree, ops)| Case { cfg, tree, ops })
        .boxed()
}

/// Run a history with the C02 invariants; shared with other properties that only need the final
/// state (they pass `judge = false` and get the world back).
pub fn run_history(c: &Case, out: &mut Outcome) -> Result<World, String> {
    let mut w = World::new(&c.cfg, &c.tree)?;
    // every history starts with one backup so that there is something to lose
    let first = HOp::Backup {
        edits: vec![],
        parent: false,
    };
    let mut ops: Vec<&HOp> = vec![&first];
    ops.extend(c.ops.iter());
    let mut marked_at: BTreeMap<Id32, i64> = BTreeMap::new();
    for (i, op) in ops.iter().enumerate() {
        let packs_before = w.packs();
        let view_before = w.index().map_err(|e| format!("op #{i}: index unreadable before the operation: {e}"))?;
        let info = w.step(op).map_err(|e| format!("op #{i} {}: {e}", op_name(op)))?;
        w.verify_snapshots()
            .map_err(|e| format!("after op #{i} {}: {e}", op_name(op)))?;
        let view = w.index().map_err(|e| format!("after op #{i}: index unreadable: {e}"))?;
        let packs_after = w.packs();
        // every pack an index file lists must exist
        for p in view.packs.keys().chain(view.marked.keys()) {
            if !packs_after.contains(p) {
                return Err(format!(
                    "after op #{i} {}: pack {} is listed by the index but not in storage",
                    op_name(op),
                    &hex::encode(p)[..8]
                ));
            }
        }
        let prune_cfgs: Vec<&PruneCfg> = match op {
            HOp::Prune(p) => vec![p],
            HOp::PruneThenStaleBackup { prune, .. } => vec![prune],
            HOp::PrunesThenStaleBackup { prunes, .. } => prunes.iter().collect(),
            _ => vec![],
        };
        // the harness's own record of when (in hours of `HOp::Age` time) a pack was first seen
        // marked; the time recorded in the index is the library's business and not trusted here
        let marked_since: BTreeMap<Id32, i64> = view_before
            .marked
            .keys()
            .map(|k| (*k, *marked_at.get(k).unwrap_or(&w.vhours)))
            .collect();
        marked_at.retain(|k, _| view.marked.contains_key(k));
        for k in view.marked.keys() {
            _ = marked_at.entry(*k).or_insert(w.vhours);
        }
        // several prunes inside one operation are judged as one: all of them are keep-delete 23 h
        if let Some(p) = prune_cfgs.first().copied() {
            if !p.instant_delete {
                // two-phase deletion: a pack may disappear only if it was already marked before
                // this prune and the keep-delete time (0) has passed
                for gone in packs_before.difference(&packs_after) {
                    let was_marked = view_before.marked.contains_key(gone);
                    let marked_for = marked_since.get(gone).map_or(0, |since| w.vhours - since);
                    if !(was_marked && (!p.keep_delete_23h || marked_for >= 23)) {
                        return Err(format!(
                            "after op #{i}: a non-instant prune (keep-delete {}) removed pack {} which was {}",
                            if p.keep_delete_23h { "23h" } else { "0" },
                            &hex::encode(gone)[..8],
                            if was_marked {
                                format!("marked for deletion only {marked_for} h ago")
                            } else {
                                "not marked for deletion before".to_string()
                            }
                        ));
                    }
                }
                if !view.marked.is_empty() {
                    w.repacked_or_marked = true;
                    *out = std::mem::take(out).class("prune_marked_packs");
                }
                for (pid, _) in &view.marked {
                    let f = view
                        .files
                        .values()
                        .flat_map(|f| &f.packs_to_delete)
                        .find(|ip| vpcore::fmt::parse_id(&ip.id).as_ref() == Some(pid));
                    if f.is_some_and(|ip| ip.time.is_none()) {
                        return Err(format!("after op #{i}: pack {} is marked for deletion without a time", &hex::encode(pid)[..8]));
                    }
                }
            }
            if packs_after.difference(&packs_before).next().is_some() {
                *out = std::mem::take(out).class("prune_repacked");
            }
        }
        if (info.was_prune || i + 1 == ops.len()) && !w.has_pending() {
            match w.check(true) {
                CheckVerdict::Clean => {}
                CheckVerdict::Inconclusive(_) => *out = std::mem::take(out).class("check_inconclusive"),
                CheckVerdict::Errors(e) => {
                    return Err(format!("after op #{i} {}: {e}", op_name(op)));
                }
            }
        }
    }
    Ok(w)
}

pub fn op_name(op: &HOp) -> &'static str {
    match op {
        HOp::Backup { .. } => "backup",
        HOp::Forget { .. } => "forget",
        HOp::Prune(_) => "prune",
        HOp::DupBackup { .. } => "backup-by-two-handles",
        HOp::DupIndex { .. } => "duplicate-index-file",
        HOp::CutBackup { .. } => "interrupted-backup",
        HOp::PruneThenStaleBackup { .. } => "prune-then-backup-on-stale-handle",
        HOp::PrunesThenStaleBackup { .. } => "several-prunes-then-backup-on-stale-handle",
        HOp::Age { .. } => "time-passes",
    }
}

pub fn run(c: &Case, _ctx: &Ctx) -> Outcome {
    let mut out = Outcome::pass();
    for op in &c.ops {
        out = out.class(format!("op_{}", op_name(op)));
    }
    match run_history(c, &mut out) {
        Ok(w) => {
            out.nontrivial = w.prunes_after_forget > 0 || w.craft_before_prune;
            out = out
                .class_if(w.prunes_after_forget > 0, "prune_after_forget")
                .class_if(w.recovered > 0, "snapshot_recovered_by_prune");
            out
        }
        Err(e) => {
            out.failure = Some(e);
            out
        }
    }
}

pub fn spec() -> PropSpec {
    PropSpec {
        id: "C02",
        level: "exploration",
        rule: "proptest: configuration x source tree x history of 2–9 (quick) / 2–16 (thorough) operations after an initial backup: backup of the edited source (with or without parent), forget of a generated subset, prune with generated options (max-unused 0 %/1–99 %/size/unlimited, max-repack weighted to unlimited, keep-pack 0/1 h, keep-delete 0/23 h, instant-delete, early-delete-index only with instant-delete, fast-repack, repack-all, repack-uncompressed on v2, no-resize, repack-cacheable-only), and craft operations: the same state backed up by two handles that loaded the index before (duplicate blobs), an index file stored twice (duplicate entries), a backup cut after 0–13 storage writes (unreferenced packs), a backup on a handle that loaded the index before a non-instant prune (blobs re-used from marked packs; must be readable after the next prune). Files of the source contain the serialisation of an empty directory with probability ≈ 1/40 each (tree/data id sharing). Non-trivial = a prune after a forget, or a craft operation; distinct by hash of the case.",
        assumptions: vec![
            "prune decisions that depend on elapsed real time are exercised only at keep-delete / keep-pack 0 and >> test duration",
            "a non-instant prune may remove a pack only if it was already marked before that prune and keep-delete is 0",
            "the persistent index hand-back race of check under CPU starvation is counted as inconclusive, not judged",
        ],
        subs: vec![Box::new(Sub {
            name: "history",
            cases_quick: 300,
            cases_thorough: 8000,
            max_shrink_iters: 250,
            strategy,
            run,
        }) as Box<dyn DynSub>],
        extra: None,
    }
}
