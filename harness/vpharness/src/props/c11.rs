//! C11 — Incremental backup with a parent equals a full backup.
//!
//! Generated: (state 1, edit script, parent options, optional loss of parent blobs). The generator
//! enforces the statement's premise: every content change also changes size, mtime or (unless
//! ctime is ignored) ctime. Oracle (differential): the tree id of the parent-based backup equals
//! the tree id of a forced backup of the same state in a second repository with the same
//! configuration; plus model read-back, check, summary arithmetic, skip-if-unchanged.

use std::collections::BTreeMap;

use proptest::prelude::*;
use rustic_core::{BackupOptions, FileType, RepairIndexOptions};
use serde::{Deserialize, Serialize};

use crate::{
    engine::{Ctx, DynSub, Outcome, PropSpec, Sub, guarded, pick_idx},
    r#gen::{Edit, apply_edit, edit, tree},
    inspect::{index_view, to_id},
    membe::Storage,
    model::{FlatKind, MKind, MNode, ReadSchedule, flatten},
    repo::{
        CmpOpts, RepoCfg, backup_tree, check_repo, compare, estr, force_opts, init_repo, open_full,
        open_ids, open_repo, read_snapshot, repo_cfg, snap_template,
    },
};

#[derive(Debug, Clone, Copy, Serialize, Deserialize, PartialEq, Eq)]
pub enum TimeMode {
    /// a writer: mtime and ctime move
    Both,
    /// mtime restored by the writer, ctime moves (only when ctime is not ignored)
    CtimeOnly,
    /// times untouched, only legal when the size changed
    SizeOnly,
}

#[derive(Debug, Clone, Serialize, Deserialize)]
pub struct Case {
    pub cfg: RepoCfg,
    pub tree: MNode,
    /// edits leading to an intermediate state that is backed up as a second parent
    pub mid: Option<Vec<Edit>>,
    pub edits: Vec<Edit>,
    pub time_mode: TimeMode,
    pub ignore_ctime: bool,
    pub ignore_inode: bool,
    pub skip_if_unchanged: bool,
    /// parents given explicitly (by id) instead of "latest of the group"
    pub explicit: bool,
    /// remove one data pack of the parent from storage and index before the backup
    pub lose_pack: Option<u16>,
    /// renumber all inodes between the backups (as after a remount)
    pub renumber_inodes: bool,
    /// the times that move for a changed file move only within their second (by this many
    /// nanoseconds, wrapping inside the second) — a writer finishing right after the parent backup
    #[serde(default)]
    pub subsecond: Option<u32>,
}

fn strategy(_ctx: &Ctx) -> BoxedStrategy<Case> {
    repo_cfg()
        .prop_flat_map(|cfg| {
            let p = super::c07::params(&cfg);
            (
                Just(cfg),
                tree(p),
                prop::option::weighted(0.3, prop::collection::vec(edit(p), 1..3)),
                (
                    prop::collection::vec(edit(p), 0..5),
                    // same-size in-place change: the case only time comparison can notice
                    prop::option::weighted(
                        0.35,
                        (any::<u16>(), any::<u16>(), crate::r#gen::content(p.unit / 4 + 1, p.unit.max(16)))
                            .prop_map(|(f, o, c)| Edit::Overwrite(f, o, c)),
                    ),
                )
                    .prop_map(|(mut v, o)| {
                        v.extend(o);
                        v
                    }),
                prop_oneof![3 => Just(TimeMode::Both), 2 => Just(TimeMode::CtimeOnly), 2 => Just(TimeMode::SizeOnly)],
                (any::<bool>(), any::<bool>(), prop::bool::weighted(0.3), any::<bool>()),
                prop::option::weighted(0.25, any::<u16>()),
                (
                    prop::bool::weighted(0.3),
                    prop::option::weighted(0.3, prop_oneof![Just(0u32), Just(999_999_998u32), 0u32..999_999_999]),
                ),
            )
        })
        .prop_map(
            |(cfg, tree, mid, edits, time_mode, (ignore_ctime, ignore_inode, skip, explicit), lose_pack, (renumber_inodes, subsecond))| Case {
                cfg,
                tree,
                mid,
                edits,
                time_mode,
                ignore_ctime,
                ignore_inode,
                skip_if_unchanged: skip,
                explicit,
                lose_pack,
                renumber_inodes,
                subsecond,
            },
        )
        .boxed()
}

/// Apply the script and then adjust the times of changed files according to `mode`, never leaving
/// the statement's premise.
fn apply_script(tree: &mut MNode, script: &[Edit], mode: TimeMode, ignore_ctime: bool, tick: i64, subsecond: Option<u32>) -> (bool, bool) {
    let before = flatten(tree);
    // remember old (size, mtime, ctime) per inode for files
    fn collect(n: &MNode, out: &mut BTreeMap<u64, (usize, crate::model::MTime, crate::model::MTime, Vec<u8>)>) {
        if let MKind::File { content } = &n.kind {
            _ = out.insert(n.inode, (content.len(), n.mtime, n.ctime, content.bytes()));
        }
        for c in n.children() {
            collect(c, out);
        }
    }
    let mut old = BTreeMap::new();
    collect(tree, &mut old);
    let mut content_changed = false;
    for e in script {
        let eff = apply_edit(tree, e, tick);
        content_changed |= eff.content_changed;
    }
    fn adjust(
        n: &mut MNode,
        old: &BTreeMap<u64, (usize, crate::model::MTime, crate::model::MTime, Vec<u8>)>,
        mode: TimeMode,
        ignore_ctime: bool,
        subsecond: Option<u32>,
    ) {
        if let MKind::File { content } = &n.kind {
            if let Some((osize, omtime, octime, obytes)) = old.get(&n.inode) {
                let changed = content.bytes() != *obytes;
                if changed {
                    let size_changed = content.len() != *osize;
                    match mode {
                        TimeMode::Both => {}
                        TimeMode::CtimeOnly => {
                            if !ignore_ctime || size_changed {
                                n.mtime = *omtime;
                            }
                        }
                        TimeMode::SizeOnly => {
                            if size_changed {
                                n.mtime = *omtime;
                                n.ctime = *octime;
                            }
                        }
                    }
                    if let Some(d) = subsecond {
                        // whichever time moved, moved inside its second only
                        let within = |old: &crate::model::MTime| {
                            crate::model::MTime(old.0, ((u64::from(old.1) + 1 + u64::from(d) % 999_999_999) % 1_000_000_000) as u32)
                        };
                        if n.mtime != *omtime {
                            n.mtime = within(omtime);
                        }
                        if n.ctime != *octime {
                            n.ctime = within(octime);
                        }
                    }
                }
            }
        }
        if let Some(ch) = n.children_mut() {
            for c in ch {
                adjust(c, old, mode, ignore_ctime, subsecond);
            }
        }
    }
    adjust(tree, &old, mode, ignore_ctime, subsecond);
    (content_changed, flatten(tree) != before)
}

fn renumber(n: &mut MNode, delta: u64) {
    n.inode += delta;
    if let Some(ch) = n.children_mut() {
        for c in ch {
            renumber(c, delta);
        }
    }
}

pub fn run(c: &Case, _ctx: &Ctx) -> Outcome {
    let storage = Storage::new();
    let key = c.cfg.key64();
    let mut out = Outcome::pass();
    macro_rules! fail {
        ($($arg:tt)*) => {{
            out.failure = Some(format!($($arg)*));
            return out;
        }};
    }
    if let Err(e) = init_repo(storage.handle(), &c.cfg) {
        fail!("{e}");
    }
    // parent 1
    let mut tree = c.tree.clone();
    let mut parents = Vec::new();
    let do_backup = |tree: &MNode, opts: &BackupOptions, t: i64| -> Result<rustic_core::repofile::SnapshotFile, String> {
        let repo = open_ids(&storage, &c.cfg)?;
        backup_tree(&repo, tree, &ReadSchedule::default(), opts, snap_template(t, "host", "", ""))
    };
    match do_backup(&tree, &force_opts(), 1_700_000_000) {
        Ok(s) => parents.push(s),
        Err(e) => fail!("first backup: {e}"),
    }
    if let Some(mid) = &c.mid {
        _ = apply_script(&mut tree, mid, TimeMode::Both, c.ignore_ctime, 500, None);
        match do_backup(&tree, &force_opts(), 1_700_000_100) {
            Ok(s) => parents.push(s),
            Err(e) => fail!("second parent backup: {e}"),
        }
        out = out.class("two_parents");
    }
    let parent_flat = flatten(&tree);
    let (content_changed, any_change) = apply_script(&mut tree, &c.edits, c.time_mode, c.ignore_ctime, 1000, c.subsecond);
    if c.renumber_inodes {
        renumber(&mut tree, 10_000_000);
        out = out.class("inodes_renumbered");
    }
    let model = flatten(&tree);

    // optionally lose one data pack of the parents (storage + index, via repair_index)
    let mut lost = false;
    if let Some(sel) = c.lose_pack {
        if let Ok(view) = index_view(&storage, &key) {
            let mut data_packs: Vec<_> = view
                .packs
                .iter()
                .filter(|(_, blobs)| blobs.iter().all(|b| b.0 == vpcore::fmt::BType::Data) && !blobs.is_empty())
                .collect();
            // pack ids are random (nonces): order the candidates by their content instead
            data_packs.sort_by_key(|(_, b)| b.iter().map(|x| x.1).min());
            let data_packs: Vec<_> = data_packs.into_iter().map(|(p, _)| *p).collect();
            if !data_packs.is_empty() {
                let victim = data_packs[pick_idx(sel, data_packs.len())];
                _ = storage.del(FileType::Pack, &to_id(&victim));
                let r = guarded(|| -> Result<(), String> {
                    let repo = open_repo(storage.handle(), &c.cfg)?;
                    repo.repair_index(&RepairIndexOptions::default(), false)
                        .map_err(|e| format!("repair_index: {}", estr(&e)))
                });
                match r {
                    Ok(Ok(())) => lost = true,
                    Ok(Err(e)) => fail!("while removing a parent pack: {e}"),
                    Err(p) => fail!("repair_index panicked: {p}"),
                }
                out = out.class("parent_pack_lost");
            }
        }
    }

    // the backup under test
    let mut opts = BackupOptions::default();
    opts.parent_opts.ignore_ctime = c.ignore_ctime;
    opts.parent_opts.ignore_inode = c.ignore_inode;
    opts.parent_opts.skip_if_unchanged = c.skip_if_unchanged;
    if c.explicit {
        opts.parent_opts.parents = parents.iter().map(|p| p.id.to_hex().to_string()).collect();
    }
    let snaps_before = storage.ids(FileType::Snapshot).len();
    let snap = match do_backup(&tree, &opts, 1_700_000_200) {
        Ok(s) => s,
        Err(e) => fail!("parent-based backup: {e}"),
    };
    let snaps_after = storage.ids(FileType::Snapshot).len();

    // reference: forced backup of the same state in a second repository with the same config
    let storage2 = Storage::new();
    if let Err(e) = init_repo(storage2.handle(), &c.cfg) {
        fail!("{e}");
    }
    let forced = {
        let repo = match open_ids(&storage2, &c.cfg) {
            Ok(r) => r,
            Err(e) => fail!("{e}"),
        };
        match backup_tree(&repo, &tree, &ReadSchedule::default(), &force_opts(), snap_template(1_700_000_200, "host", "", "")) {
            Ok(s) => s,
            Err(e) => fail!("forced reference backup: {e}"),
        }
    };
    if snap.tree != forced.tree {
        fail!(
            "tree of the parent-based backup ({}) differs from the tree of a backup that reads every file ({})",
            snap.tree,
            forced.tree
        );
    }
    // skip-if-unchanged
    let newest_parent = parents.last().unwrap();
    let same_as_parent = if c.explicit { parents[0].tree == snap.tree } else { newest_parent.tree == snap.tree };
    if c.skip_if_unchanged && !lost {
        let written = snaps_after > snaps_before;
        if written == same_as_parent {
            fail!(
                "skip-if-unchanged: tree {} the parent's, but a snapshot file was {}",
                if same_as_parent { "equals" } else { "differs from" },
                if written { "written" } else { "not written" }
            );
        }
        out = out.class("skip_if_unchanged");
    }
    // read back (from the snapshot's tree even if no snapshot file was written)
    let full = match open_full(&storage, &c.cfg) {
        Ok(r) => r,
        Err(e) => fail!("{e}"),
    };
    let got = match read_snapshot(&full, &snap, true) {
        Ok(g) => g,
        Err(e) => fail!("parent-based backup returned Ok but its tree cannot be read: {e}"),
    };
    if let Some(d) = compare(&model, &got, &CmpOpts { full_meta: true, content: true }) {
        fail!("parent-based snapshot differs from the source: {d}");
    }
    if lost {
        // the lost pack's blobs that are still needed must have been stored again: reading
        // everything back above proves it; the old parents may be damaged now, so no full check
    } else if let Err(e) = check_repo(&full, true) {
        fail!("after the parent-based backup: {e}");
    }
    if let Some(s) = &snap.summary {
        if s.files_new + s.files_changed + s.files_unmodified != s.total_files_processed {
            fail!(
                "summary: new {} + changed {} + unmodified {} != processed {}",
                s.files_new,
                s.files_changed,
                s.files_unmodified,
                s.total_files_processed
            );
        }
        let reused = s.files_unmodified > 0;
        let n_files = model.values().filter(|e| matches!(e.kind, FlatKind::File(_))).count() as u64;
        if s.total_files_processed != (model.len() as u64 - model.values().filter(|e| matches!(e.kind, FlatKind::Dir)).count() as u64) {
            // processed counts all non-directory entries
            fail!("summary: {} entries processed, the source has {} non-directory entries ({} files)", s.total_files_processed, model.len() - model.values().filter(|e| matches!(e.kind, FlatKind::Dir)).count(), n_files);
        }
        out = out.class_if(reused, "file_reused_from_parent");
        out.nontrivial = (reused && content_changed) || (any_change && parent_flat.len() != model.len() && reused);
    }
    out = out
        .class(format!("time_mode_{:?}", c.time_mode))
        .class_if(c.subsecond.is_some() && content_changed, "times_move_within_the_second")
        .class_if(c.ignore_ctime, "ignore_ctime")
        .class_if(c.ignore_inode, "ignore_inode")
        .class_if(c.explicit, "explicit_parents")
        .class_if(content_changed, "content_changed");
    out
}

pub fn spec() -> PropSpec {
    PropSpec {
        id: "C11",
        level: "exploration",
        rule: "proptest: configuration x parent state (optionally a second, edited parent state) x edit script of 0–4 edits (content change with/without size change, touch, chmod, rename, move, type change file<->dir<->symlink, add/remove, duplicate) whose changed files keep the premise (mtime+ctime move; only ctime moves — unless ctime is ignored and the size is unchanged; only the size changes; optionally the moving times move by nanoseconds inside their second) x parent options (latest-of-group or explicit ids, 1–2 parents, ignore-ctime, ignore-inode, skip-if-unchanged) x optional loss of one parent data pack (removed from storage, index repaired) x optional renumbering of all inodes. Non-trivial = at least one file reused from the parent and at least one file whose content changed (or entries added/removed); distinct by hash of the case.",
        assumptions: vec![
            "the reference is the library's own forced backup into a second repository with identical configuration and polynomial: tree ids are a pure function of the generated source (C01 ties forced backups to the model)",
            "the generator never produces a content change that leaves size, mtime and (considered) ctime all unchanged — outside the statement's premise",
        ],
        subs: vec![Box::new(Sub {
            name: "parent",
            cases_quick: 600,
            cases_thorough: 20_000,
            max_shrink_iters: 300,
            strategy,
            run,
        }) as Box<dyn DynSub>],
        extra: None,
    }
}
