//! C06 — Chunking is a lossless, bounded, content-defined partition.
//!
//! Generated: (polynomial, average, min, max) incl. tiny values, fixed-size chunker sizes,
//! streams built from random / zero / periodic / boundary-dense / repeated segments, read
//! schedules (short reads, 1-byte reads, Interrupted errors) and size hints.
//! Oracle: the from-scratch reference chunker of `vpcore::chunkref` (literal reading of the
//! statement), schedule invariance, suffix locality, exact sizes for the fixed-size chunker.

use std::sync::Arc;

use proptest::prelude::*;
use rustic_core::repofile::{Chunker, ConfigFile};
use serde::{Deserialize, Serialize};
use vpcore::chunkref::{CutKind, FpTable, WINDOW, fixed_chunks, fp_bitserial, quirk_chunks, ref_chunks};

use crate::{
    engine::{Ctx, DynSub, Outcome, PropSpec, Sub, guarded},
    model::{Piece, ReadSchedule, SchedReader, splitmix},
};

#[derive(Debug, Clone, Serialize, Deserialize, PartialEq, Eq)]
pub enum Seg {
    P(Piece),
    /// bytes searched so that the reference fingerprint hits the mask about every `gap` bytes
    Dense { seed: u64, gap: u16, len: u32 },
    /// repeat of the `len` bytes starting at `from` of what has been built so far
    Repeat { from: u32, len: u32 },
}

#[derive(Debug, Clone, Copy, Serialize, Deserialize, PartialEq, Eq)]
pub enum Hint {
    Exact,
    Zero,
    TooSmall,
    TooLarge,
    Max,
}

#[derive(Debug, Clone, Serialize, Deserialize)]
pub struct Case {
    pub rabin: bool,
    pub poly: u64,
    pub avg_log2: u8,
    pub min: u32,
    pub max: u32,
    pub fixed_size: u32,
    pub segs: Vec<Seg>,
    /// alternative prefix for the suffix-locality relation (replaces the first segment)
    pub alt_prefix: Vec<Seg>,
    pub sched: ReadSchedule,
    pub hint: Hint,
}

pub const POLYS: [u64; 4] = [
    0x003D_A335_8B4D_C173,
    0x0030_0000_0000_0065, // degree 53, sparse (not necessarily irreducible: arithmetic only)
    0x003F_FFFF_FFFF_FFFF,
    0x0025_5555_5555_5555,
];

fn poly() -> impl Strategy<Value = u64> {
    prop_oneof![
        3 => prop::sample::select(POLYS.to_vec()),
        1 => any::<u64>().prop_map(|p| (p & ((1 << 54) - 1)) | (1 << 53) | 1),
    ]
}

fn piece(maxlen: u32) -> impl Strategy<Value = Piece> {
    prop_oneof![
        3 => (any::<u64>(), 0..=maxlen).prop_map(|(seed, len)| Piece::Rand { seed, skip: 0, len }),
        1 => (0..=maxlen).prop_map(|len| Piece::Zeros { len }),
        1 => (any::<u64>(), 1u32..300, 0..=maxlen)
            .prop_map(|(seed, p, len)| Piece::Period { seed, p, skip: 0, len }),
        1 => prop::collection::vec(any::<u8>(), 0..40).prop_map(Piece::Lit),
    ]
}

fn seg(maxlen: u32) -> impl Strategy<Value = Seg> {
    prop_oneof![
        5 => piece(maxlen).prop_map(Seg::P),
        2 => (any::<u64>(), 1u16..400, 0..=maxlen.min(20_000))
            .prop_map(|(seed, gap, len)| Seg::Dense { seed, gap, len }),
        1 => (any::<u32>(), 0..=maxlen).prop_map(|(from, len)| Seg::Repeat { from, len }),
    ]
}

pub fn sched() -> impl Strategy<Value = ReadSchedule> {
    prop_oneof![
        1 => Just(ReadSchedule::default()),
        1 => Just(ReadSchedule { sizes: vec![1], interrupt_every: 0 }),
        3 => (prop::collection::vec(prop_oneof![1u16..8, 1u16..600, 4000u16..8192], 1..6), prop_oneof![Just(0u8), 2u8..9])
            .prop_map(|(sizes, interrupt_every)| ReadSchedule { sizes, interrupt_every }),
    ]
}

fn strategy(ctx: &Ctx) -> BoxedStrategy<Case> {
    let big = ctx.tier.is_thorough();
    (
        prop::bool::weighted(0.85),
        poly(),
        // average: mostly small so that streams hold many chunks
        prop_oneof![
            8 => 6u8..=11,
            1 => 0u8..=6,
            2 => 12u8..=16,
            1 => 17u8..=20,
        ],
        any::<u32>(),
        prop_oneof![Just(0u8), Just(1), Just(2), Just(3), Just(4), Just(5), Just(6)],
        any::<u32>(),
        prop_oneof![Just(0u8), Just(1), Just(2), Just(3), Just(4)],
        prop_oneof![3 => 1u32..200, 3 => 200u32..9000, 1 => 9000u32..=131_072],
        any::<u16>(),
    )
        .prop_flat_map(move |(rabin, poly, k, minr, mink, maxr, maxk, fixed_size, _)| {
            let avg: u32 = 1 << k;
            let min = match mink {
                0 => avg,
                1 => avg / 2,
                2 => avg / 4,
                3 => 64.min(avg),
                4 => 65.min(avg),
                5 => minr % (avg + 1),
                _ => [0, 1, 63][(minr % 3) as usize].min(avg),
            };
            // keep refused parameter sets (min below the 64-byte window) to a small share
            let min = if min < 64 && avg >= 64 && minr % 8 != 0 {
                64 + minr % (avg - 63)
            } else {
                min
            };
            let max = match maxk {
                0 => avg,
                1 => avg + 1,
                2 => avg * 2,
                3 => avg * 8,
                _ => avg + maxr % (15 * avg + 1),
            };
            // stream: up to ~8 max (bounded), in a few segments
            let unit = if rabin { max } else { fixed_size };
            let cap: u32 = if big { 1 << 21 } else { 1 << 17 };
            let seglen = (unit.saturating_mul(3)).clamp(16, cap / 2);
            (
                Just((rabin, poly, k, min, max, fixed_size)),
                prop::collection::vec(seg(seglen), 1..6),
                prop::collection::vec(seg(seglen.min(5000)), 0..2),
                sched(),
                prop_oneof![
                    Just(Hint::Exact),
                    Just(Hint::Zero),
                    Just(Hint::TooSmall),
                    Just(Hint::TooLarge),
                    Just(Hint::Max)
                ],
            )
        })
        .prop_map(
            |((rabin, poly, k, min, max, fixed_size), segs, alt_prefix, sched, hint)| Case {
                rabin,
                poly,
                avg_log2: k,
                min,
                max,
                fixed_size,
                segs,
                alt_prefix,
                sched,
                hint,
            },
        )
        .boxed()
}

pub fn build_stream(segs: &[Seg], tab: Option<(&FpTable, u64)>, cap: usize) -> Vec<u8> {
    let mut out: Vec<u8> = Vec::new();
    for s in segs {
        if out.len() >= cap {
            break;
        }
        match s {
            Seg::P(p) => p.write_to(&mut out),
            Seg::Repeat { from, len } => {
                if !out.is_empty() {
                    let from = (*from as usize) % out.len();
                    let len = (*len as usize).min(out.len() - from);
                    let copy = out[from..from + len].to_vec();
                    out.extend_from_slice(&copy);
                }
            }
            Seg::Dense { seed, gap, len } => {
                let mut st = *seed;
                let mut since = 0u16;
                for _ in 0..*len {
                    st = splitmix(st);
                    let mut b = st as u8;
                    since += 1;
                    if let Some((tab, mask)) = tab {
                        if since >= *gap && out.len() + 1 >= WINDOW {
                            // search a byte value that makes the window ending here a boundary
                            let mut w = [0u8; WINDOW];
                            w[..WINDOW - 1].copy_from_slice(&out[out.len() + 1 - WINDOW..]);
                            for cand in 0..=255u8 {
                                let c = cand.wrapping_add(b);
                                w[WINDOW - 1] = c;
                                if tab.fp(&w) & mask == 0 {
                                    b = c;
                                    since = 0;
                                    break;
                                }
                            }
                        }
                    }
                    out.push(b);
                }
            }
        }
    }
    out.truncate(cap);
    out
}

pub fn config_of(c: &Case) -> ConfigFile {
    let mut cfg = ConfigFile::default();
    cfg.version = 2;
    cfg.chunker_polynomial = format!("{:x}", c.poly);
    if c.rabin {
        cfg.chunker = Some(Chunker::Rabin);
        cfg.chunk_size = Some(1usize << c.avg_log2);
        cfg.chunk_min_size = Some(c.min as usize);
        cfg.chunk_max_size = Some(c.max as usize);
    } else {
        cfg.chunker = Some(Chunker::FixedSize);
        cfg.chunk_size = Some(c.fixed_size as usize);
    }
    cfg
}

pub enum LibChunks {
    Ok(Vec<Vec<u8>>),
    Refused(String),
    Err(String),
    Panic(String),
    Runaway,
}

pub fn lib_chunks(cfg: &ConfigFile, data: &Arc<Vec<u8>>, sched: &ReadSchedule, hint: usize) -> LibChunks {
    let reader = SchedReader::new(data.clone(), sched.clone());
    let limit = data.len() + 16;
    let r = guarded(|| {
        let it = match rustic_core::verif::chunk_iter(cfg, reader, hint) {
            Ok(it) => it,
            Err(e) => return LibChunks::Refused(e.display_log()),
        };
        let mut out = Vec::new();
        let mut total = 0usize;
        for ch in it {
            match ch {
                Ok(c) => {
                    total += c.len();
                    out.push(c);
                    // an endless stream of (empty) chunks must not hang the check
                    if total > limit || out.len() > limit {
                        return LibChunks::Runaway;
                    }
                }
                Err(e) => return LibChunks::Err(e.display_log()),
            }
        }
        LibChunks::Ok(out)
    });
    match r {
        Ok(x) => x,
        Err(p) => LibChunks::Panic(p),
    }
}

thread_local! {
    static TABS: std::cell::RefCell<Vec<(u64, Arc<FpTable>)>> = const { std::cell::RefCell::new(Vec::new()) };
}

pub fn table(poly: u64) -> Arc<FpTable> {
    TABS.with(|t| {
        let mut t = t.borrow_mut();
        if let Some((_, tab)) = t.iter().find(|(p, _)| *p == poly) {
            return tab.clone();
        }
        let tab = Arc::new(FpTable::new(poly));
        if t.len() >= 8 {
            _ = t.remove(0);
        }
        t.push((poly, tab.clone()));
        tab
    })
}

fn hint_of(h: Hint, n: usize) -> usize {
    match h {
        Hint::Exact => n,
        Hint::Zero => 0,
        Hint::TooSmall => n / 3,
        Hint::TooLarge => n * 2 + 17,
        Hint::Max => usize::MAX,
    }
}

fn lens(v: &[Vec<u8>]) -> Vec<usize> {
    v.iter().map(Vec::len).collect()
}

fn run(c: &Case, ctx: &Ctx) -> Outcome {
    let cap = if ctx.tier.is_thorough() { 1 << 22 } else { 1 << 18 };
    let avg = 1usize << c.avg_log2;
    let (min, max) = (c.min as usize, c.max as usize);
    let cfg = config_of(c);
    let tab = table(c.poly);
    let mask = (avg as u64) - 1;
    let data = Arc::new(build_stream(
        &c.segs,
        c.rabin.then_some((&*tab, mask)),
        cap,
    ));
    let n = data.len();
    let mut out = Outcome::pass()
        .class(if c.rabin { "rabin" } else { "fixed" })
        .class_if(n == 0, "empty_stream")
        .class_if(c.sched.sizes.iter().any(|s| *s < 64), "short_reads")
        .class_if(c.sched.interrupt_every > 0, "interrupts")
        .class_if(c.rabin && min < 4096, "min_lt_4096")
        .class_if(c.rabin && min < 64, "min_lt_64");

    // input-side predicates of known findings
    if c.rabin && min < WINDOW {
        out = out.known("rabin-min-below-window");
    } else if c.rabin && min < 4096 {
        out = out.known("rabin-min-below-readahead");
    }

    let got = lib_chunks(&cfg, &data, &c.sched, hint_of(c.hint, n));
    let chunks = match got {
        LibChunks::Ok(v) => v,
        LibChunks::Refused(_) => return out.skip("parameters_refused"),
        LibChunks::Err(e) => {
            out.failure = Some(format!("chunker returned an error on an in-memory stream: {e}"));
            return out;
        }
        LibChunks::Panic(p) => {
            out.failure = Some(format!(
                "chunker panicked (avg={avg} min={min} max={max} len={n}): {p}"
            ));
            return out;
        }
        LibChunks::Runaway => {
            out.failure = Some(format!(
                "chunker yields more chunks/bytes than the stream holds (avg={avg} min={min} max={max} len={n}): endless chunk sequence"
            ));
            return out;
        }
    };

    // lossless
    let concat: Vec<u8> = chunks.concat();
    if concat != *data {
        out.failure = Some(format!(
            "concatenation of chunks differs from the stream (stream {n} bytes, chunks {} bytes)",
            concat.len()
        ));
        return out;
    }
    if chunks.iter().any(Vec::is_empty) {
        out.failure = Some("an empty chunk was produced".into());
        return out;
    }
    let got_lens = lens(&chunks);

    if !c.rabin {
        let want = fixed_chunks(n, c.fixed_size as usize);
        if got_lens != want {
            out.failure = Some(format!(
                "fixed-size chunker (size {}): chunk lengths {:?} instead of {:?}",
                c.fixed_size,
                head(&got_lens),
                head(&want)
            ));
            return out;
        }
        out.nontrivial = got_lens.len() >= 3 && !c.sched.sizes.is_empty();
        return schedule_invariance(c, &cfg, &data, &got_lens, out);
    }

    // bounds
    for (i, l) in got_lens.iter().enumerate() {
        let last = i + 1 == got_lens.len();
        if *l > max || (!last && *l < min) {
            out.failure = Some(format!(
                "chunk #{i} has length {l}, outside [{min}, {max}] (last={last})"
            ));
            return out;
        }
    }

    if min >= WINDOW {
        let want = ref_chunks(&data, &tab, avg, min, max);
        // cross-check the table against the bit-serial definition at the first cut
        if let Some(first) = want.lens.first().filter(|l| **l >= WINDOW) {
            let w = &data[first - WINDOW..*first];
            assert_eq!(tab.fp(w), fp_bitserial(w, c.poly), "reference table self-check");
        }
        if got_lens != want.lens {
            let quirk = quirk_chunks(&data, &tab, avg, min, max);
            if quirk.lens != want.lens {
                // input-side: the two reference readings disagree on this stream
                out = out.known("rabin-prefill-skips-byte");
            }
            let idx = got_lens
                .iter()
                .zip(want.lens.iter())
                .position(|(a, b)| a != b)
                .unwrap_or(got_lens.len().min(want.lens.len()));
            out.failure = Some(format!(
                "cut points differ from the Rabin-fingerprint definition at chunk #{idx}: library {:?}, reference {:?} (avg={avg} min={min} max={max} len={n}; matches the 'prefill skips one byte' model: {})",
                got_lens.get(idx),
                want.lens.get(idx),
                quirk.lens == got_lens
            ));
            return out;
        }
        let fp_cuts = want.kinds.iter().filter(|k| **k == CutKind::Fingerprint).count();
        out = out
            .class_if(fp_cuts > 0, "has_fingerprint_cut")
            .class_if(want.kinds.contains(&CutKind::Max), "has_max_cut")
            .count("fingerprint_cuts", fp_cuts as u64)
            .count("chunks", got_lens.len() as u64);
        out.nontrivial = got_lens.len() >= 3 && fp_cuts >= 1 && c.sched.sizes.iter().any(|s| *s < 4096);

        // suffix locality: other prefix, same suffix
        if !c.segs.is_empty() {
            let first_len = build_stream(&c.segs[..1], Some((&*tab, mask)), cap).len().min(n);
            let suffix = &data[first_len..];
            let mut other = build_stream(&c.alt_prefix, Some((&*tab, mask)), cap / 4);
            let plen = other.len();
            other.extend_from_slice(suffix);
            let other = Arc::new(other);
            if let LibChunks::Ok(ch2) = lib_chunks(&cfg, &other, &ReadSchedule::default(), other.len()) {
                let cuts = |lens: &[usize], skip: usize| -> Vec<usize> {
                    let mut pos = 0;
                    let mut v = Vec::new();
                    for l in lens {
                        pos += l;
                        if pos >= skip {
                            v.push(pos - skip);
                        }
                    }
                    v
                };
                let a = cuts(&got_lens, first_len);
                let b = cuts(&lens(&ch2), plen);
                if let Some(common) = a.iter().find(|x| b.contains(x)) {
                    let ta: Vec<_> = a.iter().filter(|x| *x >= common).collect();
                    let tb: Vec<_> = b.iter().filter(|x| *x >= common).collect();
                    out = out.class("suffix_relation_checked");
                    if ta != tb {
                        out.failure = Some(format!(
                            "two streams sharing a suffix are cut differently after their common cut at suffix offset {common}"
                        ));
                        return out;
                    }
                }
            }
        }
    }
    schedule_invariance(c, &cfg, &data, &got_lens, out)
}

fn schedule_invariance(
    c: &Case,
    cfg: &ConfigFile,
    data: &Arc<Vec<u8>>,
    got_lens: &[usize],
    mut out: Outcome,
) -> Outcome {
    if c.sched == ReadSchedule::default() {
        return out;
    }
    match lib_chunks(cfg, data, &ReadSchedule::default(), data.len()) {
        LibChunks::Ok(plain) => {
            if lens(&plain) != got_lens {
                out.failure = Some(format!(
                    "chunk list depends on how the reader fragments its reads: {:?} with schedule {:?} vs {:?} unfragmented",
                    head(got_lens),
                    c.sched,
                    head(&lens(&plain))
                ));
            }
        }
        LibChunks::Panic(p) => out.failure = Some(format!("chunker panicked on the unfragmented reader: {p}")),
        _ => out.failure = Some("chunker failed on the unfragmented reader but not on the fragmented one".into()),
    }
    out
}

fn head(v: &[usize]) -> Vec<usize> {
    v.iter().take(12).copied().collect()
}

pub fn spec() -> PropSpec {
    PropSpec {
        id: "C06",
        level: "exploration",
        rule: "proptest: rabin (85 %) with polynomial from a fixed set or any degree-53 value, average 2^0..2^20 (weighted to 2^6..2^11), min from {avg, avg/2, avg/4, 64, 65, random, 0/1/63}, max from {avg, avg+1, 2avg, 8avg, random ≤16avg}; fixed-size chunker sizes 1..131072; streams of 0..5 segments (random, zeros, period-p, literal, boundary-dense = bytes searched with the reference fingerprint so that a boundary occurs every `gap` bytes, repeat of earlier bytes) capped at 256 KiB (quick) / 4 MiB (thorough); read schedule: unrestricted, 1-byte, or cycles of limits 1..8191 with an Interrupted error every 2..8 calls; size hint exact/0/too small/too large/usize::MAX. Non-trivial = ≥3 chunks, ≥1 fingerprint cut (not max/EOF) and a read limit < 4096; distinct by hash of the case.",
        assumptions: vec![
            "the reference fingerprint table is cross-checked against the bit-serial definition in a unit test and once per case",
            "polynomials are arbitrary degree-53 values: irreducibility does not enter the arithmetic",
            "the hook chunk_iter is ChunkIter::from_config, the function backup uses; C01/C07 tie it to the real pipeline end to end",
        ],
        subs: vec![Box::new(Sub {
            name: "chunk",
            cases_quick: 80_000,
            cases_thorough: 3_000_000,
            max_shrink_iters: 1500,
            strategy,
            run,
        }) as Box<dyn DynSub>],
        extra: None,
    }
}
