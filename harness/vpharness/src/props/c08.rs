//! C08 — Pack files, their headers and the index always agree; the index is rebuildable.
//!
//! Sub "packs": histories of pack-producing commands (backup, prune-repack in all flavours, copy,
//! merge, rewrite, repair) — after every operation every pack in storage is decoded with the
//! independent decoder and compared with what the index says about it; then a generated subset of
//! index files is deleted, `repair_index` runs and every snapshot must read back, `check` must be
//! clean and the rebuilt index must describe exactly the surviving packs.
//! Sub "header": the library's pack header codec against the independent one on generated entries.

use std::{collections::BTreeMap, sync::Arc};

use proptest::prelude::*;
use rustic_core::{FileType, RewriteOptions, RewriteTreesOptions, repofile::IndexBlob};
use serde::{Deserialize, Serialize};
use vpcore::fmt::{BType, Id32, TrailerEntry, header_plain, parse_header_plain, parse_id};

use crate::{
    cmds,
    engine::{Ctx, DynSub, Outcome, PropSpec, Sub, guarded, pick_idx},
    r#gen::tree,
    history::{HOp, World, hop},
    inspect::{index_view, pack_ids, pack_verified, to_id},
    membe::{Storage, id_bytes},
    model::MNode,
    repo::{CheckVerdict, RepoCfg, init_repo, repo_cfg},
};

#[derive(Debug, Clone, Copy, Serialize, Deserialize, PartialEq, Eq)]
pub enum Extra {
    /// copy all snapshots into a second repository (its packs are verified too)
    Copy,
    /// merge all live snapshots
    Merge,
    /// rewrite all snapshots excluding `*.log`-like names (basename = a generated existing name)
    Rewrite(u16),
    /// repair snapshots (undamaged: must not write packs, still verified)
    Repair,
}

#[derive(Debug, Clone, Serialize, Deserialize)]
pub struct Case {
    pub cfg: RepoCfg,
    pub dst_cfg: RepoCfg,
    pub tree: MNode,
    pub ops: Vec<HOp>,
    pub extras: Vec<Extra>,
    /// which index files are deleted before repair-index: bit i of the mask (cycled); 0 = all
    pub del_mask: u16,
    pub read_all: bool,
}

fn strategy(ctx: &Ctx) -> BoxedStrategy<Case> {
    let len = if ctx.tier.is_thorough() { 12 } else { 6 };
    (
        repo_cfg(),
        repo_cfg(),
        // a blob-rich pack: (fixed chunk size, number of chunks, content seed) — its header is
        // longer than any fixed guess (64 KiB = 1771 plain / 1598 compressed entries)
        prop::option::weighted(0.12, (3u32..=8, 1500u32..2500, any::<u64>())),
    )
        .prop_flat_map(move |(mut cfg, mut dst_cfg, blob_rich)| {
            if dst_cfg.key_seed == cfg.key_seed {
                dst_cfg.key_seed += 1;
            }
            if let Some((k, _, _)) = blob_rich {
                cfg.chunker = crate::repo::ChunkerCfg::Fixed { size: k };
                cfg.data_pack = crate::repo::PackCfg { size: None, grow: None, limit: None };
            }
            let mut p = super::c07::params(&cfg);
            // (with the tiny chunks of a blob-rich case all other files stay at a few chunks)
            p.file_cap = blob_rich.map_or(150_000, |(k, _, _)| 40 * k);
            (
                Just(cfg),
                Just(dst_cfg),
                tree(p),
                prop::collection::vec(
                    hop(p, true).prop_filter("no stale-handle op here", |o| !matches!(o, HOp::PruneThenStaleBackup { .. } | HOp::PrunesThenStaleBackup { .. })),
                    1..=len,
                ),
                prop::collection::vec(
                    prop_oneof![Just(Extra::Copy), Just(Extra::Merge), any::<u16>().prop_map(Extra::Rewrite), Just(Extra::Repair)],
                    0..3,
                ),
                prop_oneof![2 => Just(0u16), 3 => any::<u16>()],
                prop::bool::weighted(0.2),
                Just(blob_rich),
            )
        })
        .prop_map(|(cfg, dst_cfg, mut tree, mut ops, mut extras, del_mask, read_all, blob_rich)| {
            if let Some((k, n, seed)) = blob_rich {
                // thousands of blobs are re-verified after every operation: keep the history short
                ops.truncate(2);
                extras.truncate(1);
                if let Some(ch) = tree.children_mut() {
                    if !ch.iter().any(|c| c.name == b"zz-many-blobs") {
                        ch.push(MNode {
                            name: b"zz-many-blobs".to_vec(),
                            kind: crate::model::MKind::File {
                                content: crate::model::Content(vec![crate::model::Piece::Rand { seed, skip: 0, len: k * n }]),
                            },
                            perm: 0o644,
                            mtime: crate::model::MTime(1_600_000_000, 0),
                            ctime: crate::model::MTime(1_600_000_000, 0),
                            uid: 0,
                            gid: 0,
                            inode: 9_500_001,
                            device: 7,
                            links: 1,
                        });
                    }
                }
                tree.normalise();
            }
            Case {
                cfg,
                dst_cfg,
                tree,
                ops,
                extras,
                del_mask,
                read_all,
            }
        })
        .boxed()
}

/// every pack in the storage is self-describing and agrees with the index
pub fn verify_packs(storage: &Arc<Storage>, key: &[u8; 64], require_indexed: bool) -> Result<(usize, usize), String> {
    let view = index_view(storage, key)?;
    // index entries per pack, straight from the decoded files (packs and packs_to_delete)
    let mut listed: BTreeMap<Id32, Vec<Vec<(BType, Id32, u32, u32, Option<u32>)>>> = BTreeMap::new();
    let mut sizes: BTreeMap<Id32, Vec<Option<u32>>> = BTreeMap::new();
    for f in view.files.values() {
        for p in f.packs.iter().chain(f.packs_to_delete.iter()) {
            let pid = parse_id(&p.id).ok_or("bad pack id")?;
            let blobs = p
                .blobs
                .iter()
                .map(|b| {
                    Ok((
                        BType::parse(&b.tpe).ok_or("bad type")?,
                        parse_id(&b.id).ok_or("bad blob id")?,
                        b.offset,
                        b.length,
                        b.uncompressed_length,
                    ))
                })
                .collect::<Result<Vec<_>, String>>()?;
            listed.entry(pid).or_default().push(blobs);
            sizes.entry(pid).or_default().push(p.size);
        }
    }
    let packs = pack_ids(storage);
    let mut tree_packs = 0;
    for pid in &packs {
        let info = pack_verified(storage, key, pid)?;
        if info.entries.iter().any(|e| e.tpe == BType::Tree) {
            tree_packs += 1;
        }
        let raw_len = storage.get(FileType::Pack, &to_id(pid)).unwrap().len();
        match listed.get(pid) {
            None => {
                if require_indexed {
                    return Err(format!("pack {} is not listed by any index file", &hex::encode(pid)[..8]));
                }
            }
            Some(listings) => {
                let mut want: Vec<_> = info
                    .entries
                    .iter()
                    .map(|e| (e.tpe, e.id, e.offset, e.length, e.uncompressed_length))
                    .collect();
                want.sort_by_key(|e| e.2);
                for l in listings {
                    // an unindexed pack that prune marked for deletion is listed without blobs
                    if l.is_empty() && view.marked.contains_key(pid) {
                        continue;
                    }
                    let mut have = l.clone();
                    have.sort_by_key(|e| e.2);
                    if have != want {
                        return Err(format!(
                            "pack {}: the index lists {} blobs, the pack's own trailer {} — or type/offset/length/uncompressed length differ",
                            &hex::encode(pid)[..8],
                            have.len(),
                            want.len()
                        ));
                    }
                }
                for s in &sizes[pid] {
                    if let Some(s) = s {
                        if *s as usize != raw_len {
                            return Err(format!("pack {}: the index records size {s}, the file has {raw_len} bytes", &hex::encode(pid)[..8]));
                        }
                    }
                }
            }
        }
    }
    for pid in listed.keys() {
        if !packs.contains(pid) {
            return Err(format!("index lists pack {} which is not in storage", &hex::encode(pid)[..8]));
        }
    }
    Ok((packs.len(), tree_packs))
}

pub fn run(c: &Case, _ctx: &Ctx) -> Outcome {
    let mut out = Outcome::pass();
    macro_rules! fail {
        ($($arg:tt)*) => {{
            out.failure = Some(format!($($arg)*));
            return out;
        }};
    }
    let key = c.cfg.key64();
    let mut w = match World::new(&c.cfg, &c.tree) {
        Ok(w) => w,
        Err(e) => fail!("{e}"),
    };
    let first = HOp::Backup { edits: vec![], parent: false };
    let mut non_backup_packs = false;
    for (i, op) in std::iter::once(&first).chain(c.ops.iter()).enumerate() {
        let before = w.packs();
        if let Err(e) = w.step(op) {
            fail!("op #{i} {}: {e}", super::c02::op_name(op));
        }
        if !matches!(op, HOp::Backup { .. } | HOp::DupBackup { .. } | HOp::CutBackup { .. }) && w.packs().difference(&before).next().is_some() {
            non_backup_packs = true;
        }
        if let Err(e) = verify_packs(&w.storage, &key, false) {
            fail!("after op #{i} {}: {e}", super::c02::op_name(op));
        }
    }
    if w.live.is_empty() {
        if let Err(e) = w.step(&first) {
            fail!("{e}");
        }
    }
    for ex in &c.extras {
        let before = w.packs();
        let snaps: Vec<_> = w.live.iter().map(|l| l.snap.clone()).collect();
        match ex {
            Extra::Copy => {
                let dst = Storage::new();
                if let Err(e) = init_repo(dst.handle(), &c.dst_cfg) {
                    fail!("{e}");
                }
                if let Err(e) = cmds::copy_snapshots(&w.storage, &c.cfg, &dst, &c.dst_cfg, &snaps) {
                    fail!("{e}");
                }
                match verify_packs(&dst, &c.dst_cfg.key64(), true) {
                    Ok((n, _)) => {
                        if n > 0 {
                            non_backup_packs = true;
                        }
                    }
                    Err(e) => fail!("destination of copy: {e}"),
                }
                out = out.class("copy");
            }
            Extra::Merge => {
                let cmp = |a: &rustic_core::repofile::Node, b: &rustic_core::repofile::Node| a.meta.mtime.cmp(&b.meta.mtime);
                match cmds::merge_snapshots(&w.storage, &c.cfg, &snaps, &cmp, w.clock + 7) {
                    // the merged snapshot is not modelled here: remove it again
                    Ok(s) => _ = w.storage.del(FileType::Snapshot, &rustic_core::Id::new(id_bytes(&s.id))),
                    Err(e) => fail!("{e}"),
                }
                out = out.class("merge");
            }
            Extra::Rewrite(sel) => {
                // exclude one existing basename
                let names: Vec<String> = w
                    .live
                    .iter()
                    .flat_map(|l| l.model.keys())
                    .filter_map(|k| std::str::from_utf8(k).ok())
                    .filter_map(|k| k.rsplit('/').next())
                    .filter(|n| n.chars().all(|c| c.is_ascii_alphanumeric()) && *n != "s")
                    .map(str::to_string)
                    .collect();
                if names.is_empty() {
                    continue;
                }
                let mut topts = RewriteTreesOptions::default();
                topts.excludes.globs = vec![format!("!{}", names[pick_idx(*sel, names.len())])];
                let snaps_before: std::collections::BTreeSet<_> = w.storage.ids(FileType::Snapshot).into_iter().collect();
                if let Err(e) = cmds::rewrite(&w.storage, &c.cfg, snaps, &RewriteOptions::default(), &topts) {
                    fail!("{e}");
                }
                // rewritten snapshots are not modelled here: remove them again
                for id in w.storage.ids(FileType::Snapshot) {
                    if !snaps_before.contains(&id) {
                        _ = w.storage.del(FileType::Snapshot, &id);
                    }
                }
                out = out.class("rewrite");
            }
            Extra::Repair => {
                if let Err(e) = cmds::repair_snapshots(&w.storage, &c.cfg, snaps, true, false) {
                    fail!("{e}");
                }
                out = out.class("repair_snapshots");
            }
        }
        if w.packs().difference(&before).next().is_some() {
            non_backup_packs = true;
        }
        if let Err(e) = verify_packs(&w.storage, &key, false) {
            fail!("after {ex:?}: {e}");
        }
        // the command returned Ok: every pack it wrote is recorded by an index file (the merged /
        // rewritten / repaired snapshot itself is not modelled here, so nothing else would read it)
        match index_view(&w.storage, &key) {
            Ok(view) => {
                for p in w.packs().difference(&before) {
                    if !view.packs.contains_key(p) {
                        fail!(
                            "after {ex:?}: the command returned Ok but pack {} which it wrote is not listed by any index file",
                            &hex::encode(p)[..8]
                        );
                    }
                }
            }
            Err(e) => fail!("after {ex:?}: cannot decode the index: {e}"),
        }
    }

    // delete a subset of the index files, rebuild, verify
    let idx_ids = w.storage.ids(FileType::Index);
    let mut deleted = 0;
    for (i, id) in idx_ids.iter().enumerate() {
        if c.del_mask == 0 || (c.del_mask >> (i % 16)) & 1 == 1 {
            _ = w.storage.del(FileType::Index, id);
            deleted += 1;
        }
    }
    if let Err(e) = cmds::repair_index(&w.storage, &c.cfg, c.read_all, false) {
        fail!("after deleting {deleted} of {} index files: {e}", idx_ids.len());
    }
    match verify_packs(&w.storage, &key, true) {
        Ok((n, t)) => {
            out = out.count("packs", n as u64).class_if(n >= 3 && t >= 1 && t < n, "both_pack_types");
            out.nontrivial = n >= 3 && t >= 1 && t < n && non_backup_packs && deleted > 0;
        }
        Err(e) => fail!("after repair-index (deleted {deleted} of {} index files): {e}", idx_ids.len()),
    }
    if let Err(e) = w.verify_snapshots() {
        fail!("after deleting {deleted} index files and repair-index: {e}");
    }
    match w.check(true) {
        CheckVerdict::Errors(e) => fail!("after repair-index: {e}"),
        CheckVerdict::Inconclusive(_) => out = out.class("check_inconclusive"),
        CheckVerdict::Clean => {}
    }
    let rich = flatten_has_many(&c.tree);
    out.class_if(c.del_mask == 0, "all_index_files_deleted")
        .class_if(non_backup_packs, "non_backup_packs")
        .class_if(rich, "pack_with_header_above_64KiB")
}

fn flatten_has_many(t: &MNode) -> bool {
    t.children().iter().any(|c| c.name == b"zz-many-blobs")
}

// ------------------------------------------------------------------ header codec

#[derive(Debug, Clone, Serialize, Deserialize)]
pub struct HeaderCase {
    /// (is_tree, compressed, length, uncompressed length, id seed)
    pub entries: Vec<(bool, bool, u32, u32, u64)>,
    /// repeat the entry list this many times (up to 10 000 entries)
    pub repeat: u16,
}

fn header_strategy(_ctx: &Ctx) -> BoxedStrategy<HeaderCase> {
    (
        prop::collection::vec(
            (
                any::<bool>(),
                any::<bool>(),
                prop_oneof![Just(0u32), Just(32u32), 33u32..100_000, Just(u32::MAX / 20_000)],
                prop_oneof![Just(1u32), 1u32..1_000_000, Just(u32::MAX)],
                any::<u64>(),
            ),
            0..12,
        ),
        prop_oneof![8 => 1u16..4, 1 => 100u16..1000],
    )
        .prop_map(|(entries, repeat)| HeaderCase { entries, repeat })
        .boxed()
}

fn run_header(c: &HeaderCase, _ctx: &Ctx) -> Outcome {
    // one type per pack, as the library writes them
    let tree = c.entries.first().is_some_and(|e| e.0);
    let mut entries: Vec<TrailerEntry> = Vec::new();
    let mut offset: u64 = 0;
    'outer: for r in 0..c.repeat {
        for (_, comp, len, ul, seed) in &c.entries {
            if entries.len() >= 10_000 || offset + u64::from(*len) > u64::from(u32::MAX) {
                break 'outer;
            }
            let mut id = [0u8; 32];
            id[..8].copy_from_slice(&seed.to_le_bytes());
            id[8..10].copy_from_slice(&r.to_le_bytes());
            entries.push(TrailerEntry {
                tpe: if tree { BType::Tree } else { BType::Data },
                id,
                offset: offset as u32,
                length: *len,
                uncompressed_length: comp.then_some((*ul).max(1)),
            });
            offset += u64::from(*len);
        }
    }
    let mine = header_plain(&entries);
    // library: parse my bytes
    let parsed = match guarded(|| rustic_core::verif::pack_header_from_binary(&mine)) {
        Ok(Ok(p)) => p,
        Ok(Err(e)) => return Outcome::fail(format!("library refuses a well-formed pack header: {}", e.display_log())),
        Err(p) => return Outcome::fail(format!("library panicked on a well-formed pack header: {p}")),
    };
    let as_entries = |blobs: &[IndexBlob]| -> Vec<TrailerEntry> {
        blobs
            .iter()
            .map(|b| {
                let v = serde_json::to_value(b).unwrap();
                TrailerEntry {
                    tpe: BType::parse(v["type"].as_str().unwrap()).unwrap(),
                    id: parse_id(v["id"].as_str().unwrap()).unwrap(),
                    offset: v["offset"].as_u64().unwrap() as u32,
                    length: v["length"].as_u64().unwrap() as u32,
                    uncompressed_length: v["uncompressed_length"].as_u64().map(|x| x as u32),
                }
            })
            .collect()
    };
    if as_entries(&parsed) != entries {
        return Outcome::fail("library decodes a pack header differently from the format description");
    }
    // library: encode, I parse
    let theirs = match guarded(|| rustic_core::verif::pack_header_to_binary(&parsed)) {
        Ok(Ok(b)) => b,
        Ok(Err(e)) => return Outcome::fail(format!("library cannot encode a pack header: {}", e.display_log())),
        Err(p) => return Outcome::fail(format!("library panicked encoding a pack header: {p}")),
    };
    if theirs != mine {
        return Outcome::fail("library encodes a pack header differently from the format description");
    }
    match parse_header_plain(&theirs) {
        Ok(e) if e == entries => {}
        _ => return Outcome::fail("independent decoder disagrees on the library's pack header"),
    }
    let (hsize, psize) = rustic_core::verif::pack_header_sizes(&parsed);
    let want_h = 32 + mine.len() as u64;
    let want_p = want_h + 4 + offset;
    if u64::from(hsize) != want_h || u64::from(psize) != want_p {
        return Outcome::fail(format!("header/pack size computed as {hsize}/{psize}, the format gives {want_h}/{want_p}"));
    }
    Outcome::pass()
        .nontrivial(entries.len() >= 2)
        .class_if(entries.is_empty(), "no_entries")
        .class_if(entries.len() >= 1000, ">=1000_entries")
}

pub fn spec() -> PropSpec {
    PropSpec {
        id: "C08",
        level: "exploration",
        rule: "packs: proptest histories (1–6 quick / 1–12 thorough operations after an initial backup: backup, forget, prune with all options incl. fast and re-encoding repack, repack-all, repack-uncompressed; two-handle backups, duplicated index files, interrupted backups) followed by 0–2 of {copy into a second repository, merge, rewrite with an exclude, repair snapshots}, then deletion of a generated subset of index files (all with probability 2/5) and repair-index (read-all with probability 1/5). Non-trivial = ≥3 packs of both types, at least one pack produced by a non-backup command, ≥1 index file deleted. header: 0–11 generated entries repeated up to 10 000 entries, lengths incl. 0 and large, compressed and not. Distinct by hash of the case.",
        assumptions: vec![
            "the independent decoder (vpcore::fmt) implements the restic pack layout: blobs, encrypted header, u32 LE header length",
            "an unindexed pack that a non-instant prune marks for deletion is listed without blobs: accepted as such",
        ],
        subs: vec![
            Box::new(Sub {
                name: "packs",
                cases_quick: 300,
                cases_thorough: 8000,
                max_shrink_iters: 200,
                strategy,
                run,
            }) as Box<dyn DynSub>,
            Box::new(Sub {
                name: "header",
                cases_quick: 20_000,
                cases_thorough: 1_000_000,
                max_shrink_iters: 2000,
                strategy: header_strategy,
                run: run_header,
            }),
        ],
        extra: None,
    }
}
