//! C08 — not implemented yet (stub so that props/mod.rs never has to change).
use crate::engine::PropSpec;

pub fn spec() -> PropSpec {
    PropSpec {
        id: "C08",
        level: "exploration",
        rule: "",
        assumptions: vec![],
        subs: vec![],
        extra: None,
    }
}
