//! C09 — Retention decisions follow the documented keep rules.
//!
//! Generated: multisets of snapshot times clustered around period boundaries (in a fixed UTC
//! offset per list), tags, ids, delete marks, `now`, and keep options.
//! Oracle: `vpcore::retention::reference`, an independent implementation of the stated rules with
//! its own calendar arithmetic; plus the metamorphic relation "raising a counter never removes a
//! kept snapshot".

use std::collections::BTreeSet;

use proptest::prelude::*;
use rustic_core::{
    KeepOptions, SnapshotOptions, StringList,
    jiff::{Span, Timestamp, Zoned, tz::Offset, tz::TimeZone},
    repofile::{DeleteOption, SnapshotFile},
};
use serde::{Deserialize, Serialize};
use vpcore::retention::{
    Civil, MARK_READINGS, RDecision, RDelete, RKeep, RSnap, RSpan, RULES, RefOutcome, WITHIN,
    days_from_civil, reference,
};

use crate::engine::{Ctx, DynSub, Outcome, PropSpec, Sub, pick_idx};

#[derive(Debug, Clone, Serialize, Deserialize)]
pub struct Case {
    pub snaps: Vec<RSnap>,
    pub keep: RKeep,
    pub now: i64,
    /// which counter the monotonicity relation raises (index into RULES) and by how much
    pub raise: (u8, u8),
}

fn anchors() -> Vec<i64> {
    // instants (UTC) of period starts that matter: year / ISO-week-year edges, leap days,
    // quarter / half-year / month starts
    let mut v = Vec::new();
    for (y, m, d) in [
        (2016, 1, 1),
        (2015, 12, 28),
        (2016, 1, 4),
        (2018, 12, 31),
        (2019, 1, 1),
        (2018, 1, 1),
        (2020, 12, 28),
        (2021, 1, 1),
        (2021, 1, 4),
        (2024, 12, 30),
        (2025, 1, 1),
        (2016, 2, 29),
        (2016, 3, 1),
        (2020, 2, 29),
        (2023, 3, 1),
        (2022, 4, 1),
        (2022, 7, 1),
        (2022, 10, 1),
        (2022, 6, 30),
        (2022, 5, 1),
        (2022, 5, 16),
        (2022, 5, 22),
        (2022, 5, 23),
        (1970, 1, 1),
        (1969, 12, 29),
    ] {
        v.push(days_from_civil(y, m, d) * 86_400);
    }
    v
}

fn delta() -> impl Strategy<Value = i64> {
    prop_oneof![
        4 => prop::sample::select(vec![
            0i64, 1, -1, 59, -59, 60, -60, 61, 3599, -3599, 3600, -3600, 3601, 86_399, -86_399,
            86_400, -86_400, 7 * 86_400, -7 * 86_400, 31 * 86_400, -31 * 86_400, 366 * 86_400,
            -366 * 86_400, 183 * 86_400, 92 * 86_400,
        ]),
        2 => -7200i64..7200,
        1 => -(400i64 * 86_400)..(400 * 86_400),
    ]
}

fn instant() -> impl Strategy<Value = i64> {
    (prop::sample::select(anchors()), delta(), delta()).prop_map(|(a, d1, d2)| a + d1 + d2 % 3700)
}

fn tagset() -> impl Strategy<Value = BTreeSet<String>> {
    prop::collection::btree_set(prop::sample::select(vec!["a", "b", "c", "dd"]), 0..3)
        .prop_map(|s| s.into_iter().map(str::to_string).collect())
}

fn id_hex() -> impl Strategy<Value = String> {
    // few distinct leading nibbles so that prefixes match several snapshots
    (0u8..4, any::<u64>()).prop_map(|(lead, rest)| {
        let mut b = [0u8; 32];
        b[0] = lead << 4;
        b[8..16].copy_from_slice(&rest.to_le_bytes());
        b[16..24].copy_from_slice(&crate::model::splitmix(rest).to_le_bytes());
        hex::encode(b)
    })
}

fn count() -> impl Strategy<Value = Option<i32>> {
    prop_oneof![
        6 => Just(None),
        1 => Just(Some(0)),
        2 => Just(Some(1)),
        3 => (2i32..6).prop_map(Some),
        1 => Just(Some(-1)),
    ]
}

fn span() -> impl Strategy<Value = Option<RSpan>> {
    prop_oneof![
        40 => Just(None),
        1 => (1i32..3).prop_map(|n| Some(RSpan::Years(n))),
        1 => (1i32..14).prop_map(|n| Some(RSpan::Months(n))),
        1 => (1i32..5).prop_map(|n| Some(RSpan::Weeks(n))),
        1 => (1i32..40).prop_map(|n| Some(RSpan::Days(n))),
        1 => (1i32..50).prop_map(|n| Some(RSpan::Hours(n))),
        1 => (1i32..130).prop_map(|n| Some(RSpan::Minutes(n))),
        1 => (1i32..4000).prop_map(|n| Some(RSpan::Seconds(n))),
    ]
}

fn keep() -> impl Strategy<Value = RKeep> {
    (
        prop::array::uniform9(count()),
        prop::array::uniform9(span()),
        prop::collection::vec(
            prop::collection::btree_set(prop::sample::select(vec!["a", "b", "c", "dd"]), 1..3)
                .prop_map(|s| s.into_iter().map(str::to_string).collect::<BTreeSet<_>>()),
            // 0–3 tag lists: a snapshot is kept if it carries all tags of at least ONE of them
            0..4,
        ),
        prop::collection::vec((0u8..4, 1usize..3), 0..3),
        prop::bool::weighted(0.1),
    )
        .prop_map(|(counts, within, tags, ids, none)| RKeep {
            counts,
            within,
            tags,
            ids: ids
                .into_iter()
                .map(|(lead, n)| format!("{:x}0", lead)[..n.min(2)].to_string())
                .collect(),
            none,
        })
        .prop_filter("at least one keep option", RKeep::is_valid)
}

fn strategy(_ctx: &Ctx) -> BoxedStrategy<Case> {
    (
        // offset: -12:00 ..= +14:00 in quarter hours
        (-48i32..=56).prop_map(|q| q * 900),
        prop::bool::weighted(0.1),
        prop::bool::weighted(0.5),
        prop::collection::vec(
            (
                instant(),
                (-48i32..=56).prop_map(|q| q * 900),
                id_hex(),
                tagset(),
                prop_oneof![
                    12 => Just(0u8),
                    1 => Just(1u8),
                    2 => Just(2u8),
                ],
                delta(),
                prop::bool::weighted(0.25),
            ),
            0..40,
        ),
        keep(),
        instant(),
        (0u8..9, 1u8..3),
    )
        .prop_map(|(offset, mixed, marks, raw, keep, now, raise)| {
            let mut snaps: Vec<RSnap> = Vec::new();
            let mut prev: Option<i64> = None;
            for (inst, own_off, id_hex, tags, del, d, dup) in raw {
                // duplicates: reuse the previous instant
                let inst = if dup { prev.unwrap_or(inst) } else { inst };
                prev = Some(inst);
                let off = if mixed { own_off } else { offset };
                let delete = match if marks { del } else { 0 } {
                    0 => RDelete::NotSet,
                    1 => RDelete::Never,
                    _ => RDelete::After(now + d),
                };
                snaps.push(RSnap {
                    civil: Civil::from_instant(inst, off),
                    offset: off,
                    id_hex,
                    tags,
                    delete,
                });
            }
            // unique ids (the permutation check needs them)
            let mut seen = BTreeSet::new();
            snaps.retain(|s| seen.insert(s.id_hex.clone()));
            Case {
                snaps,
                keep,
                now,
                raise,
            }
        })
        .boxed()
}

fn zoned(instant: i64, offset: i32) -> Zoned {
    Timestamp::from_second(instant)
        .expect("instant in range")
        .to_zoned(TimeZone::fixed(
            Offset::from_seconds(offset).expect("offset in range"),
        ))
}

fn to_span(s: RSpan) -> Span {
    match s {
        RSpan::Years(n) => Span::new().years(n),
        RSpan::Months(n) => Span::new().months(n),
        RSpan::Weeks(n) => Span::new().weeks(n),
        RSpan::Days(n) => Span::new().days(n),
        RSpan::Hours(n) => Span::new().hours(n),
        RSpan::Minutes(n) => Span::new().minutes(n),
        RSpan::Seconds(n) => Span::new().seconds(n),
    }
}

pub fn keep_options(k: &RKeep) -> KeepOptions {
    let mut o = KeepOptions::default();
    o.keep_last = k.counts[0];
    o.keep_minutely = k.counts[1];
    o.keep_hourly = k.counts[2];
    o.keep_daily = k.counts[3];
    o.keep_weekly = k.counts[4];
    o.keep_monthly = k.counts[5];
    o.keep_quarter_yearly = k.counts[6];
    o.keep_half_yearly = k.counts[7];
    o.keep_yearly = k.counts[8];
    o.keep_within = k.within[0].map(to_span);
    o.keep_within_minutely = k.within[1].map(to_span);
    o.keep_within_hourly = k.within[2].map(to_span);
    o.keep_within_daily = k.within[3].map(to_span);
    o.keep_within_weekly = k.within[4].map(to_span);
    o.keep_within_monthly = k.within[5].map(to_span);
    o.keep_within_quarter_yearly = k.within[6].map(to_span);
    o.keep_within_half_yearly = k.within[7].map(to_span);
    o.keep_within_yearly = k.within[8].map(to_span);
    o.keep_tags = k
        .tags
        .iter()
        .map(|t| {
            let mut sl = StringList::default();
            for s in t {
                sl.add(s.clone());
            }
            sl
        })
        .collect();
    o.keep_ids = k.ids.clone();
    o.keep_none = k.none;
    o
}

thread_local! {
    static TEMPLATE: SnapshotFile = SnapshotFile::from_options(&SnapshotOptions::default()).expect("template snapshot");
}

pub fn snapshot_of(s: &RSnap) -> SnapshotFile {
    let mut sn = TEMPLATE.with(Clone::clone);
    sn.time = zoned(s.instant(), s.offset);
    sn.id = s.id_hex.parse().expect("generated id");
    let mut tags = StringList::default();
    for t in &s.tags {
        tags.add(t.clone());
    }
    sn.tags = tags;
    sn.delete = match s.delete {
        RDelete::NotSet => DeleteOption::NotSet,
        RDelete::Never => DeleteOption::Never,
        RDelete::After(t) => DeleteOption::After(zoned(t, 0)),
    };
    sn
}

/// buckets of every active rule form contiguous runs in the given order?
fn contiguous(order: &[&RSnap]) -> bool {
    // only the civil fields matter; with one offset per list this always holds
    let first = order.first().map(|s| s.offset);
    order.iter().all(|s| Some(s.offset) == first)
}

type Applied = Vec<(String, bool, BTreeSet<String>)>;

fn apply(c: &Case, keep: &RKeep) -> Result<Applied, String> {
    let snaps: Vec<SnapshotFile> = c.snaps.iter().map(snapshot_of).collect();
    let res = keep_options(keep)
        .apply(snaps, &zoned(c.now, 0))
        .map_err(|e| format!("apply returned an error: {}", e.display_log()))?;
    Ok(res
        .into_iter()
        .map(|f| {
            (
                f.snapshot.id.to_hex().to_string(),
                f.keep,
                f.reasons.into_iter().collect(),
            )
        })
        .collect())
}

fn run(c: &Case, _ctx: &Ctx) -> Outcome {
    let got = match apply(c, &c.keep) {
        Ok(g) => g,
        Err(e) => return Outcome::fail(e),
    };
    // permutation of the input
    let mut in_ids: Vec<&str> = c.snaps.iter().map(|s| s.id_hex.as_str()).collect();
    let mut out_ids: Vec<&str> = got.iter().map(|g| g.0.as_str()).collect();
    in_ids.sort_unstable();
    out_ids.sort_unstable();
    if in_ids != out_ids {
        return Outcome::fail("result is not a permutation of the given snapshots");
    }
    // adopt the implementation's tie order, verify it is a valid newest-first sort
    let order: Vec<&RSnap> = got
        .iter()
        .map(|g| c.snaps.iter().find(|s| s.id_hex == g.0).unwrap())
        .collect();
    if order.windows(2).any(|w| w[0].instant() < w[1].instant()) {
        return Outcome::fail("result is not sorted newest first");
    }
    let mixed = !contiguous(&order);
    let has_marks = c.snaps.iter().any(|s| s.delete != RDelete::NotSet);
    let ordered: Vec<RSnap> = order.iter().map(|s| (*s).clone()).collect();

    // non-triviality: for some active rule two snapshots share a bucket and there are two buckets,
    // or a boundary straddling pair (two snapshots within 2 minutes in different minutes)
    let active: Vec<usize> = (1..9)
        .filter(|r| c.keep.counts[*r].is_some_and(|n| n != 0) || c.keep.within[*r].is_some())
        .collect();
    let nontrivial = !active.is_empty() && {
        let days: BTreeSet<_> = ordered.iter().map(|s| (s.civil.y, s.civil.mo, s.civil.d)).collect();
        days.len() >= 2 && days.len() < ordered.len()
    };

    let mut out = Outcome::pass()
        .nontrivial(nontrivial && !mixed)
        .class_if(mixed, "mixed_offsets")
        .class_if(has_marks, "has_delete_marks")
        .class_if(c.snaps.is_empty(), "empty")
        .class_if(c.keep.within.iter().any(Option::is_some), "has_within")
        .class_if(
            c.keep.within.iter().flatten().any(RSpan::is_calendar),
            "calendar_span",
        )
        .class_if(!c.keep.tags.is_empty() || !c.keep.ids.is_empty(), "tags_or_ids")
        .class_if(c.keep.tags.len() >= 2, "several_keep_tag_lists");
    for r in &active {
        out = out.class(format!("rule_{}", RULES[*r]));
    }

    if mixed {
        // periods of snapshots recorded in different zones are not run-contiguous in time order;
        // the statement does not say which reading applies: permutation/sort were still checked
        return out.skip("mixed_offsets_not_judged");
    }

    match judge(&ordered, &got, &c.keep, c.now, has_marks) {
        Judged::Match => {}
        Judged::Skip(why) => return out.skip(why),
        Judged::Diff(first_diff) => {
            let mut o = Outcome::fail(format!(
                "keep decision differs from the documented rules: {first_diff}"
            ));
            o.classes = out.classes;
            return o;
        }
    }

    // metamorphic: raising one counter never removes a kept snapshot
    let r = usize::from(c.raise.0) % 9;
    if let Some(n) = c.keep.counts[r] {
        if n >= 0 {
            let mut k2 = c.keep.clone();
            k2.counts[r] = Some(n + i32::from(c.raise.1));
            match apply(c, &k2) {
                Err(e) => return Outcome::fail(e),
                Ok(got2) => {
                    for g in &got {
                        if g.1 {
                            let g2 = got2.iter().find(|x| x.0 == g.0).unwrap();
                            if !g2.1 {
                                return Outcome::fail(format!(
                                    "raising keep-{} from {n} to {} removed snapshot {} that was kept before",
                                    RULES[r],
                                    n + i32::from(c.raise.1),
                                    &g.0[..8]
                                ));
                            }
                        }
                    }
                    out = out.class("monotonicity_checked");
                }
            }
        }
    }
    out
}

enum Judged {
    Match,
    Skip(&'static str),
    Diff(String),
}

/// compare the library's decisions for one list (given in the library's own newest-first order)
/// with the reference; every accepted reading of delete marks is tried
fn judge(ordered: &[RSnap], got: &Applied, keep: &RKeep, now: i64, has_marks: bool) -> Judged {
    let mut first_diff = String::new();
    for reading in MARK_READINGS {
        match reference(ordered, keep, now, reading) {
            RefOutcome::Ambiguous => return Judged::Skip("calendar_span_readings_disagree"),
            RefOutcome::Decisions(dec) => {
                let same = dec.len() == got.len()
                    && dec
                        .iter()
                        .zip(got.iter())
                        .all(|(d, g)| d.keep == g.1 && d.reasons == g.2);
                if same {
                    return Judged::Match;
                }
                if first_diff.is_empty() {
                    first_diff = describe_diff(ordered, &dec, got);
                }
                if !has_marks {
                    break; // readings only differ when marks are present
                }
            }
        }
    }
    Judged::Diff(first_diff)
}

// ---------------------------------------------------------------------------------------------
// grouped retention: ForgetGroups::from_grouped_snapshots_with_retention over Grouped::from_items
// must partition the snapshots exactly by the chosen criterion and apply the rules inside every
// group on its own

#[derive(Debug, Clone, Serialize, Deserialize)]
pub struct GCase {
    pub base: Case,
    /// per snapshot (by position): host, label, paths variant
    pub attrs: Vec<(u8, u8, u8)>,
    /// group by hostname, label, paths, tags
    pub crit: [bool; 4],
}

const HOSTS: [&str; 3] = ["h1", "h2", "H1"];
const LABELS: [&str; 3] = ["", "l", "l "];
const PATHS: [&[&str]; 4] = [&["/a"], &["/b"], &["/a", "/b"], &["/a/b"]];

fn gstrategy(ctx: &Ctx) -> BoxedStrategy<GCase> {
    (
        strategy(ctx),
        prop::collection::vec((0u8..3, 0u8..3, 0u8..4), 40),
        // how many distinct values are in use: small domains make groups with several members
        (1u8..=3, 1u8..=3, 1u8..=4),
        prop::array::uniform4(prop::bool::weighted(0.5)),
    )
        .prop_map(|(base, attrs, (nh, nl, np), crit)| GCase {
            base,
            attrs: attrs
                .into_iter()
                .map(|(h, l, p)| (h % nh, l % nl, p % np))
                .collect(),
            crit,
        })
        .boxed()
}

type GKey = (Option<u8>, Option<u8>, Option<u8>, Option<BTreeSet<String>>);

fn gkey(c: &GCase, i: usize) -> GKey {
    let (h, l, p) = c.attrs[i];
    (
        c.crit[0].then_some(h),
        c.crit[1].then_some(l),
        c.crit[2].then_some(p),
        c.crit[3].then(|| c.base.snaps[i].tags.clone()),
    )
}

fn grun(c: &GCase, _ctx: &Ctx) -> Outcome {
    use rustic_core::{ForgetGroups, Grouped, SnapshotGroupCriterion};
    let b = &c.base;
    let files: Vec<SnapshotFile> = b
        .snaps
        .iter()
        .enumerate()
        .map(|(i, s)| {
            let mut sn = snapshot_of(s);
            let (h, l, p) = c.attrs[i];
            sn.hostname = HOSTS[usize::from(h)].to_string();
            sn.label = LABELS[usize::from(l)].to_string();
            let mut paths = StringList::default();
            for x in PATHS[usize::from(p)] {
                paths.add((*x).to_string());
            }
            sn.paths = paths;
            sn
        })
        .collect();
    let mut crit = SnapshotGroupCriterion::new();
    crit.hostname = c.crit[0];
    crit.label = c.crit[1];
    crit.paths = c.crit[2];
    crit.tags = c.crit[3];
    let grouped = Grouped::from_items(files, crit);
    let res = match ForgetGroups::from_grouped_snapshots_with_retention(
        grouped,
        &keep_options(&b.keep),
        &zoned(b.now, 0),
    ) {
        Ok(r) => r,
        Err(e) => return Outcome::fail(format!("grouped retention returned an error: {}", e.display_log())),
    };
    // expected partition
    let mut expect: std::collections::BTreeMap<GKey, BTreeSet<&str>> = std::collections::BTreeMap::new();
    for (i, s) in b.snaps.iter().enumerate() {
        expect.entry(gkey(c, i)).or_default().insert(s.id_hex.as_str());
    }
    let multi = expect.values().any(|g| g.len() >= 2);
    let mut out = Outcome::pass()
        .nontrivial(expect.len() >= 2 && multi)
        .class_if(expect.len() >= 2, "several_groups")
        .class_if(multi, "group_with_several_members")
        .class_if(c.crit == [false; 4], "no_criterion")
        .class_if(c.crit[3], "by_tags");
    if res.0.len() != expect.len() {
        return Outcome::fail(format!(
            "{} groups reported, the criterion {:?} partitions the snapshots into {}",
            res.0.len(),
            c.crit,
            expect.len()
        ));
    }
    let mut seen_keys = BTreeSet::new();
    let mut skipped = None;
    for g in &res.0 {
        let Some(first) = g.items.first() else {
            return Outcome::fail("an empty group was reported");
        };
        let Some(pos) = b.snaps.iter().position(|s| s.id_hex == first.snapshot.id.to_hex().to_string()) else {
            return Outcome::fail("a reported snapshot was not given");
        };
        let key = gkey(c, pos);
        if !seen_keys.insert(key.clone()) {
            return Outcome::fail(format!("two groups for the same key {key:?}"));
        }
        let members: BTreeSet<String> = g.items.iter().map(|f| f.snapshot.id.to_hex().to_string()).collect();
        let want: BTreeSet<String> = expect[&key].iter().map(|s| (*s).to_string()).collect();
        if members != want || members.len() != g.items.len() {
            return Outcome::fail(format!(
                "group {key:?} holds {} snapshots, the criterion puts {} into it",
                g.items.len(),
                want.len()
            ));
        }
        // the reported key names the values of the chosen criteria
        let k = &g.group_key;
        let (h, l, p) = c.attrs[pos];
        let key_ok = k.hostname.as_deref() == c.crit[0].then_some(HOSTS[usize::from(h)])
            && k.label.as_deref() == c.crit[1].then_some(LABELS[usize::from(l)])
            && k.paths.is_some() == c.crit[2]
            && k.tags.is_some() == c.crit[3]
            && k.paths.as_ref().is_none_or(|x| {
                let mut want = StringList::default();
                for y in PATHS[usize::from(p)] {
                    want.add((*y).to_string());
                }
                *x == want
            })
            && k.tags.as_ref().is_none_or(|x| *x == first.snapshot.tags);
        if !key_ok {
            return Outcome::fail(format!("group key {k:?} does not describe its members ({key:?})"));
        }
        // the rules inside the group
        let got: Applied = g
            .items
            .iter()
            .map(|f| {
                (
                    f.snapshot.id.to_hex().to_string(),
                    f.keep,
                    f.reasons.iter().cloned().collect(),
                )
            })
            .collect();
        let order: Vec<&RSnap> = got
            .iter()
            .map(|x| b.snaps.iter().find(|s| s.id_hex == x.0).unwrap())
            .collect();
        if order.windows(2).any(|w| w[0].instant() < w[1].instant()) {
            return Outcome::fail("a group is not sorted newest first");
        }
        if !contiguous(&order) {
            skipped = Some("mixed_offsets_not_judged");
            continue;
        }
        let ordered: Vec<RSnap> = order.iter().map(|s| (*s).clone()).collect();
        let has_marks = ordered.iter().any(|s| s.delete != RDelete::NotSet);
        match judge(&ordered, &got, &b.keep, b.now, has_marks) {
            Judged::Match => {}
            Judged::Skip(why) => skipped = Some(why),
            Judged::Diff(d) => {
                let mut o = Outcome::fail(format!(
                    "group {key:?}: keep decision differs from the documented rules applied to the group alone: {d}"
                ));
                o.classes = out.classes;
                return o;
            }
        }
    }
    if let Some(why) = skipped {
        out = out.class(format!("some_group_{why}"));
    }
    out
}

fn describe_diff(order: &[RSnap], dec: &[RDecision], got: &Applied) -> String {
    for (i, (d, g)) in dec.iter().zip(got.iter()).enumerate() {
        if d.keep != g.1 || d.reasons != g.2 {
            let c = order[i].civil;
            return format!(
                "snapshot #{i} ({:04}-{:02}-{:02}T{:02}:{:02}:{:02} offset {}s, ISO week {:?}): expected keep={} reasons={:?}, library says keep={} reasons={:?}",
                c.y, c.mo, c.d, c.h, c.mi, c.s, order[i].offset, c.iso_week(), d.keep, d.reasons, g.1, g.2
            );
        }
    }
    "length mismatch".to_string()
}

pub fn spec() -> PropSpec {
    let _ = WITHIN;
    let _ = pick_idx;
    PropSpec {
        id: "C09",
        level: "exploration",
        rule: "proptest: 0..40 snapshots whose instants are period-boundary anchors (year / ISO week-year edges 2015/16, 2018/19, 2020/21, 2024/25, leap days, quarter, half-year, month starts) plus deltas of ±1 s/59 s/1 min/1 h/1 day/1 week/…, one fixed UTC offset per list in −12:00..+14:00 (10 % of lists mix offsets: only permutation/sorting judged there), duplicates, tags, id prefixes, delete-never / delete-after marks around `now`; every keep counter ∈ {unset,0,1,2..5,−1}, single-unit keep-within spans. Non-trivial = an active period rule, ≥2 distinct days and at least one day holding ≥2 snapshots, single offset; distinct by hash of the case.",
        assumptions: vec![
            "calendar arithmetic of the reference (days_from_civil, ISO week) is correct; it is unit-tested against known dates",
            "lists mixing UTC offsets and calendar-unit spans where 'newest − span' and 'snapshot + span' disagree are counted and not judged",
            "snapshots carrying their own delete mark may or may not consume a counter / shadow later snapshots of the same period: any of the four readings is accepted",
        ],
        subs: vec![Box::new(Sub {
            name: "keep",
            cases_quick: 1_500_000,
            cases_thorough: 40_000_000,
            max_shrink_iters: 4000,
            strategy,
            run,
        }) as Box<dyn DynSub>,
        Box::new(Sub {
            name: "grouped",
            cases_quick: 300_000,
            cases_thorough: 8_000_000,
            max_shrink_iters: 4000,
            strategy: gstrategy,
            run: grun,
        }) as Box<dyn DynSub>],
        extra: None,
    }
}
