//! C05 — Check is sound and complete with respect to restorability.
//!
//! Generated: small repositories from backup/forget/prune histories (incl. duplicate blobs and
//! packs marked for deletion); then EVERY stored file except the config x fault kinds {remove,
//! truncate to several lengths, flip a bit in every region (nonce, body, tag, each blob, pack
//! header, length field), swap with siblings, and for index files duplicate / drop one entry}.
//! Oracle: E = "check --read-data returned Err, panicked or reports an Error-level finding",
//! R = "every snapshot in the repository lists and dumps exactly its model content".
//! Undamaged: not E and R. Every damaged state: R or E (equivalently: not E implies R).

use std::{collections::BTreeMap, sync::Arc};

use proptest::prelude::*;
use rustic_core::{FileType, Id};
use serde::{Deserialize, Serialize};
use vpcore::fmt::{decode_file, encode_file, next_nonce, parse_index, sha256};

use crate::{
    engine::{Ctx, DynSub, Outcome, PropSpec, Sub},
    r#gen::tree,
    history::{HOp, World, hop},
    inspect::{pack_info, to_id},
    membe::{Files, Storage, id_bytes, tfrom, tidx},
    model::{Flat, MNode},
    repo::{CheckVerdict, CmpOpts, RepoCfg, check_verdict, compare, open_full, open_repo, read_snapshot, repo_cfg},
};

#[derive(Debug, Clone, Serialize, Deserialize)]
pub struct Case {
    pub cfg: RepoCfg,
    pub tree: MNode,
    pub ops: Vec<HOp>,
    /// extra generated positions (scaled into the file) for bit flips and truncations
    pub positions: Vec<u16>,
    /// rotate the list of fault states so that the per-case cap reaches all of them over cases
    pub rotate: u16,
    /// how the handle that runs `check` is opened
    #[serde(default)]
    pub cache: CacheMode,
}

#[derive(Debug, Clone, Copy, Default, PartialEq, Eq, Serialize, Deserialize)]
pub enum CacheMode {
    /// no local cache
    #[default]
    None,
    /// the library's default: a local cache; its directory is new and empty for every check
    Fresh,
    /// a local cache that a check of the undamaged repository has filled before the fault
    Warm,
}

fn strategy(_ctx: &Ctx) -> BoxedStrategy<Case> {
    repo_cfg()
        .prop_flat_map(|cfg| {
            let mut p = super::c07::params(&cfg);
            p.file_cap = 40_000;
            p.max_children = 3;
            p.depth = 2;
            (
                Just(cfg),
                tree(p),
                prop::collection::vec(
                    hop(p, true).prop_filter("no stale-handle op", |o| {
                        !matches!(o, HOp::PruneThenStaleBackup { .. } | HOp::PrunesThenStaleBackup { .. } | HOp::CutBackup { .. })
                    }),
                    0..5,
                ),
                prop::collection::vec(any::<u16>(), 2..5),
                any::<u16>(),
                prop_oneof![2 => Just(CacheMode::None), 1 => Just(CacheMode::Fresh), 1 => Just(CacheMode::Warm)],
            )
        })
        .prop_map(|(cfg, tree, ops, positions, rotate, cache)| Case {
            cfg,
            tree,
            ops,
            positions,
            rotate,
            cache,
        })
        .boxed()
}

#[derive(Debug, Clone)]
enum Fault {
    Remove,
    Truncate(usize),
    Flip(usize, u8),
    Swap(Id),
    IndexDuplicateEntry,
    IndexDropEntry,
}

fn fault_name(f: &Fault) -> &'static str {
    match f {
        Fault::Remove => "remove",
        Fault::Truncate(_) => "truncate",
        Fault::Flip(..) => "bitflip",
        Fault::Swap(_) => "swap",
        Fault::IndexDuplicateEntry => "index_duplicate_entry",
        Fault::IndexDropEntry => "index_drop_entry",
    }
}

/// every snapshot of the repository reads back as its model
fn restorable(storage: &Arc<Storage>, cfg: &RepoCfg, live: &[(rustic_core::repofile::SnapshotFile, Arc<Flat>)]) -> Result<(), String> {
    let present: Vec<Id> = storage.ids(FileType::Snapshot);
    if present.is_empty() {
        return Ok(());
    }
    let full = open_full(storage, cfg)?;
    // what the repository itself lists as its snapshots
    let all = match crate::engine::guarded(|| full.get_all_snapshots()) {
        Ok(Ok(a)) => a,
        Ok(Err(e)) => return Err(format!("snapshots cannot be listed: {}", e.display_log())),
        Err(p) => return Err(format!("listing snapshots panicked: {p}")),
    };
    // every stored snapshot file is a snapshot of the repository: one that the listing silently
    // leaves out cannot be restored any more
    for id in &present {
        if !all.iter().any(|s| *s.id == *id) {
            return Err(format!("snapshot file {id} is stored but the repository does not list it as a snapshot"));
        }
    }
    for s in &all {
        let Some((_, model)) = live.iter().find(|(l, _)| l.id == s.id) else {
            // a snapshot file under an id that never was a snapshot of this history (e.g. an index
            // edit never creates one): cannot happen with the generated faults
            return Err(format!("unknown snapshot id {}", s.id));
        };
        let got = read_snapshot(&full, s, true)?;
        if let Some(d) = compare(model, &got, &CmpOpts { full_meta: true, content: true }) {
            return Err(format!("snapshot {}: {d}", s.id));
        }
    }
    Ok(())
}

/// a sort key that depends on what a file holds, not on its (random) name
fn stable_key(key: &[u8; 64], tpe: FileType, data: &[u8]) -> [u8; 32] {
    let mut acc: Vec<u8> = Vec::new();
    match tpe {
        FileType::Pack => {
            if let Ok(info) = vpcore::fmt::parse_pack(key, data) {
                for e in &info.entries {
                    acc.extend_from_slice(&e.id);
                }
            }
        }
        FileType::Index => {
            if let Some(idx) = decode_file(key, data).ok().and_then(|j| parse_index(&j).ok()) {
                let mut ids: Vec<String> = idx
                    .packs
                    .iter()
                    .chain(idx.packs_to_delete.iter())
                    .flat_map(|p| p.blobs.iter().map(|b| b.id.clone()))
                    .collect();
                ids.sort();
                acc = ids.concat().into_bytes();
            }
        }
        FileType::Snapshot => {
            if let Some(v) = decode_file(key, data).ok().and_then(|j| serde_json::from_slice::<serde_json::Value>(&j).ok()) {
                acc = format!("{}{}", v["time"], v["tree"]).into_bytes();
            }
        }
        _ => {}
    }
    if acc.is_empty() { sha256(data) } else { sha256(&acc) }
}

/// every snapshot restores to disk (the restore command reads packs in coalesced ranges, unlike
/// ls / dump) and the restored tree is the model
fn restores_to_disk(storage: &Arc<Storage>, cfg: &RepoCfg, live: &[(rustic_core::repofile::SnapshotFile, Arc<Flat>)]) -> Result<(), String> {
    let full = open_full(storage, cfg)?;
    for (s, model) in live {
        if storage.get(FileType::Snapshot, &rustic_core::Id::new(crate::membe::id_bytes(&s.id))).is_none() {
            continue;
        }
        let scratch = crate::fsutil::Scratch::new("c05r");
        let dest = scratch.path().join("d");
        crate::restore::restore_snapshot(&full, s, &dest, &rustic_core::RestoreOptions::default().no_ownership(true))
            .map_err(|e| format!("snapshot {}: {e}", s.id))?;
        let fs = crate::fsutil::walk(&dest).map_err(|e| e.to_string())?;
        if let Some(d) = crate::restore::compare_fs(model, &fs, &crate::restore::FsCmp { ownership: false, hardlinks: true, exact_set: true }) {
            return Err(format!("snapshot {} restored to disk differs from what was backed up: {d}", s.id));
        }
    }
    Ok(())
}

fn copy_dir(from: &std::path::Path, to: &std::path::Path) -> std::io::Result<()> {
    std::fs::create_dir_all(to)?;
    for e in std::fs::read_dir(from)? {
        let e = e?;
        let dest = to.join(e.file_name());
        if e.file_type()?.is_dir() {
            copy_dir(&e.path(), &dest)?;
        } else {
            _ = std::fs::copy(e.path(), &dest)?;
        }
    }
    Ok(())
}

fn apply_fault(base: &Files, key: &[u8; 64], tpe: FileType, id: &Id, f: &Fault) -> Option<Files> {
    let mut files = base.clone();
    let k = (tidx(tpe), *id);
    let data = files.get(&k)?.clone();
    match f {
        Fault::Remove => {
            _ = files.remove(&k);
        }
        Fault::Truncate(n) => {
            _ = files.insert(k, data.slice(0..(*n).min(data.len())));
        }
        Fault::Flip(pos, bit) => {
            let mut v = data.to_vec();
            if v.is_empty() {
                return None;
            }
            let p = (*pos).min(v.len() - 1);
            v[p] ^= 1 << (bit % 8);
            _ = files.insert(k, v.into());
        }
        Fault::Swap(other) => {
            let ko = (tidx(tpe), *other);
            let od = files.get(&ko)?.clone();
            if od == data {
                return None;
            }
            _ = files.insert(k, od);
            _ = files.insert(ko, data);
        }
        Fault::IndexDuplicateEntry | Fault::IndexDropEntry => {
            let json = decode_file(key, &data).ok()?;
            let mut idx = parse_index(&json).ok()?;
            let pack = idx.packs.iter_mut().find(|p| !p.blobs.is_empty())?;
            if matches!(f, Fault::IndexDuplicateEntry) {
                let b = pack.blobs[0].clone();
                pack.blobs.push(b);
            } else {
                _ = pack.blobs.remove(0);
            }
            let json = serde_json::to_vec(&idx).ok()?;
            let mut seed = 0xC05;
            let enc = encode_file(key, &next_nonce(&mut seed), &json, None);
            _ = files.remove(&k);
            _ = files.insert((tidx(tpe), to_id(&sha256(&enc))), enc.into());
        }
    }
    Some(files)
}

pub fn run(c: &Case, ctx: &Ctx) -> Outcome {
    let mut out = Outcome::pass();
    macro_rules! fail {
        ($($arg:tt)*) => {{
            out.failure = Some(format!($($arg)*));
            return out;
        }};
    }
    let mut w = match World::new(&c.cfg, &c.tree) {
        Ok(w) => w,
        Err(e) => fail!("{e}"),
    };
    let first = HOp::Backup { edits: vec![], parent: false };
    for op in std::iter::once(&first).chain(c.ops.iter()) {
        if let Err(e) = w.step(op) {
            fail!("building the repository: {e}");
        }
    }
    if w.live.is_empty() {
        if let Err(e) = w.step(&first) {
            fail!("building the repository: {e}");
        }
    }
    let key = c.cfg.key64();
    let live: Vec<_> = w.live.iter().map(|l| (l.snap.clone(), l.model.clone())).collect();
    let base = w.storage.files();

    // undamaged: check clean and everything restorable
    if let Err(e) = restorable(&w.storage, &c.cfg, &live) {
        fail!("undamaged repository: {e}");
    }
    match w.check(true) {
        CheckVerdict::Errors(e) => fail!("undamaged repository: {e}"),
        CheckVerdict::Inconclusive(_) => return out.skip("check_inconclusive_on_undamaged"),
        CheckVerdict::Clean => {}
    }
    if let Err(e) = restores_to_disk(&w.storage, &c.cfg, &live) {
        fail!("undamaged repository, check --read-data reports no error, but: {e}");
    }

    // the check handle's local cache
    let scratch = (c.cache != CacheMode::None).then(|| crate::fsutil::Scratch::new("c05"));
    let open_cached = |st: &Arc<Storage>, dir: &std::path::Path| -> Result<crate::repo::RepoOpen, String> {
        rustic_core::Repository::new(
            &rustic_core::RepositoryOptions::default().cache_dir(dir.to_path_buf()),
            &crate::repo::backends(st.handle()),
        )
        .map_err(|e| e.display_log())?
        .open(&c.cfg.credentials())
        .map_err(|e| format!("open with a cache: {}", e.display_log()))
    };
    if let (CacheMode::Warm, Some(s)) = (c.cache, &scratch) {
        let warm = s.path().join("warm");
        match open_cached(&w.storage, &warm) {
            Ok(repo) => match check_verdict(&repo, true) {
                CheckVerdict::Errors(e) => fail!("undamaged repository, check through a cached handle: {e}"),
                CheckVerdict::Inconclusive(_) => return out.skip("check_inconclusive_on_undamaged"),
                CheckVerdict::Clean => {}
            },
            Err(e) => fail!("undamaged repository: {e}"),
        }
    }
    out = out.class(format!("check_cache_{:?}", c.cache));

    // enumerate fault states
    let mut states: Vec<(FileType, Id, Fault)> = Vec::new();
    // File ids are random (nonces): walk the files in an order derived from their decrypted
    // content, so that a saved case judges the same window of fault states when it is replayed.
    let mut ordered: Vec<(&(u8, Id), &bytes::Bytes)> = base.iter().collect();
    ordered.sort_by_cached_key(|((t, id), data)| (*t, stable_key(&key, tfrom(*t), data), *id));
    let rank: BTreeMap<(u8, Id), usize> = ordered.iter().enumerate().map(|(i, (k, _))| (**k, i)).collect();
    for ((t, id), data) in ordered.iter().copied() {
        let tpe = tfrom(*t);
        if matches!(tpe, FileType::Config | FileType::Key) {
            continue;
        }
        let n = data.len();
        states.push((tpe, *id, Fault::Remove));
        let mut lens = vec![0usize, 1, n / 2, n.saturating_sub(1)];
        let mut flips = vec![0usize, 15, 16, n / 2, n.saturating_sub(17), n.saturating_sub(1)];
        for p in &c.positions {
            lens.push(crate::engine::pick_idx(*p, n + 1));
            flips.push(crate::engine::pick_idx(p.rotate_left(5), n.max(1)));
        }
        if tpe == FileType::Pack {
            if let Ok(info) = pack_info(&w.storage, &key, &id_bytes(id)) {
                for e in &info.entries {
                    // one flip inside every blob (body and its tag)
                    flips.push(e.offset as usize + (e.length as usize) / 2);
                    flips.push(e.offset as usize + (e.length as usize).saturating_sub(1));
                    lens.push(e.offset as usize + e.length as usize);
                }
                let hstart = n - 4 - info.header_len as usize;
                flips.extend([hstart, hstart + 20, n - 5, n - 4, n - 3, n - 1]);
                lens.extend([hstart, n - 4]);
            }
        }
        lens.sort_unstable();
        lens.dedup();
        flips.sort_unstable();
        flips.dedup();
        for l in lens {
            if l < n {
                states.push((tpe, *id, Fault::Truncate(l)));
            }
        }
        for (i, f) in flips.into_iter().enumerate() {
            if f < n {
                states.push((tpe, *id, Fault::Flip(f, (i as u8).wrapping_mul(3))));
            }
        }
        let siblings: Vec<Id> = ordered.iter().map(|(k, _)| **k).filter(|(t2, i2)| t2 == t && i2 != id).map(|(_, i)| i).take(4).collect();
        for s in siblings {
            if rank[&(*t, s)] > rank[&(*t, *id)] {
                states.push((tpe, *id, Fault::Swap(s)));
            }
        }
        if tpe == FileType::Index {
            states.push((tpe, *id, Fault::IndexDuplicateEntry));
            states.push((tpe, *id, Fault::IndexDropEntry));
        }
    }
    let total = states.len();
    let cap = if ctx.tier.is_thorough() { 200 } else { 48 };
    if total > 0 {
        let r = usize::from(c.rotate) % total;
        states.rotate_left(r);
    }
    let mut judged = 0u64;
    let mut state_no = 0u64;
    let mut detected = 0u64;
    let mut harmless = 0u64;
    for (tpe, id, f) in states.into_iter().take(cap) {
        let Some(files) = apply_fault(&base, &key, tpe, &id, &f) else { continue };
        let st = Storage::from_files(files);
        let r = restorable(&st, &c.cfg, &live);
        state_no += 1;
        let opened = match (&scratch, c.cache) {
            (Some(s), CacheMode::Fresh) => {
                let dir = s.path().join(format!("fresh-{state_no}"));
                open_cached(&st, &dir)
            }
            (Some(s), CacheMode::Warm) => {
                // every state starts from a copy of the cache as the undamaged check left it
                let dir = s.path().join(format!("state-{state_no}"));
                if let Err(e) = copy_dir(&s.path().join("warm"), &dir) {
                    fail!("copying the warm cache: {e}");
                }
                open_cached(&st, &dir)
            }
            _ => open_repo(st.handle(), &c.cfg),
        };
        let e = match opened {
            Ok(repo) => match crate::repo::check_verdict_owned(repo, true) {
                Ok(v) => v,
                Err(e) if e == crate::engine::SKIP_AFTER_DEADLOCK => return out.skip("after_deadlock_in_this_worker"),
                Err(hang) => {
                    out.failure = Some(format!(
                        "after fault `{}` on {tpe} file {id:?} ({f:?}) check --read-data never returns: {hang}",
                        fault_name(&f)
                    ));
                    return out;
                }
            },
            Err(e) => CheckVerdict::Errors(e),
        };
        out = out.class(format!("fault_{}_{}", fault_name(&f), tpe));
        match (&r, &e) {
            (_, CheckVerdict::Inconclusive(_)) => {
                out = out.class("check_inconclusive");
                continue;
            }
            (Err(why), CheckVerdict::Clean) => {
                // an id-swap of two files is the documented known gap
                if matches!(f, Fault::Swap(_)) {
                    out = out.known("swapped-files-not-detected");
                }
                out.failure = Some(format!(
                    "after fault `{}` on {tpe} file {id:?} ({f:?}) check --read-data reports no error, but not every snapshot restores: {why}",
                    fault_name(&f)
                ));
                return out;
            }
            (Err(_), CheckVerdict::Errors(_)) => detected += 1,
            (Ok(()), CheckVerdict::Clean) => {
                // check is clean and ls / dump agree: then the restore command must succeed as well
                // (judged for every fifth such state: a restore to disk per snapshot is not cheap)
                if harmless % 5 == 0 {
                    if let Err(why) = restores_to_disk(&st, &c.cfg, &live) {
                        out.failure = Some(format!(
                            "after fault `{}` on {tpe} file {id:?} ({f:?}) check --read-data reports no error, but not every snapshot restores: {why}",
                            fault_name(&f)
                        ));
                        return out;
                    }
                }
                harmless += 1;
            }
            (Ok(()), _) => harmless += 1,
        }
        judged += 1;
    }
    out.nontrivial = detected > 0;
    out.count("fault_states_judged", judged)
        .count("faults_breaking_restore_and_reported", detected)
        .count("faults_not_breaking_restore", harmless)
        .count("fault_states_enumerable", total as u64)
}

pub fn spec() -> PropSpec {
    PropSpec {
        id: "C05",
        level: "fault_enumeration",
        rule: "proptest generates (configuration, source tree, history of 0–4 operations incl. two-handle backups = duplicate blobs, duplicated index files, non-instant prunes = marked packs); for every stored snapshot/index/pack file the fault states {remove; truncate to 0, 1, mid, len−1, every blob boundary, header start, generated lengths; flip one bit at offsets 0/15/16 (nonce, first body byte), middle, tag, inside every blob and its tag, header start/body, every byte of the length field, generated offsets; swap content with up to 4 siblings of the same type; for index files duplicate / drop one entry (re-encoded with the independent encoder)} are enumerated; each case judges a rotating window of 48 (quick) / 200 (thorough) of them. Non-trivial = at least one fault that breaks a restore and is reported by check; distinct by hash of the case. Counters: fault_states_judged etc.",
        assumptions: vec![
            "single faults only; key and config files are not damaged",
            "R is evaluated through a freshly opened library handle (list + dump of every file of every snapshot the repository lists)",
            "the persistent index hand-back race of check is counted as inconclusive",
        ],
        subs: vec![Box::new(Sub {
            name: "faults",
            cases_quick: 160,
            cases_thorough: 800,
            max_shrink_iters: 40,
            strategy,
            run,
        }) as Box<dyn DynSub>],
        extra: None,
    }
}
