//! One module per property. `spec(id)` returns the check description the engine runs.
//! Every property has its module registered here already; a module that is not implemented
//! yet is a stub whose `spec()` has no sub-checks (and is listed in `STUBS`).
use crate::engine::PropSpec;

pub mod c01;
pub mod c02;
pub mod c03;
pub mod c04;
pub mod c05;
pub mod c06;
pub mod c07;
pub mod c08;
pub mod c09;
pub mod c10;
pub mod c11;
pub mod c12;
pub mod c13;
pub mod c14;
pub mod c15;
pub mod c16;
pub mod c17;
pub mod c18;
pub mod c19;
pub mod c20;

pub const ALL: &[&str] = &["C01", "C02", "C03", "C04", "C05", "C06", "C07", "C08", "C09", "C10", "C11", "C12", "C13", "C14", "C15", "C16", "C17", "C18", "C19", "C20"];

pub fn spec(id: &str) -> Option<PropSpec> {
    let spec = match id {
        "C01" => c01::spec(),
        "C02" => c02::spec(),
        "C03" => c03::spec(),
        "C04" => c04::spec(),
        "C05" => c05::spec(),
        "C06" => c06::spec(),
        "C07" => c07::spec(),
        "C08" => c08::spec(),
        "C09" => c09::spec(),
        "C10" => c10::spec(),
        "C11" => c11::spec(),
        "C12" => c12::spec(),
        "C13" => c13::spec(),
        "C14" => c14::spec(),
        "C15" => c15::spec(),
        "C16" => c16::spec(),
        "C17" => c17::spec(),
        "C18" => c18::spec(),
        "C19" => c19::spec(),
        "C20" => c20::spec(),
        _ => return None,
    };
    // a stub has no sub-checks
    (!spec.subs.is_empty()).then_some(spec)
}
