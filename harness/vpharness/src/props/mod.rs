//! One module per property. `spec(id)` returns the check description the engine runs.
use crate::engine::PropSpec;

pub mod c01;
pub mod c06;
pub mod c09;

pub const ALL: &[&str] = &["C01", "C06", "C09"];

pub fn spec(id: &str) -> Option<PropSpec> {
    Some(match id {
        "C01" => c01::spec(),
        "C06" => c06::spec(),
        "C09" => c09::spec(),
        _ => return None,
    })
}
