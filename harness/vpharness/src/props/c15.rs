//! C15 — Append-only and dry-run modes never remove or overwrite stored data.
//!
//! Two sub-checks, both judged on the operation log of the harness' in-memory backend:
//!
//! * `append_only`: generated programs (≤ 10 operations) of public repository operations on a
//!   repository whose config says `append_only = true`. Invariant: while the flag is on the log
//!   never contains an applied `Remove` of a snapshot / index / pack file nor a `Write` over an
//!   existing file of these types, and every such file that existed before an operation exists
//!   byte-identically after it. Differential: a destructive operation is also executed on a copy
//!   of the storage whose config has the flag turned off; if that normal-mode run removes or
//!   replaces such a file, the append-only run must fail and its log slice must not contain a
//!   single `Write` / `Remove` of any file type. Operations that only add files must not be refused
//!   (an additive operation that fails in append-only mode is re-run in normal mode; only if it
//!   works there the failure is attributed to append-only mode).
//! * `dry_run`: every command with a dry-run flag x generated arguments on a repository with a
//!   generated history (and generated damage where a repair needs something to repair): the log
//!   slice of the command holds no `Write`, `Remove` or `Create` on any store involved and the
//!   storage content is byte-identical afterwards; for `prepare_restore` the (pre-populated)
//!   destination directory is unchanged as well.

use std::{
    cmp::Ordering,
    collections::BTreeMap,
    path::Path,
    sync::Arc,
};

use proptest::prelude::*;
use rustic_core::{
    BackupOptions, ConfigOptions, FileType, Id, KeyOptions, LocalDestination, LsOptions, PruneOptions,
    RepairIndexOptions, RepairSnapshotsOptions, Repository, RepositoryBackends, RestoreOptions,
    RewriteOptions, RewriteTreesOptions, WriteBackend,
    repofile::{KeyId, Node, SnapshotFile, SnapshotId, SnapshotModification},
};
use serde::{Deserialize, Serialize};
use vpcore::fmt::BType;

use crate::{
    cmds,
    engine::{Ctx, DynSub, Outcome, PropSpec, Sub, guarded, pick_idx},
    fsutil::{FsKind, Scratch, walk},
    r#gen::{Edit, TreeParams, apply_edit, edit, tree},
    history::{HOp, PruneCfg, World, hop, prune_cfg},
    inspect::{index_view, to_id},
    membe::{Files, Op, OpKind, OpLog, Storage, tidx},
    model::{Content, MKind, MNode, MTime, Piece, ReadSchedule},
    repo::{
        RepoCfg, backends, backup_tree, estr, force_opts, open_full, open_ids, open_repo, repo_cfg,
        repo_opts, snap_template,
    },
    restore::restore_snapshot,
};

fn params(cfg: &RepoCfg) -> TreeParams {
    let mut p = super::c07::params(cfg);
    p.file_cap = 60_000;
    p.max_children = 3;
    p
}

/// The compression level is irrelevant here, and the highest zstd levels cost seconds per
/// thousand blobs (a copy between repositories with unrelated chunk sizes has thousands).
fn tame(mut cfg: RepoCfg) -> RepoCfg {
    if let Some(l) = cfg.compression {
        if l > 6 {
            cfg.compression = Some(l % 7);
        }
    }
    cfg
}

// ------------------------------------------------------------------ log predicates

/// snapshot, index and pack files: the file types the statement protects
fn sip(t: FileType) -> bool {
    matches!(t, FileType::Snapshot | FileType::Index | FileType::Pack)
}

fn show_op(o: &Op) -> String {
    format!(
        "{:?} of {} file {} (store {}, applied: {}, reported ok: {}, existed before: {})",
        o.kind,
        o.tpe,
        &o.id.to_hex()[..12],
        o.store,
        o.applied,
        o.ok,
        o.existed
    )
}

/// first operation of the slice that removed or replaced a snapshot / index / pack file
fn destructive(ops: &[Op]) -> Option<String> {
    ops.iter()
        .find(|o| {
            sip(o.tpe)
                && o.applied
                && (o.kind == OpKind::Remove || (o.kind == OpKind::Write && o.existed))
        })
        .map(show_op)
}

/// first `Write` / `Remove` (and `Create` if asked) the slice contains, applied or not, any type
fn first_mutation(ops: &[Op], with_create: bool) -> Option<String> {
    ops.iter()
        .find(|o| o.kind.mutating() || (with_create && o.kind == OpKind::Create))
        .map(show_op)
}

/// every snapshot / index / pack file of `before` is in `after` with the same bytes
fn lost_file(before: &Files, after: &Files) -> Option<String> {
    for ((t, id), data) in before {
        if !(*t == tidx(FileType::Snapshot) || *t == tidx(FileType::Index) || *t == tidx(FileType::Pack)) {
            continue;
        }
        match after.get(&(*t, *id)) {
            None => return Some(format!("{} file {} is gone", crate::membe::tfrom(*t), &id.to_hex()[..12])),
            Some(d) if d != data => {
                return Some(format!("{} file {} has other bytes", crate::membe::tfrom(*t), &id.to_hex()[..12]));
            }
            _ => {}
        }
    }
    None
}

/// what the stored config says about append-only mode, read with the independent decoder
fn stored_append_only(storage: &Arc<Storage>, cfg: &RepoCfg) -> Result<Option<bool>, String> {
    let raw = storage
        .get(FileType::Config, &Id::default())
        .ok_or("no config file in the storage")?;
    let json = vpcore::fmt::decode_file(&cfg.key64(), &raw).map_err(|e| format!("config file: {e}"))?;
    let v: serde_json::Value = serde_json::from_slice(&json).map_err(|e| format!("config file: {e}"))?;
    Ok(v.get("append_only").and_then(serde_json::Value::as_bool))
}

// ------------------------------------------------------------------ generated arguments

#[derive(Debug, Clone, PartialEq, Eq, Serialize, Deserialize)]
pub struct RwCfg {
    /// rewrite trees as well (`rewrite_snapshots_and_trees`) or only the snapshot files
    pub trees: bool,
    pub forget: bool,
    /// 0 = no exclude, else one of `GLOBS`
    pub glob: u8,
    pub all_trees: bool,
    pub label: Option<String>,
    pub add_tag: bool,
    /// bit mask over the (sorted) snapshot list, 0 = all
    pub mask: u8,
}

const GLOBS: [&str; 5] = ["", "!*", "!*a*", "!*e*", "!/s/*/*"];

fn rw_cfg() -> BoxedStrategy<RwCfg> {
    (
        any::<bool>(),
        any::<bool>(),
        prop_oneof![2 => Just(0u8), 5 => 1u8..GLOBS.len() as u8],
        prop::bool::weighted(0.2),
        prop::option::weighted(0.5, "[a-z]{1,6}"),
        prop::bool::weighted(0.3),
        any::<u8>(),
    )
        .prop_map(|(trees, forget, glob, all_trees, label, add_tag, mask)| RwCfg {
            trees,
            forget,
            glob,
            all_trees,
            label,
            add_tag,
            mask,
        })
        .boxed()
}

impl RwCfg {
    fn options(&self, dry_run: bool) -> (RewriteOptions, Option<RewriteTreesOptions>) {
        let mut m = SnapshotModification::default();
        m.set_label = self.label.clone();
        if self.add_tag {
            m.add_tags = vec!["vp".parse().expect("tag")];
        }
        let opts = RewriteOptions::default()
            .forget(self.forget)
            .dry_run(dry_run)
            .modification(m);
        let trees = self.trees.then(|| {
            let mut t = RewriteTreesOptions::default();
            let g = GLOBS[usize::from(self.glob) % GLOBS.len()];
            if !g.is_empty() {
                t.excludes.globs = vec![g.to_string()];
            }
            t.all_trees = self.all_trees;
            t
        });
        (opts, trees)
    }
}

/// config changes the library accepts on any generated repository
#[derive(Debug, Clone, PartialEq, Eq, Serialize, Deserialize)]
pub struct CfgChange {
    pub append_only: Option<bool>,
    /// only applied to version 2 repositories
    pub compression: Option<i32>,
    pub treepack_size: Option<u32>,
    pub datapack_size: Option<u32>,
    pub extra_verify: Option<bool>,
    pub min_pct: Option<u32>,
}

fn cfg_change() -> BoxedStrategy<CfgChange> {
    (
        prop_oneof![4 => Just(None), 2 => Just(Some(true)), 3 => Just(Some(false))],
        prop::option::weighted(0.4, 0i32..=5),
        prop::option::weighted(0.3, 0u32..100_000),
        prop::option::weighted(0.3, 0u32..100_000),
        prop::option::weighted(0.3, any::<bool>()),
        prop::option::weighted(0.2, 0u32..=100),
    )
        .prop_map(|(append_only, compression, treepack_size, datapack_size, extra_verify, min_pct)| CfgChange {
            append_only,
            compression,
            treepack_size,
            datapack_size,
            extra_verify,
            min_pct,
        })
        .boxed()
}

impl CfgChange {
    fn options(&self, cfg: &RepoCfg) -> ConfigOptions {
        let mut o = ConfigOptions::default();
        o.set_append_only = self.append_only;
        if cfg.version >= 2 {
            o.set_compression = self.compression;
        }
        o.set_treepack_size = self.treepack_size.map(|s| bytesize::ByteSize(u64::from(s)));
        o.set_datapack_size = self.datapack_size.map(|s| bytesize::ByteSize(u64::from(s)));
        o.set_extra_verify = self.extra_verify;
        o.set_min_packsize_tolerate_percent = self.min_pct;
        o
    }
}

// ------------------------------------------------------------------ executing one operation

/// One library operation with concrete arguments; can be executed on any storage holding the
/// same repository (the real one or a fork of it).
#[derive(Debug, Clone)]
enum Prep {
    Backup { tree: MNode, parent: bool, time: i64, cut: Option<u8>, dry_run: bool },
    Forget { ids: Vec<SnapshotId> },
    Save { snaps: Vec<SnapshotFile> },
    /// `deprecated`: through the deprecated public entry points `PruneOptions::get_plan` and
    /// `PrunePlan::do_prune`
    Prune { opts: PruneOptions, deprecated: bool },
    RepairIndex { read_all: bool, dry_run: bool },
    RepairSnaps { snaps: Vec<SnapshotFile>, delete: bool, dry_run: bool },
    Rewrite { snaps: Vec<SnapshotFile>, opts: RewriteOptions, trees: Option<RewriteTreesOptions> },
    Config { opts: ConfigOptions },
    AddKey { pass: String },
    DeleteKey { id: KeyId },
    CopyInto { src: Arc<Storage>, src_cfg: RepoCfg, snaps: Vec<SnapshotFile> },
    Merge { snaps: Vec<SnapshotFile>, time: i64 },
}

#[derive(Debug, Default)]
struct ExecOut {
    key: Option<KeyId>,
}

fn exec(p: &Prep, storage: &Arc<Storage>, cfg: &RepoCfg) -> Result<ExecOut, String> {
    let r = guarded(|| -> Result<ExecOut, String> {
        let mut out = ExecOut::default();
        match p {
            Prep::Backup { tree, parent, time, cut, dry_run } => {
                let be = storage.handle();
                let repo = open_repo(be.clone(), cfg)?
                    .to_indexed_ids()
                    .map_err(|e| format!("to_indexed_ids: {}", estr(&e)))?;
                if let Some(k) = cut {
                    be.control(|c| c.cut_after_mut = Some(usize::from(*k)));
                }
                let mut opts: BackupOptions = if *parent { BackupOptions::default() } else { force_opts() };
                opts.dry_run = *dry_run;
                _ = backup_tree(&repo, tree, &ReadSchedule::default(), &opts, snap_template(*time, "host", "", ""))?;
            }
            Prep::Forget { ids } => {
                open_repo(storage.handle(), cfg)?
                    .delete_snapshots(ids)
                    .map_err(|e| format!("delete_snapshots returned an error: {}", estr(&e)))?;
            }
            Prep::Save { snaps } => {
                open_repo(storage.handle(), cfg)?
                    .save_snapshots(snaps.clone())
                    .map_err(|e| format!("save_snapshots returned an error: {}", estr(&e)))?;
            }
            Prep::Prune { opts, deprecated: false } => {
                let repo = open_repo(storage.handle(), cfg)?;
                let plan = repo
                    .prune_plan(opts)
                    .map_err(|e| format!("prune_plan returned an error: {}", estr(&e)))?;
                repo.prune(opts, plan)
                    .map_err(|e| format!("prune returned an error: {}", estr(&e)))?;
            }
            Prep::Prune { opts, deprecated: true } => {
                let repo = open_repo(storage.handle(), cfg)?;
                #[allow(deprecated)]
                let plan = opts
                    .get_plan::<rustic_core::NoProgressBars, _>(&repo)
                    .map_err(|e| format!("get_plan returned an error: {}", estr(&e)))?;
                #[allow(deprecated)]
                plan.do_prune::<rustic_core::NoProgressBars, _>(&repo, opts)
                    .map_err(|e| format!("do_prune returned an error: {}", estr(&e)))?;
            }
            Prep::RepairIndex { read_all, dry_run } => {
                let repo = open_repo(storage.handle(), cfg)?;
                let opts = RepairIndexOptions::default().read_all(*read_all);
                repo.repair_index(&opts, *dry_run)
                    .map_err(|e| format!("repair_index returned an error: {}", estr(&e)))?;
            }
            Prep::RepairSnaps { snaps, delete, dry_run } => {
                let repo = open_full(storage, cfg)?;
                let opts = RepairSnapshotsOptions::default().delete(*delete);
                repo.repair_snapshots(&opts, snaps.clone(), *dry_run)
                    .map_err(|e| format!("repair_snapshots returned an error: {}", estr(&e)))?;
            }
            Prep::Rewrite { snaps, opts, trees } => match trees {
                Some(t) => {
                    let repo = open_full(storage, cfg)?;
                    _ = repo
                        .rewrite_snapshots_and_trees(snaps.clone(), opts, t)
                        .map_err(|e| format!("rewrite_snapshots_and_trees returned an error: {}", estr(&e)))?;
                }
                None => {
                    let repo = open_repo(storage.handle(), cfg)?;
                    _ = repo
                        .rewrite_snapshots(snaps.clone(), opts)
                        .map_err(|e| format!("rewrite_snapshots returned an error: {}", estr(&e)))?;
                }
            },
            Prep::Config { opts } => {
                let mut repo = open_repo(storage.handle(), cfg)?;
                _ = repo
                    .apply_config(opts)
                    .map_err(|e| format!("apply_config returned an error: {}", estr(&e)))?;
            }
            Prep::AddKey { pass } => {
                let repo = open_repo(storage.handle(), cfg)?;
                out.key = Some(
                    repo.add_key(pass, &KeyOptions::default())
                        .map_err(|e| format!("add_key returned an error: {}", estr(&e)))?,
                );
            }
            Prep::DeleteKey { id } => {
                open_repo(storage.handle(), cfg)?
                    .delete_key(id)
                    .map_err(|e| format!("delete_key returned an error: {}", estr(&e)))?;
            }
            Prep::CopyInto { src, src_cfg, snaps } => {
                let from = open_full(src, src_cfg)?;
                let to = open_ids(storage, cfg)?;
                from.copy(&to, snaps.iter())
                    .map_err(|e| format!("copy returned an error: {}", estr(&e)))?;
            }
            Prep::Merge { snaps, time } => {
                let repo = open_full(storage, cfg)?;
                let cmp = |a: &Node, b: &Node| -> Ordering { a.meta.mtime.cmp(&b.meta.mtime) };
                _ = repo
                    .merge_snapshots(snaps, &cmp, snap_template(*time, "host", "", "merged"))
                    .map_err(|e| format!("merge_snapshots returned an error: {}", estr(&e)))?;
            }
        }
        Ok(out)
    });
    match r {
        Ok(x) => x,
        Err(p) => Err(format!("panicked: {p}")),
    }
}

/// run on the storage and return the result with the log slice of the run
///
/// Only operations of handles created by this run are returned: worker threads of an earlier
/// crashed backup may still be issuing (failing) writes on their dead handle.
fn exec_logged(p: &Prep, storage: &Arc<Storage>, cfg: &RepoCfg) -> (Result<ExecOut, String>, Vec<Op>) {
    let marker = storage.handle().h.id;
    let pos = storage.log.len();
    let r = exec(p, storage, cfg);
    (r, log_since(storage, pos, marker))
}

/// Best effort to also see writes issued by worker threads the command left behind: wait until
/// the log stopped growing for two short intervals. Only ever makes the check stricter.
fn settle(log: &OpLog) {
    let mut n = log.len();
    let mut stable = 0;
    for _ in 0..20 {
        std::thread::sleep(std::time::Duration::from_millis(2));
        let m = log.len();
        if m == n {
            stable += 1;
            if stable == 2 {
                return;
            }
        } else {
            stable = 0;
            n = m;
        }
    }
}

fn log_since(storage: &Arc<Storage>, pos: usize, marker: u32) -> Vec<Op> {
    settle(&storage.log);
    let mut log = storage.log.snapshot();
    let mut slice = log.split_off(pos.min(log.len()));
    slice.retain(|o| o.handle > marker);
    slice
}

/// a copy of the storage whose config has append-only mode turned off (through the library: the
/// guard of `apply_config` lets exactly this change pass)
fn normal_mode_fork(storage: &Arc<Storage>, cfg: &RepoCfg) -> Result<Arc<Storage>, String> {
    let fork = storage.fork();
    if stored_append_only(&fork, cfg)? == Some(true) {
        let mut o = ConfigOptions::default();
        o.set_append_only = Some(false);
        exec(&Prep::Config { opts: o }, &fork, cfg)?;
        if stored_append_only(&fork, cfg)? == Some(true) {
            return Err("config still says append-only after turning it off".into());
        }
    }
    Ok(fork)
}

/// snapshots as the library lists them, in an order that does not depend on the (random) file ids
fn list_snaps(storage: &Arc<Storage>, cfg: &RepoCfg) -> Result<Vec<SnapshotFile>, String> {
    let mut v = cmds::all_snapshots(storage, cfg)?;
    v.sort_by_cached_key(|s| {
        (
            s.time.timestamp().as_second(),
            s.original.is_some(),
            s.label.clone(),
            format!("{:?}", s.tags),
            s.tree.to_hex().to_string(),
            s.hostname.clone(),
        )
    });
    Ok(v)
}

fn by_mask(snaps: &[SnapshotFile], mask: u8) -> Vec<SnapshotFile> {
    let sel: Vec<SnapshotFile> = snaps
        .iter()
        .enumerate()
        .filter(|(i, _)| mask == 0 || (mask >> (i % 8)) & 1 == 1)
        .map(|(_, s)| s.clone())
        .collect();
    if sel.is_empty() { snaps.to_vec() } else { sel }
}

/// remove one data pack behind the library's back (the storage loses it; nothing is logged)
fn lose_data_pack(storage: &Arc<Storage>, cfg: &RepoCfg, sel: u16) -> Result<bool, String> {
    let view = index_view(storage, &cfg.key64())?;
    let mut packs: Vec<_> = view
        .packs
        .iter()
        .filter(|(p, b)| {
            !b.is_empty() && b.iter().all(|x| x.0 == BType::Data) && storage.get(FileType::Pack, &to_id(p)).is_some()
        })
        .collect();
    if packs.is_empty() {
        return Ok(false);
    }
    // pack ids are random: order the candidates by content
    packs.sort_by_key(|(_, b)| b.iter().map(|x| x.1).min());
    let (pid, _) = packs[pick_idx(sel, packs.len())];
    Ok(storage.del(FileType::Pack, &to_id(pid)))
}

// ------------------------------------------------------------------ sub-check: append_only

#[derive(Debug, Clone, PartialEq, Eq, Serialize, Deserialize)]
pub enum AOp {
    Backup { edits: Vec<Edit>, parent: bool },
    /// a backup on a handle that dies after `cut` mutating operations (a crash; leaves packs that
    /// no index file lists)
    CutBackup { edits: Vec<Edit>, cut: u8 },
    Forget { sel: Vec<u16> },
    /// save a relabelled copy of an existing snapshot
    Save { sel: u16 },
    Prune(PruneCfg),
    /// the same through the deprecated `PruneOptions::get_plan` + `PrunePlan::do_prune`
    PruneDeprecated(PruneCfg),
    RepairIndex { read_all: bool },
    RepairSnapshots { delete: bool, mask: u8 },
    Rewrite(RwCfg),
    Config(CfgChange),
    AddKey,
    DeleteKey { sel: u16 },
    /// copy snapshots of a second repository into the append-only one
    CopyInto { mask: u8 },
    Merge { mask: u8 },
    /// the storage loses a data pack (not a library operation)
    Damage { sel: u16 },
}

#[derive(Debug, Clone, Serialize, Deserialize)]
pub struct AoCase {
    pub cfg: RepoCfg,
    pub src_cfg: RepoCfg,
    pub tree: MNode,
    /// true: `append_only` is in the config the repository is initialised with; false: it is
    /// turned on with `apply_config` after the `pre` history
    pub at_init: bool,
    /// history in normal mode before the flag is turned on (ignored if `at_init`)
    pub pre: Vec<HOp>,
    /// second state of the source repository of `CopyInto`
    pub src_edits: Vec<Edit>,
    /// before the flag is turned on (not `at_init`): a data pack is lost and the index repaired, so
    /// that snapshots with missing content exist while the repository is append-only
    #[serde(default)]
    pub pre_damage: Option<u16>,
    pub ops: Vec<AOp>,
}

fn aop(p: TreeParams) -> BoxedStrategy<AOp> {
    let edits = || prop::collection::vec(edit(p), 0..4);
    prop_oneof![
        10 => (edits(), any::<bool>()).prop_map(|(edits, parent)| AOp::Backup { edits, parent }),
        4 => (edits(), prop_oneof![1 => Just(0u8), 4 => 1u8..4, 2 => 4u8..10]).prop_map(|(edits, cut)| AOp::CutBackup { edits, cut }),
        6 => prop::collection::vec(any::<u16>(), 1..3).prop_map(|sel| AOp::Forget { sel }),
        2 => any::<u16>().prop_map(|sel| AOp::Save { sel }),
        6 => prune_cfg().prop_map(AOp::Prune),
        3 => prune_cfg().prop_map(AOp::PruneDeprecated),
        4 => any::<bool>().prop_map(|read_all| AOp::RepairIndex { read_all }),
        5 => (any::<bool>(), prop_oneof![Just(0u8), any::<u8>()]).prop_map(|(delete, mask)| AOp::RepairSnapshots { delete, mask }),
        6 => rw_cfg().prop_map(AOp::Rewrite),
        3 => cfg_change().prop_map(AOp::Config),
        1 => Just(AOp::AddKey),
        1 => any::<u16>().prop_map(|sel| AOp::DeleteKey { sel }),
        2 => any::<u8>().prop_map(|mask| AOp::CopyInto { mask }),
        2 => any::<u8>().prop_map(|mask| AOp::Merge { mask }),
        2 => any::<u16>().prop_map(|sel| AOp::Damage { sel }),
    ]
    .boxed()
}

fn ao_strategy(_ctx: &Ctx) -> BoxedStrategy<AoCase> {
    (repo_cfg().prop_map(tame), repo_cfg().prop_map(tame), prop::bool::weighted(0.3))
        .prop_flat_map(|(cfg, mut src_cfg, at_init)| {
            if src_cfg.key_seed == cfg.key_seed {
                src_cfg.key_seed += 1;
            }
            let p = params(&cfg);
            let first = (prop::collection::vec(edit(p), 0..3), any::<bool>())
                .prop_map(|(edits, parent)| AOp::Backup { edits, parent });
            let pre = if at_init {
                Just(Vec::new()).boxed()
            } else {
                prop::collection::vec(hop(p, true), 0..4)
                    .prop_map(|mut v| {
                        v.insert(0, HOp::Backup { edits: vec![], parent: false });
                        v
                    })
                    .boxed()
            };
            (
                Just(cfg),
                Just(src_cfg),
                tree(p),
                Just(at_init),
                pre,
                prop::collection::vec(edit(p), 0..3),
                prop::option::weighted(0.4, any::<u16>()),
                // mostly start with a backup so that later operations have something to destroy
                prop_oneof![4 => first.prop_map(Some), 1 => Just(None)],
                prop::collection::vec(aop(p), 1..=9),
            )
        })
        .prop_map(|(cfg, src_cfg, tree, at_init, pre, src_edits, pre_damage, first, mut ops)| {
            if let Some(f) = first {
                ops.insert(0, f);
            }
            AoCase {
                cfg,
                src_cfg,
                tree,
                at_init,
                pre,
                src_edits,
                pre_damage: if at_init { None } else { pre_damage },
                ops,
            }
        })
        .boxed()
}

#[derive(Debug, Clone, Copy, PartialEq, Eq)]
enum Class {
    /// only ever adds files: must not be refused
    Additive,
    /// may remove or replace files in normal mode
    Destructive,
    /// judged by the invariant only
    Neutral,
}

fn init_with(storage: &Arc<Storage>, cfg: &RepoCfg, append_only: bool) -> Result<(), String> {
    let mut cf = cfg.config_file();
    if append_only {
        cf.append_only = Some(true);
    }
    let be = storage.handle();
    let r = guarded(|| -> Result<(), String> {
        _ = Repository::new(&repo_opts(), &backends(be))
            .map_err(|e| estr(&e))?
            .init_with_config(&cfg.credentials(), &KeyOptions::default(), cf)
            .map_err(|e| format!("init: {}", estr(&e)))?;
        Ok(())
    });
    match r {
        Ok(x) => x,
        Err(p) => Err(format!("init panicked: {p}")),
    }
}

struct Phase {
    cfg: RepoCfg,
    src_cfg: RepoCfg,
    storage: Arc<Storage>,
    tree: MNode,
    base_tree: MNode,
    src_edits: Vec<Edit>,
    clock: i64,
    tick: i64,
    keys: Vec<KeyId>,
    nkeys: u32,
    nsaved: u32,
    src: Option<(Arc<Storage>, Vec<SnapshotFile>)>,
}

impl Phase {
    fn edit(&mut self, edits: &[Edit]) {
        self.tick += 1;
        for e in edits {
            _ = apply_edit(&mut self.tree, e, self.tick);
        }
    }

    fn next_time(&mut self) -> i64 {
        self.clock += 100;
        self.clock
    }

    /// the source repository of `CopyInto`: two snapshots of states related to the main tree
    fn source(&mut self) -> Result<(Arc<Storage>, Vec<SnapshotFile>), String> {
        if let Some(s) = &self.src {
            return Ok(s.clone());
        }
        let st = Storage::new();
        init_with(&st, &self.src_cfg, false)?;
        let mut t = self.base_tree.clone();
        let mut snaps = Vec::new();
        for round in 0..2 {
            if round == 1 {
                for e in &self.src_edits {
                    _ = apply_edit(&mut t, e, 7);
                }
            }
            let repo = open_ids(&st, &self.src_cfg)?;
            snaps.push(backup_tree(
                &repo,
                &t,
                &ReadSchedule::default(),
                &force_opts(),
                snap_template(1_600_000_000 + round, "other", "", "src"),
            )?);
        }
        self.src = Some((st.clone(), snaps.clone()));
        Ok((st, snaps))
    }

    /// concrete arguments for the operation; Ok(None) = not applicable in the current state
    fn prepare(&mut self, op: &AOp) -> Result<Option<(Prep, Class)>, String> {
        let cfg = self.cfg.clone();
        Ok(Some(match op {
            AOp::Backup { edits, parent } => {
                self.edit(edits);
                let time = self.next_time();
                (
                    Prep::Backup { tree: self.tree.clone(), parent: *parent, time, cut: None, dry_run: false },
                    Class::Additive,
                )
            }
            AOp::CutBackup { edits, cut } => {
                let mut t = self.tree.clone();
                self.tick += 1;
                for e in edits {
                    _ = apply_edit(&mut t, e, self.tick);
                }
                // new content, so that the crashed run has packs to upload
                add_fresh_file(&mut t, self.tick, cfg.unit());
                let time = self.next_time();
                (
                    Prep::Backup { tree: t, parent: false, time, cut: Some(*cut), dry_run: false },
                    Class::Neutral,
                )
            }
            AOp::Forget { sel } => {
                let mut snaps = list_snaps(&self.storage, &cfg)?;
                let mut ids = Vec::new();
                for s in sel {
                    if snaps.is_empty() {
                        break;
                    }
                    ids.push(snaps.remove(pick_idx(*s, snaps.len())).id);
                }
                if ids.is_empty() {
                    return Ok(None);
                }
                (Prep::Forget { ids }, Class::Destructive)
            }
            AOp::Save { sel } => {
                let snaps = list_snaps(&self.storage, &cfg)?;
                if snaps.is_empty() {
                    return Ok(None);
                }
                let mut s = snaps[pick_idx(*sel, snaps.len())].clone();
                self.nsaved += 1;
                s.label = format!("saved-{}", self.nsaved);
                (Prep::Save { snaps: vec![s] }, Class::Additive)
            }
            AOp::Prune(p) => (Prep::Prune { opts: p.options(&cfg), deprecated: false }, Class::Destructive),
            AOp::PruneDeprecated(p) => (Prep::Prune { opts: p.options(&cfg), deprecated: true }, Class::Destructive),
            AOp::RepairIndex { read_all } => (
                Prep::RepairIndex { read_all: *read_all, dry_run: false },
                Class::Destructive,
            ),
            AOp::RepairSnapshots { delete, mask } => {
                let snaps = list_snaps(&self.storage, &cfg)?;
                if snaps.is_empty() {
                    return Ok(None);
                }
                (
                    Prep::RepairSnaps { snaps: by_mask(&snaps, *mask), delete: *delete, dry_run: false },
                    if *delete { Class::Destructive } else { Class::Additive },
                )
            }
            AOp::Rewrite(rw) => {
                let snaps = list_snaps(&self.storage, &cfg)?;
                if snaps.is_empty() {
                    return Ok(None);
                }
                let (opts, trees) = rw.options(false);
                (
                    Prep::Rewrite { snaps: by_mask(&snaps, rw.mask), opts, trees },
                    if rw.forget { Class::Destructive } else { Class::Additive },
                )
            }
            AOp::Config(ch) => (Prep::Config { opts: ch.options(&cfg) }, Class::Neutral),
            AOp::AddKey => {
                self.nkeys += 1;
                (Prep::AddKey { pass: format!("pw-{}", self.nkeys) }, Class::Additive)
            }
            AOp::DeleteKey { sel } => {
                if self.keys.is_empty() {
                    return Ok(None);
                }
                let id = self.keys.remove(pick_idx(*sel, self.keys.len()));
                (Prep::DeleteKey { id }, Class::Neutral)
            }
            AOp::CopyInto { mask } => {
                let (src, snaps) = self.source()?;
                (
                    Prep::CopyInto { src, src_cfg: self.src_cfg.clone(), snaps: by_mask(&snaps, *mask) },
                    Class::Additive,
                )
            }
            AOp::Merge { mask } => {
                let snaps = list_snaps(&self.storage, &cfg)?;
                if snaps.is_empty() {
                    return Ok(None);
                }
                let mut sel = by_mask(&snaps, *mask);
                sel.truncate(3);
                let time = self.next_time();
                (Prep::Merge { snaps: sel, time }, Class::Additive)
            }
            AOp::Damage { .. } => return Ok(None),
        }))
    }
}

fn add_fresh_file(tree: &mut MNode, tick: i64, unit: u32) {
    let len = 3 * unit.min(20_000) + 17;
    let node = MNode {
        name: format!("crash-{tick}").into_bytes(),
        kind: MKind::File {
            content: Content(vec![Piece::Rand { seed: 0xC15 ^ tick as u64, skip: 0, len }]),
        },
        perm: 0o644,
        mtime: MTime(1_500_000_000 + tick, 0),
        ctime: MTime(1_500_000_000 + tick, 0),
        uid: 0,
        gid: 0,
        inode: 8_000_000 + tick as u64,
        device: 7,
        links: 1,
    };
    if let Some(ch) = tree.children_mut() {
        ch.push(node);
    }
    tree.normalise();
}

fn op_name(op: &AOp) -> &'static str {
    match op {
        AOp::Backup { .. } => "backup",
        AOp::CutBackup { .. } => "crashed_backup",
        AOp::Forget { .. } => "delete_snapshots",
        AOp::Save { .. } => "save_snapshots",
        AOp::Prune(_) => "prune",
        AOp::PruneDeprecated(_) => "prune_deprecated_api",
        AOp::RepairIndex { .. } => "repair_index",
        AOp::RepairSnapshots { delete: true, .. } => "repair_snapshots_delete",
        AOp::RepairSnapshots { delete: false, .. } => "repair_snapshots_keep",
        AOp::Rewrite(RwCfg { forget: true, .. }) => "rewrite_forget",
        AOp::Rewrite(RwCfg { forget: false, .. }) => "rewrite_keep",
        AOp::Config(_) => "apply_config",
        AOp::AddKey => "add_key",
        AOp::DeleteKey { .. } => "delete_key",
        AOp::CopyInto { .. } => "copy_into",
        AOp::Merge { .. } => "merge",
        AOp::Damage { .. } => "pack_lost",
    }
}

fn run_ao(c: &AoCase, _ctx: &Ctx) -> Outcome {
    let mut out = Outcome::pass();
    macro_rules! fail {
        ($($arg:tt)*) => {{
            out.failure = Some(format!($($arg)*));
            return out;
        }};
    }
    let storage = Storage::new();
    if let Err(e) = init_with(&storage, &c.cfg, c.at_init) {
        // not the subject here: accepted configurations are C18's business
        return out.skip(format!("init_failed: {}", crate::engine::first_line(&e)).chars().take(60).collect::<String>());
    }
    let mut w = World {
        cfg: c.cfg.clone(),
        storage: storage.clone(),
        tree: c.tree.clone(),
        live: Vec::new(),
        clock: 1_700_000_000,
        tick: 1000,
        prunes_after_forget: 0,
        forgot_since_prune: false,
        craft_before_prune: false,
        repacked_or_marked: false,
        recovered: 0,
        vhours: 0,
    };
    if !c.at_init {
        for op in &c.pre {
            if w.step(op).is_err() {
                return out.skip("normal_mode_history_failed");
            }
        }
        if let Some(sel) = c.pre_damage {
            match lose_data_pack(&storage, &c.cfg, sel) {
                Ok(true) => {
                    if cmds::repair_index(&storage, &c.cfg, false, false).is_err() {
                        return out.skip("normal_mode_history_failed");
                    }
                    out = out.class("damaged_before_flag");
                }
                Ok(false) => {}
                Err(_) => return out.skip("normal_mode_history_failed"),
            }
        }
        let mut o = ConfigOptions::default();
        o.set_append_only = Some(true);
        if exec(&Prep::Config { opts: o }, &storage, &c.cfg).is_err() {
            return out.skip("cannot_turn_append_only_on");
        }
    }
    match stored_append_only(&storage, &c.cfg) {
        Ok(Some(true)) => {}
        Ok(other) => fail!("append-only was requested but the stored config says {other:?}"),
        Err(e) => fail!("{e}"),
    }
    out = out.class(if c.at_init { "on_at_init" } else { "on_by_apply_config" });

    let mut ph = Phase {
        cfg: c.cfg.clone(),
        src_cfg: c.src_cfg.clone(),
        storage: storage.clone(),
        tree: w.tree.clone(),
        base_tree: c.tree.clone(),
        src_edits: c.src_edits.clone(),
        clock: w.clock + 10_000,
        tick: w.tick + 1000,
        keys: Vec::new(),
        nkeys: 0,
        nsaved: 0,
        src: None,
    };
    drop(w);

    let mut destructive_after_backup = 0u64;
    let mut would_remove_total = 0u64;
    let mut refused_clean = 0u64;
    let mut additive_ok = 0u64;
    let mut executed = 0u64;
    let mut turned_off = false;

    for (i, op) in c.ops.iter().enumerate() {
        let name = op_name(op);
        if let AOp::Damage { sel } = op {
            match lose_data_pack(&storage, &c.cfg, *sel) {
                Ok(true) => out = out.class("pack_lost"),
                Ok(false) => {}
                Err(e) => fail!("op {i}: cannot decode the index: {e}"),
            }
            continue;
        }
        let have_snapshots = !storage.ids(FileType::Snapshot).is_empty();
        let (prep, class) = match ph.prepare(op) {
            Ok(Some(x)) => x,
            Ok(None) => continue,
            Err(e) => {
                // listing snapshots / building the copy source failed: nothing to judge
                out = out.class("prepare_failed");
                let _ = e;
                continue;
            }
        };
        executed += 1;
        if std::env::var_os("VP_DEBUG").is_some() {
            eprintln!("op {i} ({name}) starts");
        }

        // what the same call does to a copy of the repository in normal mode
        let mut would: Option<String> = None;
        if class == Class::Destructive {
            let fork = match normal_mode_fork(&storage, &c.cfg) {
                Ok(f) => f,
                Err(e) => return out.skip(format!("fork_failed: {}", crate::engine::first_line(&e)).chars().take(60).collect::<String>()),
            };
            let (_, fslice) = exec_logged(&prep, &fork, &c.cfg);
            would = destructive(&fslice);
            if have_snapshots {
                destructive_after_backup += 1;
            }
        }

        if std::env::var_os("VP_DEBUG").is_some() {
            eprintln!("op {i} ({name}) normal-mode run done, would remove: {would:?}");
        }
        let before = storage.files();
        let (res, slice) = exec_logged(&prep, &storage, &c.cfg);
        let after = storage.files();
        if std::env::var_os("VP_DEBUG").is_some() {
            eprintln!("op {i} ({name}) returned {:?}", res.as_ref().map(|_| ()));
        }

        // invariant, independent of what the call reported
        if let Some(v) = destructive(&slice) {
            fail!(
                "op {i} ({name}) on an append-only repository: {v}; the call returned {}",
                match &res {
                    Ok(_) => "Ok".to_string(),
                    Err(e) => format!("Err({})", crate::engine::first_line(e)),
                }
            );
        }
        if let Some(v) = lost_file(&before, &after) {
            fail!("op {i} ({name}) on an append-only repository: {v} afterwards");
        }

        if let Some(w) = &would {
            would_remove_total += 1;
            out = out.class(format!("would_remove:{name}"));
            match &res {
                Ok(_) => fail!(
                    "op {i} ({name}) returned Ok on an append-only repository although the same call in normal mode performs a {w}"
                ),
                Err(_) => {
                    if let Some(m) = first_mutation(&slice, false) {
                        fail!(
                            "op {i} ({name}) was refused on an append-only repository but touched the storage before failing: {m}"
                        );
                    }
                    refused_clean += 1;
                }
            }
        }

        if class == Class::Additive {
            match &res {
                Ok(o) => {
                    additive_ok += 1;
                    if let Some(k) = o.key {
                        ph.keys.push(k);
                    }
                }
                Err(e) => {
                    // is it append-only mode that refuses it? compare with normal mode
                    let fork = match normal_mode_fork(&storage, &c.cfg) {
                        Ok(f) => f,
                        Err(e) => return out.skip(format!("fork_failed: {}", crate::engine::first_line(&e)).chars().take(60).collect::<String>()),
                    };
                    // the failed attempt may have left files behind; the fork has them too
                    match exec(&prep, &fork, &c.cfg) {
                        Ok(_) => fail!(
                            "op {i} ({name}) only adds files and works in normal mode, but failed on the append-only repository: {}",
                            crate::engine::first_line(e)
                        ),
                        Err(_) => out = out.class(format!("fails_in_normal_mode_too:{name}")),
                    }
                }
            }
        }

        if let AOp::Config(_) = op {
            match stored_append_only(&storage, &c.cfg) {
                Ok(Some(true)) => {}
                Ok(_) => {
                    // the flag is off: the statement no longer applies, the program ends
                    turned_off = true;
                    break;
                }
                Err(e) => fail!("op {i} ({name}): {e}"),
            }
        }
    }

    out.nontrivial = destructive_after_backup >= 1;
    out.class_if(would_remove_total > 0, "some_call_would_remove")
        .class_if(turned_off, "turned_off_at_end")
        .class_if(destructive_after_backup > 0, "destructive_call_after_backup")
        .count("ops_executed", executed)
        .count("destructive_calls_after_backup", destructive_after_backup)
        .count("would_remove_in_normal_mode", would_remove_total)
        .count("refused_without_touching_storage", refused_clean)
        .count("additive_ok", additive_ok)
}

// ------------------------------------------------------------------ sub-check: dry_run

#[derive(Debug, Clone, PartialEq, Eq, Serialize, Deserialize)]
pub enum Dmg {
    None,
    /// a data pack is lost
    LosePack(u16),
    /// an index file is lost
    LoseIndex(u16),
    Both(u16, u16),
}

/// changes to the restore destination before the dry run: (kind, selector)
/// 0 extra file at the top, 1 extra directory with a file, 2 change a file's content,
/// 3 remove a file, 4 replace a file by a directory, 5 extra file inside a directory
pub type DestEdit = (u8, u16);

#[derive(Debug, Clone, PartialEq, Eq, Serialize, Deserialize)]
pub enum DryCmd {
    Backup { edits: Vec<Edit>, parent: bool },
    RepairIndex { read_all: bool, damage: Dmg },
    /// `lose_pack`: a data pack is lost and the index repaired (for real) before the dry run
    RepairSnapshots { delete: bool, lose_pack: Option<u16>, mask: u8 },
    Rewrite(RwCfg),
    /// hot/cold repository: files dropped from the hot / cold part, then both repair commands
    HotCold { drop_hot: Vec<u16>, drop_cold: Vec<u16> },
    Restore {
        snap: u16,
        delete: bool,
        verify_existing: bool,
        /// restore this snapshot for real first (None = destination starts empty)
        pre_restore: Option<u16>,
        dest_edits: Vec<DestEdit>,
    },
}

#[derive(Debug, Clone, Serialize, Deserialize)]
pub struct DryCase {
    pub cfg: RepoCfg,
    pub tree: MNode,
    pub history: Vec<HOp>,
    pub cmd: DryCmd,
}

fn dry_cmd(p: TreeParams) -> BoxedStrategy<DryCmd> {
    let dmg = prop_oneof![
        2 => Just(Dmg::None),
        3 => any::<u16>().prop_map(Dmg::LosePack),
        3 => any::<u16>().prop_map(Dmg::LoseIndex),
        2 => (any::<u16>(), any::<u16>()).prop_map(|(a, b)| Dmg::Both(a, b)),
    ];
    prop_oneof![
        3 => (prop::collection::vec(edit(p), 0..4), any::<bool>()).prop_map(|(edits, parent)| DryCmd::Backup { edits, parent }),
        3 => (any::<bool>(), dmg).prop_map(|(read_all, damage)| DryCmd::RepairIndex { read_all, damage }),
        3 => (any::<bool>(), prop::option::weighted(0.7, any::<u16>()), any::<u8>())
            .prop_map(|(delete, lose_pack, mask)| DryCmd::RepairSnapshots { delete, lose_pack, mask }),
        4 => (rw_cfg(), prop::bool::weighted(0.6)).prop_map(|(mut rw, with_trees)| {
            // mostly the variant that has tree blobs to save
            if with_trees {
                rw.trees = true;
                if rw.glob == 0 {
                    rw.glob = 1 + rw.mask % 4;
                }
            }
            DryCmd::Rewrite(rw)
        }),
        2 => (prop::collection::vec(any::<u16>(), 0..4), prop::collection::vec(any::<u16>(), 0..3))
            .prop_map(|(drop_hot, drop_cold)| DryCmd::HotCold { drop_hot, drop_cold }),
        4 => (
            any::<u16>(),
            prop::bool::weighted(0.8),
            any::<bool>(),
            prop::option::weighted(0.7, any::<u16>()),
            prop::collection::vec((0u8..6, any::<u16>()), 0..5),
        )
            .prop_map(|(snap, delete, verify_existing, pre_restore, dest_edits)| DryCmd::Restore {
                snap,
                delete,
                verify_existing,
                pre_restore,
                dest_edits,
            }),
    ]
    .boxed()
}

fn dry_strategy(_ctx: &Ctx) -> BoxedStrategy<DryCase> {
    repo_cfg()
        .prop_map(tame)
        .prop_flat_map(|cfg| {
            let p = params(&cfg);
            (
                Just(cfg),
                tree(p),
                prop::collection::vec(hop(p, true), 0..4).prop_map(|mut v| {
                    v.insert(0, HOp::Backup { edits: vec![], parent: false });
                    v
                }),
                dry_cmd(p),
            )
        })
        .prop_map(|(cfg, tree, history, cmd)| DryCase { cfg, tree, history, cmd })
        .boxed()
}

/// judge one dry-run command on a single-store repository
fn judge_dry(
    mut out: Outcome,
    what: &str,
    storage: &Arc<Storage>,
    cfg: &RepoCfg,
    prep: &Prep,
    normal: &Prep,
) -> Outcome {
    // would the same command without the flag change the repository? (non-triviality only)
    let fork = storage.fork();
    let (_, fslice) = exec_logged(normal, &fork, cfg);
    let would_write = first_mutation(&fslice, false).is_some();

    let before = storage.files();
    let (res, slice) = exec_logged(prep, storage, cfg);
    let after = storage.files();
    if let Some(m) = first_mutation(&slice, true) {
        out.failure = Some(format!(
            "{what} in dry-run mode performed a {m}; the command returned {}",
            match &res {
                Ok(_) => "Ok".to_string(),
                Err(e) => format!("Err({})", crate::engine::first_line(e)),
            }
        ));
        return out;
    }
    if before != after {
        out.failure = Some(format!("{what} in dry-run mode changed the content of the storage"));
        return out;
    }
    out.nontrivial = would_write && res.is_ok();
    out.class_if(would_write, "would_write_without_flag")
        .class_if(res.is_err(), format!("{what}:returned_err"))
        .class(what.to_string())
}

fn apply_dest_edits(dest: &Path, edits: &[DestEdit]) -> std::io::Result<u32> {
    use std::fs;
    let mut done = 0;
    for (n, (kind, sel)) in edits.iter().enumerate() {
        let listing = walk(dest)?;
        let files: Vec<&Vec<u8>> = listing
            .iter()
            .filter(|(_, e)| matches!(e.kind, FsKind::File(_)) && e.nlink == 1)
            .map(|(k, _)| k)
            .collect();
        let dirs: Vec<&Vec<u8>> = listing
            .iter()
            .filter(|(_, e)| matches!(e.kind, FsKind::Dir) && e.mode & 0o700 == 0o700)
            .map(|(k, _)| k)
            .collect();
        let path_of = |k: &Vec<u8>| dest.join(crate::model::name_os(k));
        match kind {
            0 => {
                fs::write(dest.join(format!("~extra-{n}")), b"additional file")?;
                done += 1;
            }
            1 => {
                let d = dest.join(format!("~extradir-{n}"));
                fs::create_dir_all(&d)?;
                fs::write(d.join("inner"), b"x")?;
                done += 1;
            }
            2 if !files.is_empty() => {
                let p = path_of(files[pick_idx(*sel, files.len())]);
                let mut data = fs::read(&p)?;
                if data.is_empty() {
                    data.push(1);
                } else {
                    let i = usize::from(*sel) % data.len();
                    data[i] ^= 0x55;
                }
                if fs::write(&p, data).is_ok() {
                    done += 1;
                }
            }
            3 if !files.is_empty() => {
                if fs::remove_file(path_of(files[pick_idx(*sel, files.len())])).is_ok() {
                    done += 1;
                }
            }
            4 if !files.is_empty() => {
                let p = path_of(files[pick_idx(*sel, files.len())]);
                if fs::remove_file(&p).is_ok() {
                    fs::create_dir(&p)?;
                    fs::write(p.join("inner"), b"y")?;
                    done += 1;
                }
            }
            5 if !dirs.is_empty() => {
                let p = path_of(dirs[pick_idx(*sel, dirs.len())]).join(format!("~extra-{n}"));
                if !p.exists() && fs::write(&p, b"additional file").is_ok() {
                    done += 1;
                }
            }
            _ => {}
        }
    }
    Ok(done)
}

fn run_hotcold(c: &DryCase, drop_hot: &[u16], drop_cold: &[u16], mut out: Outcome) -> Outcome {
    let log = Arc::new(OpLog::default());
    let cold = Storage::with_log(log.clone(), 0);
    let hot = Storage::with_log(log.clone(), 1);
    let cfg = &c.cfg;
    let bes = |cold: &Arc<Storage>, hot: &Arc<Storage>| {
        RepositoryBackends::new(
            Arc::new(cold.handle()) as Arc<dyn WriteBackend>,
            Some(Arc::new(hot.handle()) as Arc<dyn WriteBackend>),
        )
    };
    // build: init + two backups
    let built = guarded(|| -> Result<(), String> {
        let mut cf = cfg.config_file();
        cf.is_hot = Some(true);
        let repo = Repository::new(&repo_opts(), &bes(&cold, &hot))
            .map_err(|e| estr(&e))?
            .init_with_config(&cfg.credentials(), &KeyOptions::default(), cf)
            .map_err(|e| format!("init: {}", estr(&e)))?
            .to_indexed_ids()
            .map_err(|e| estr(&e))?;
        let mut t = c.tree.clone();
        _ = backup_tree(&repo, &t, &ReadSchedule::default(), &force_opts(), snap_template(1_700_000_000, "host", "", ""))?;
        for op in &c.history {
            if let HOp::Backup { edits, .. } = op {
                if edits.is_empty() {
                    continue;
                }
                for e in edits {
                    _ = apply_edit(&mut t, e, 1001);
                }
                _ = backup_tree(&repo, &t, &ReadSchedule::default(), &force_opts(), snap_template(1_700_000_100, "host", "", ""))?;
                break;
            }
        }
        Ok(())
    });
    match built {
        Ok(Ok(())) => {}
        _ => return out.skip("hotcold_setup_failed"),
    }
    // the two parts drift apart
    let mut dropped = 0;
    for s in drop_hot {
        let keys: Vec<(u8, Id)> = hot.files().keys().filter(|(t, _)| *t != tidx(FileType::Config)).copied().collect();
        if keys.is_empty() {
            break;
        }
        let (t, id) = keys[pick_idx(*s, keys.len())];
        if hot.del(crate::membe::tfrom(t), &id) {
            dropped += 1;
        }
    }
    for s in drop_cold {
        let keys: Vec<(u8, Id)> = cold
            .files()
            .keys()
            .filter(|(t, _)| *t == tidx(FileType::Snapshot) || *t == tidx(FileType::Index))
            .copied()
            .collect();
        if keys.is_empty() {
            break;
        }
        let (t, id) = keys[pick_idx(*s, keys.len())];
        if cold.del(crate::membe::tfrom(t), &id) {
            dropped += 1;
        }
    }
    let before = (cold.files(), hot.files());
    let pos = log.len();
    let r1 = guarded(|| {
        Repository::new(&repo_opts(), &bes(&cold, &hot))
            .map_err(|e| estr(&e))?
            .repair_hotcold_except_packs(true)
            .map_err(|e| estr(&e))
    });
    let r2 = guarded(|| {
        Repository::new(&repo_opts(), &bes(&cold, &hot))
            .map_err(|e| estr(&e))?
            .open(&cfg.credentials())
            .map_err(|e| estr(&e))?
            .repair_hotcold_packs(true)
            .map_err(|e| estr(&e))
    });
    settle(&log);
    let mut all = log.snapshot();
    let slice = all.split_off(pos.min(all.len()));
    if let Some(m) = first_mutation(&slice, true) {
        out.failure = Some(format!("repair of a hot/cold repository in dry-run mode performed a {m}"));
        return out;
    }
    if before != (cold.files(), hot.files()) {
        out.failure = Some("repair of a hot/cold repository in dry-run mode changed the content of a store".into());
        return out;
    }
    let ok1 = matches!(r1, Ok(Ok(())));
    let ok2 = matches!(r2, Ok(Ok(())));
    out.nontrivial = dropped > 0 && ok1;
    out.class("hotcold")
        .class_if(dropped > 0, "would_write_without_flag")
        .class_if(!ok1, "hotcold_except_packs:returned_err")
        .class_if(!ok2, "hotcold_packs:returned_err")
}

fn run_dry(c: &DryCase, _ctx: &Ctx) -> Outcome {
    let mut out = Outcome::pass();
    if let DryCmd::HotCold { drop_hot, drop_cold } = &c.cmd {
        return run_hotcold(c, drop_hot, drop_cold, out);
    }
    let mut w = match World::new(&c.cfg, &c.tree) {
        Ok(w) => w,
        Err(_) => return out.skip("init_failed"),
    };
    for op in &c.history {
        if w.step(op).is_err() {
            return out.skip("history_failed");
        }
    }
    let storage = w.storage.clone();
    let cfg = c.cfg.clone();
    match &c.cmd {
        DryCmd::HotCold { .. } => unreachable!(),
        DryCmd::Backup { edits, parent } => {
            let mut t = w.tree.clone();
            for e in edits {
                _ = apply_edit(&mut t, e, w.tick + 1);
            }
            let mk = |dry_run| Prep::Backup { tree: t.clone(), parent: *parent, time: w.clock + 100, cut: None, dry_run };
            judge_dry(out, "backup", &storage, &cfg, &mk(true), &mk(false))
        }
        DryCmd::RepairIndex { read_all, damage } => {
            let (pack, index) = match damage {
                Dmg::None => (None, None),
                Dmg::LosePack(p) => (Some(*p), None),
                Dmg::LoseIndex(i) => (None, Some(*i)),
                Dmg::Both(p, i) => (Some(*p), Some(*i)),
            };
            if let Some(p) = pack {
                match lose_data_pack(&storage, &cfg, p) {
                    Ok(true) => out = out.class("pack_lost"),
                    Ok(false) => {}
                    Err(_) => return out.skip("index_not_decodable"),
                }
            }
            if let Some(i) = index {
                let ids = storage.ids(FileType::Index);
                if !ids.is_empty() {
                    // index file ids are random: order by size, then content
                    let mut ids: Vec<_> = ids
                        .into_iter()
                        .map(|id| (storage.get(FileType::Index, &id).map_or(0, |d| d.len()), id))
                        .collect();
                    ids.sort();
                    let (_, id) = ids[pick_idx(i, ids.len())];
                    if storage.del(FileType::Index, &id) {
                        out = out.class("index_file_lost");
                    }
                }
            }
            let mk = |dry_run| Prep::RepairIndex { read_all: *read_all, dry_run };
            judge_dry(out, "repair_index", &storage, &cfg, &mk(true), &mk(false))
        }
        DryCmd::RepairSnapshots { delete, lose_pack, mask } => {
            if let Some(p) = lose_pack {
                match lose_data_pack(&storage, &cfg, *p) {
                    Ok(true) => {
                        if cmds::repair_index(&storage, &cfg, false, false).is_err() {
                            return out.skip("repair_index_failed");
                        }
                        out = out.class("pack_lost");
                    }
                    Ok(false) => {}
                    Err(_) => return out.skip("index_not_decodable"),
                }
            }
            let snaps = match list_snaps(&storage, &cfg) {
                Ok(s) if !s.is_empty() => s,
                Ok(_) => return out.skip("no_snapshot"),
                Err(_) => return out.skip("listing_failed"),
            };
            let sel = by_mask(&snaps, *mask);
            let mk = |dry_run| Prep::RepairSnaps { snaps: sel.clone(), delete: *delete, dry_run };
            judge_dry(out, "repair_snapshots", &storage, &cfg, &mk(true), &mk(false))
        }
        DryCmd::Rewrite(rw) => {
            let snaps = match list_snaps(&storage, &cfg) {
                Ok(s) if !s.is_empty() => s,
                Ok(_) => return out.skip("no_snapshot"),
                Err(_) => return out.skip("listing_failed"),
            };
            let sel = by_mask(&snaps, rw.mask);
            let mk = |dry_run| {
                let (opts, trees) = rw.options(dry_run);
                Prep::Rewrite { snaps: sel.clone(), opts, trees }
            };
            let what = if rw.trees { "rewrite_snapshots_and_trees" } else { "rewrite_snapshots" };
            judge_dry(out, what, &storage, &cfg, &mk(true), &mk(false))
        }
        DryCmd::Restore { snap, delete, verify_existing, pre_restore, dest_edits } => {
            let live: Vec<SnapshotFile> = w
                .live
                .iter()
                .filter(|l| !l.pending_recovery)
                .map(|l| l.snap.clone())
                .collect();
            if live.is_empty() {
                return out.skip("no_snapshot");
            }
            let marker = storage.handle().h.id;
            let repo = match open_full(&storage, &cfg) {
                Ok(r) => r,
                Err(_) => return out.skip("open_failed"),
            };
            let scratch = Scratch::new("c15");
            let dest = scratch.path().join("dest");
            if std::fs::create_dir_all(&dest).is_err() {
                return out.skip("scratch_failed");
            }
            let ropts = RestoreOptions::default()
                .delete(*delete)
                .verify_existing(*verify_existing)
                .numeric_id(true);
            if let Some(p) = pre_restore {
                let s = &live[pick_idx(*p, live.len())];
                if restore_snapshot(&repo, s, &dest, &RestoreOptions::default().numeric_id(true)).is_err() {
                    return out.skip("pre_restore_failed");
                }
                out = out.class("destination_restored_before");
            }
            let edited = match apply_dest_edits(&dest, dest_edits) {
                Ok(n) => n,
                Err(_) => return out.skip("destination_setup_failed"),
            };
            let target = &live[pick_idx(*snap, live.len())];
            let fs_before = match walk(&dest) {
                Ok(f) => f,
                Err(_) => return out.skip("destination_walk_failed"),
            };
            let before = storage.files();
            let pos = storage.log.len();
            let run = |dry_run: bool| {
                guarded(|| -> Result<(), String> {
                    let node = repo
                        .node_from_snapshot_and_path(target, "")
                        .map_err(|e| format!("root node: {}", estr(&e)))?;
                    let ls = repo
                        .ls(&node, &LsOptions::default())
                        .map_err(|e| format!("ls: {}", estr(&e)))?;
                    let d = LocalDestination::new(dest.to_str().expect("utf-8 scratch path"), true, false)
                        .map_err(|e| format!("destination: {}", estr(&e)))?;
                    _ = repo
                        .prepare_restore(&ropts, ls, &d, dry_run)
                        .map_err(|e| format!("prepare_restore returned an error: {}", estr(&e)))?;
                    Ok(())
                })
            };
            let res = run(true);
            let slice = log_since(&storage, pos, marker);
            if let Some(m) = first_mutation(&slice, true) {
                out.failure = Some(format!("prepare_restore in dry-run mode performed a {m} on the repository"));
                return out;
            }
            if before != storage.files() {
                out.failure = Some("prepare_restore in dry-run mode changed the content of the storage".into());
                return out;
            }
            let fs_after = match walk(&dest) {
                Ok(f) => f,
                Err(e) => {
                    out.failure = Some(format!("the destination cannot be walked after prepare_restore in dry-run mode: {e}"));
                    return out;
                }
            };
            if fs_before != fs_after {
                let diff = diff_fs(&fs_before, &fs_after);
                out.failure = Some(format!(
                    "prepare_restore in dry-run mode (delete: {delete}) changed the destination directory: {diff}"
                ));
                return out;
            }
            let ok = matches!(res, Ok(Ok(())));
            // would the real run have changed the destination?
            let mut would = false;
            if ok {
                _ = run(false);
                would = walk(&dest).map_or(true, |f| f != fs_before);
            }
            out.nontrivial = ok && would;
            out.class("prepare_restore")
                .class_if(would, "would_write_without_flag")
                .class_if(!ok, "prepare_restore:returned_err")
                .class_if(edited > 0, "destination_edited")
                .class_if(*delete, "restore_delete_on")
        }
    }
}

fn diff_fs(a: &BTreeMap<Vec<u8>, crate::fsutil::FsEntry>, b: &BTreeMap<Vec<u8>, crate::fsutil::FsEntry>) -> String {
    for (k, e) in a {
        match b.get(k) {
            None => return format!("{:?} was removed", crate::repo::show_path(k)),
            Some(f) if f != e => return format!("{:?} was modified", crate::repo::show_path(k)),
            _ => {}
        }
    }
    for k in b.keys() {
        if !a.contains_key(k) {
            return format!("{:?} was created", crate::repo::show_path(k));
        }
    }
    "no difference".into()
}

pub fn spec() -> PropSpec {
    PropSpec {
        id: "C15",
        level: "exploration",
        rule: "append_only: proptest programs of 1–10 operations {backup, crashed backup (handle dies after 0–9 writes), delete_snapshots, save_snapshots, prune_plan+prune (generated options; also through the deprecated PruneOptions::get_plan + PrunePlan::do_prune), repair_index (read_all on/off), repair_snapshots (delete on/off, snapshot subset), rewrite_snapshots / rewrite_snapshots_and_trees (forget on/off, excludes, label/tag changes), apply_config (generated accepted options incl. append-only off = end of program), add_key, delete_key, copy into from a second repository, merge_snapshots, loss of a data pack} on a repository with a generated configuration whose append-only flag is set at init (30 %) or by apply_config after a generated normal-mode history (backups, forgets, prunes, crashed and duplicate backups). Every destructive call is also run on a normal-mode copy to learn whether it would remove or replace a snapshot/index/pack file. Non-trivial = at least one destructive call (delete_snapshots, prune, repair_index, repair_snapshots with delete, rewrite with forget) executed while the flag is on and at least one snapshot exists. dry_run: generated history (1–4 operations incl. crafted states) x one command {backup, repair_index (nothing / pack / index file / both lost), repair_snapshots (undamaged or pack lost + index repaired), rewrite_snapshots[_and_trees], repair_hotcold_except_packs + repair_hotcold_packs on a hot/cold pair with files dropped from either part, prepare_restore (delete on/off, verify-existing, destination empty or restored from some snapshot and then edited: extra files/dirs, changed/removed files, file replaced by directory)} with the dry-run flag. Non-trivial = the command returned Ok and the same command without the flag does write (repository or, for prepare_restore, destination). Distinct by hash of the case.",
        assumptions: vec![
            "append-only mode is judged on handles opened after the flag was stored; a handle that was opened earlier and still holds the old config is not covered",
            "key files and the config file are not among the protected file types of the statement; delete_key / apply_config are executed and only checked against the snapshot/index/pack invariant",
            "repair_hotcold_* and init_hot are not part of the append-only programs (they only copy files); hot/cold repair is covered in the dry-run sub-check",
            "a call that fails in append-only mode and in normal mode alike is not attributed to append-only mode",
            "cache directory writes are out of reach: every handle uses no_cache",
        ],
        subs: vec![
            Box::new(Sub {
                name: "append_only",
                cases_quick: 1600,
                cases_thorough: 48_000,
                max_shrink_iters: 300,
                strategy: ao_strategy,
                run: run_ao,
            }) as Box<dyn DynSub>,
            Box::new(Sub {
                name: "dry_run",
                cases_quick: 1200,
                cases_thorough: 36_000,
                max_shrink_iters: 300,
                strategy: dry_strategy,
                run: run_dry,
            }),
        ],
        extra: None,
    }
}
