//! C14 — Restore yields exactly the snapshot and never writes outside the target.
//!
//! Sub-check `existing`: (repository configuration, source tree, pre-existing destination derived
//! from the snapshot by a generated mutation list + unrelated extra entries, restore options).
//! The destination lives at `S/a/b/dest` inside a per-case sandbox `S` whose other entries are
//! sentinels. Oracle: the model of the snapshot (per path: type / bytes / link target / mode /
//! mtime / owner), the on-disk state of the destination *before* the restore (for the premise of
//! the statement and for the extra entries), and the state of everything in `S` outside `dest`.
//!
//! Sub-check `hostile`: trees whose node names are `..`, `../x`, `../../x`, an absolute path into
//! the sandbox, `a/b`, `.`, the empty string, a name with NUL. Oracle: nothing in `S` outside
//! `dest` is created, modified or removed (an error or panic of the restore is acceptable).

use std::{
    collections::{BTreeMap, BTreeSet},
    ffi::OsStr,
    fs,
    os::unix::{ffi::OsStrExt, fs::MetadataExt},
    path::{Path, PathBuf},
    sync::Arc,
};

use proptest::prelude::*;
use rustic_core::{
    IndexedFull, LocalDestination, LsOptions, Repository, RestoreOptions,
    repofile::{Metadata, Node, NodeType, SnapshotFile},
};
use serde::{Deserialize, Serialize};

use crate::{
    engine::{Ctx, DynSub, Outcome, PropSpec, Sub, guarded, pick_idx},
    fsutil::{FsEntry, FsKind, Scratch, walk},
    r#gen::{TreeParams, content, leaf, mtime, name, node_at_mut, paths_where, perm, piece, tree},
    membe::Storage,
    model::{
        Content, Flat, FlatEntry, FlatKind, MKind, MNode, MTime, MemSource, Piece, ReadSchedule,
        flatten, name_os,
    },
    repo::{
        RepoCfg, RepoFull, backup_tree, estr, force_opts, init_repo, open_full, read_snapshot,
        repo_cfg, show_path, snap_template,
    },
};

use super::c01::is_root;

// ---------------------------------------------------------------------------------------------
// shared: options, sandbox, outside-state
// ---------------------------------------------------------------------------------------------

#[derive(Debug, Clone, Copy, PartialEq, Eq, Serialize, Deserialize)]
pub struct Opts {
    pub delete: bool,
    pub verify_existing: bool,
    pub sparse: bool,
    pub no_ownership: bool,
    pub numeric_id: bool,
}

impl Opts {
    fn restore_options(&self, root: bool) -> RestoreOptions {
        let mut o = RestoreOptions::default()
            .delete(self.delete)
            .verify_existing(self.verify_existing)
            .numeric_id(self.numeric_id)
            // an unprivileged process cannot chown: ownership is then out of scope
            .no_ownership(self.no_ownership || !root);
        if self.sparse {
            // the option type is not nameable, but the field is public and deserialisable
            o.sparse = serde_json::from_str("\"ByContent\"").ok();
        }
        o
    }
}

fn opts_strategy() -> impl Strategy<Value = Opts> {
    (
        any::<bool>(),
        any::<bool>(),
        prop::bool::weighted(0.3),
        prop::bool::weighted(0.3),
        any::<bool>(),
    )
        .prop_map(|(delete, verify_existing, sparse, no_ownership, numeric_id)| Opts {
            delete,
            verify_existing,
            sparse,
            no_ownership,
            numeric_id,
        })
}

const DEST_REL: &str = "a/b/dest";
/// the sandbox `S` sits three directory levels below the scratch root, and everything between is
/// watched too: a restore that climbs out of `S` itself (nested `..` names) is still seen
const GUARD_REL: &str = "g1/g2/g3";
const DEST_FROM_ROOT: &str = "g1/g2/g3/a/b/dest";
const OLD: i64 = 1_234_567_890;

fn set_mtime(p: &Path, t: MTime) -> std::io::Result<()> {
    let ft = filetime::FileTime::from_unix_time(t.0, t.1);
    filetime::set_symlink_file_times(p, ft, ft)
}

/// Build the sandbox: `S/a/b/dest` (empty) and sentinels everywhere else. Returns the destination.
fn make_sandbox(s: &Path) -> std::io::Result<PathBuf> {
    let dest = s.join(DEST_REL);
    fs::create_dir_all(&dest)?;
    fs::create_dir_all(s.join("a/b/sib"))?;
    fs::create_dir_all(s.join("abs-target"))?;
    fs::create_dir_all(s.join("outside-dir"))?;
    let files: [(&str, &[u8]); 8] = [
        ("sentinel.txt", b"sentinel at the sandbox root"),
        ("x", b"sentinel S/x"),
        ("a/x", b"sentinel S/a/x"),
        ("a/side.txt", b"sentinel next to b"),
        ("a/b/x", b"sentinel S/a/b/x"),
        ("a/b/sib/inner.txt", b"sentinel in the sibling of dest"),
        ("abs-target/keep", b"sentinel in the absolute target"),
        ("outside-dir/file", b"sentinel in a directory that extra symlinks point to"),
    ];
    for (rel, bytes) in files {
        fs::write(s.join(rel), bytes)?;
    }
    std::os::unix::fs::symlink("sentinel.txt", s.join("link"))?;
    // fixed old times, children before parents
    let mut all: Vec<PathBuf> = walk(s)?
        .keys()
        .map(|k| s.join(OsStr::from_bytes(k)))
        .collect();
    all.sort();
    for p in all.iter().rev() {
        set_mtime(p, MTime(OLD, 5))?;
    }
    Ok(dest)
}

#[derive(Debug, Clone, PartialEq, Eq)]
struct OutEntry {
    e: FsEntry,
    ctime: (i64, i64),
}

fn under_dest(k: &[u8]) -> bool {
    k == DEST_FROM_ROOT.as_bytes()
        || (k.len() > DEST_FROM_ROOT.len() && k.starts_with(DEST_FROM_ROOT.as_bytes()) && k[DEST_FROM_ROOT.len()] == b'/')
}

/// everything below the scratch root that is not the destination (or below it), with ctime
fn outside_state(s: &Path) -> std::io::Result<BTreeMap<Vec<u8>, OutEntry>> {
    let mut out = BTreeMap::new();
    // the sandbox directory itself
    let md = fs::symlink_metadata(s)?;
    _ = out.insert(
        b".".to_vec(),
        OutEntry {
            e: FsEntry {
                kind: FsKind::Dir,
                mode: md.mode() & 0o7777,
                mtime: (md.mtime(), md.mtime_nsec() as u32),
                ino: md.ino(),
                nlink: md.nlink(),
                uid: md.uid(),
                gid: md.gid(),
                size: 0,
            },
            ctime: (md.ctime(), md.ctime_nsec()),
        },
    );
    for (k, e) in walk(s)? {
        if under_dest(&k) {
            continue;
        }
        let md = fs::symlink_metadata(s.join(OsStr::from_bytes(&k)))?;
        _ = out.insert(
            k,
            OutEntry {
                e,
                ctime: (md.ctime(), md.ctime_nsec()),
            },
        );
    }
    Ok(out)
}

fn kind_name(k: &FsKind) -> &'static str {
    match k {
        FsKind::Dir => "dir",
        FsKind::File(_) => "file",
        FsKind::Symlink(_) => "symlink",
        FsKind::Other => "other",
    }
}

fn describe_change(a: &FsEntry, b: &FsEntry) -> String {
    let mut what = Vec::new();
    if kind_name(&a.kind) != kind_name(&b.kind) {
        what.push(format!("type {} -> {}", kind_name(&a.kind), kind_name(&b.kind)));
    } else if a.kind != b.kind {
        what.push("content/target".to_string());
    }
    if a.mode != b.mode {
        what.push(format!("mode {:#o} -> {:#o}", a.mode, b.mode));
    }
    if a.mtime != b.mtime {
        what.push(format!("mtime {:?} -> {:?}", a.mtime, b.mtime));
    }
    if (a.uid, a.gid) != (b.uid, b.gid) {
        what.push(format!("owner {}:{} -> {}:{}", a.uid, a.gid, b.uid, b.gid));
    }
    if a.ino != b.ino {
        what.push("inode (replaced)".to_string());
    }
    if a.nlink != b.nlink {
        what.push(format!("link count {} -> {}", a.nlink, b.nlink));
    }
    if what.is_empty() {
        what.push("ctime only (metadata rewritten)".to_string());
    }
    what.join(", ")
}

/// None = nothing outside the destination changed
fn outside_diff(
    before: &BTreeMap<Vec<u8>, OutEntry>,
    after: &BTreeMap<Vec<u8>, OutEntry>,
) -> Option<String> {
    let mut msgs = Vec::new();
    for (k, a) in after {
        match before.get(k) {
            None => msgs.push(format!("created {} {:?}", kind_name(&a.e.kind), show_path(k))),
            Some(b) if b != a => {
                msgs.push(format!("modified {:?} ({})", show_path(k), describe_change(&b.e, &a.e)));
            }
            _ => {}
        }
    }
    for k in before.keys() {
        if !after.contains_key(k) {
            msgs.push(format!("removed {:?}", show_path(k)));
        }
    }
    if msgs.is_empty() {
        None
    } else {
        let n = msgs.len();
        msgs.truncate(5);
        Some(format!("{n} change(s) outside the destination: {}", msgs.join("; ")))
    }
}

/// keys whose finding the operator asked to treat as known while debugging (never set by `run`)
fn assumed_known(key: &str) -> bool {
    std::env::var("VP_ASSUME_KNOWN")
        .map(|v| v.split(',').any(|k| k.trim() == key))
        .unwrap_or(false)
}

/// choose the key to report: the first one that is listed as known, else the first one
fn choose_key(ctx: &Ctx, keys: &[&'static str]) -> Option<&'static str> {
    keys.iter()
        .copied()
        .find(|k| ctx.is_known(k))
        .or_else(|| keys.first().copied())
}

fn finish(mut out: Outcome, ctx: &Ctx, keys: &[&'static str]) -> Outcome {
    if let (Some(f), false) = (&mut out.failure, keys.is_empty()) {
        f.push_str(&format!(" [case matches the input-side predicate(s): {}]", keys.join(", ")));
    }
    if let Some(k) = choose_key(ctx, keys) {
        out = out.known(k);
    }
    if !ctx.strict {
        if let Some(k) = keys.iter().find(|k| assumed_known(k)) {
            out = out.skip(format!("assumed-known:{k}"));
        }
    }
    out
}

/// restore the node at `node_path` of the snapshot ("" = the whole snapshot) into `dest`
fn restore_at<S: IndexedFull>(
    repo: &Repository<S>,
    snap: &SnapshotFile,
    node_path: &str,
    dest: &Path,
    opts: &RestoreOptions,
) -> Result<(), String> {
    let r = guarded(|| -> Result<(), String> {
        let node = repo
            .node_from_snapshot_and_path(snap, node_path)
            .map_err(|e| format!("node {node_path:?}: {}", estr(&e)))?;
        let ls = repo
            .ls(&node, &LsOptions::default())
            .map_err(|e| format!("ls: {}", estr(&e)))?;
        let dest = LocalDestination::new(dest.to_str().expect("utf-8 scratch path"), true, false)
            .map_err(|e| format!("destination: {}", estr(&e)))?;
        let plan = repo
            .prepare_restore(opts, ls.clone(), &dest, false)
            .map_err(|e| format!("prepare_restore returned an error: {}", estr(&e)))?;
        repo.restore(plan, opts, ls, &dest)
            .map_err(|e| format!("restore returned an error: {}", estr(&e)))
    });
    match r {
        Ok(x) => x,
        Err(p) => Err(format!("restore panicked: {p}")),
    }
}

// ---------------------------------------------------------------------------------------------
// sub-check "existing"
// ---------------------------------------------------------------------------------------------

#[derive(Debug, Clone, Copy, PartialEq, Eq, Serialize, Deserialize)]
pub enum Base {
    /// the destination starts as an exact earlier restore of the snapshot (incl. mtimes)
    Identical,
    /// the destination starts empty
    Empty,
    /// same content, every mtime one hour older
    Older,
}

#[derive(Debug, Clone, PartialEq, Eq, Serialize, Deserialize)]
pub enum Mutn {
    Absent,
    Touch(MTime),
    /// same-size overwrite at a generated offset; `None` keeps the snapshot's mtime
    Corrupt { at: u16, with: Piece, mtime: Option<MTime> },
    Truncate { keep: u16, mtime: Option<MTime> },
    Extend { tail: Content, mtime: Option<MTime> },
    /// replace the entry (and everything below it) by this node, keeping the name
    Retype(MNode),
    Chmod(u32),
    /// symlink with another target of the same / a different length
    Retarget { same_len: bool, mtime: Option<MTime> },
}

#[derive(Debug, Clone, PartialEq, Eq, Serialize, Deserialize)]
pub struct Mutation {
    pub sel: u16,
    pub m: Mutn,
}

#[derive(Debug, Clone, Serialize, Deserialize)]
pub struct ExCase {
    pub cfg: RepoCfg,
    pub tree: MNode,
    /// restore a sub-directory of the snapshot instead of its root (selector over directories)
    pub sub: Option<u16>,
    pub base: Base,
    pub muts: Vec<Mutation>,
    /// unrelated entries: (directory selector, node)
    pub extras: Vec<(u16, MNode)>,
    pub opts: Opts,
    /// every destination directory `d` that has a sibling named `d` + a byte below `/` gets one
    /// more unrelated file whose name sorts after everything else in it
    #[serde(default)]
    pub tail_extra: bool,
}

/// suffixes that make `name + suffix` sort before `name/x` bytewise but after it by component
const PREFIX_SUFFIXES: [&[u8]; 8] = [b".txt", b"-bar", b" ", b"!", b".", b"+1", b",", b"#x"];
const TAIL_NAME: &[u8] = b"\xff\xff\xffz-last";

fn small_dir(p: TreeParams) -> BoxedStrategy<MNode> {
    (name(), prop::collection::vec(leaf(p), 0..3), perm(), mtime())
        .prop_map(|(n, children, pe, mt)| {
            let mut d = MNode {
                name: n,
                kind: MKind::Dir { children },
                perm: pe | 0o700,
                mtime: mt,
                ctime: mt,
                uid: 0,
                gid: 0,
                inode: 0,
                device: 7,
                links: 1,
            };
            d.normalise();
            d
        })
        .boxed()
}

fn outside_link() -> BoxedStrategy<MNode> {
    (
        name(),
        prop::sample::select(vec![
            b"../../../sentinel.txt".to_vec(),
            b"../../../../sentinel.txt".to_vec(),
            b"../../../outside-dir".to_vec(),
            b"../../../../outside-dir".to_vec(),
            b"../../sib".to_vec(),
            b"../../../a/b/sib/inner.txt".to_vec(),
            b"/etc/passwd".to_vec(),
            b"../../../does-not-exist".to_vec(),
            b"..".to_vec(),
        ]),
        mtime(),
    )
        .prop_map(|(n, target, mt)| MNode {
            name: n,
            kind: MKind::Symlink { target },
            perm: 0o777,
            mtime: mt,
            ctime: mt,
            uid: 0,
            gid: 0,
            inode: 0,
            device: 7,
            links: 1,
        })
        .boxed()
}

fn replacement(p: TreeParams) -> BoxedStrategy<MNode> {
    prop_oneof![4 => leaf(p), 2 => small_dir(p), 1 => outside_link()].boxed()
}

fn opt_mtime() -> BoxedStrategy<Option<MTime>> {
    prop_oneof![2 => mtime().prop_map(Some), 1 => Just(None)].boxed()
}

fn mutation(p: TreeParams) -> BoxedStrategy<Mutation> {
    let small = TreeParams {
        file_cap: p.file_cap.min(p.unit.saturating_mul(4).max(64)),
        ..p
    };
    let m = prop_oneof![
        2 => Just(Mutn::Absent),
        2 => mtime().prop_map(Mutn::Touch),
        5 => (any::<u16>(), piece(p.unit.saturating_mul(2).clamp(1, 100_000)), opt_mtime())
            .prop_map(|(at, with, mtime)| Mutn::Corrupt { at, with, mtime }),
        2 => (any::<u16>(), opt_mtime()).prop_map(|(keep, mtime)| Mutn::Truncate { keep, mtime }),
        2 => (content(p.unit / 4 + 1, p.unit.clamp(16, 100_000)), opt_mtime())
            .prop_map(|(tail, mtime)| Mutn::Extend { tail, mtime }),
        5 => replacement(small).prop_map(Mutn::Retype),
        1 => perm().prop_map(Mutn::Chmod),
        2 => (any::<bool>(), opt_mtime()).prop_map(|(same_len, mtime)| Mutn::Retarget { same_len, mtime }),
    ];
    (any::<u16>(), m).prop_map(|(sel, m)| Mutation { sel, m }).boxed()
}

/// a file with an all-zero stretch of several chunks between random data (sparse restore)
fn zero_file(unit: u32) -> BoxedStrategy<MNode> {
    let unit = unit.clamp(1, 60_000);
    (
        any::<u64>(),
        0..=unit * 2,
        unit..=unit * 6,
        0..=unit * 2,
        mtime(),
        perm(),
    )
        .prop_map(|(seed, a, z, b, mt, pe)| MNode {
            name: b"zz-holes".to_vec(),
            kind: MKind::File {
                content: Content(vec![
                    Piece::Rand { seed, skip: 0, len: a },
                    Piece::Zeros { len: z },
                    Piece::Rand { seed: seed ^ 0x55, skip: 0, len: b },
                ]),
            },
            perm: pe,
            mtime: mt,
            ctime: mt,
            uid: 0,
            gid: 0,
            inode: 9_000_001,
            device: 7,
            links: 1,
        })
        .boxed()
}

fn ex_strategy(ctx: &Ctx) -> BoxedStrategy<ExCase> {
    let thorough = ctx.tier.is_thorough();
    prop_oneof![3 => repo_cfg(), 1 => Just(RepoCfg::simple())]
        .prop_flat_map(move |cfg| {
            let p = TreeParams {
                unit: cfg.unit(),
                file_cap: if thorough { 1 << 20 } else { 150_000 },
                max_children: if thorough { 4 } else { 3 },
                depth: if thorough { 4 } else { 3 },
            };
            (
                Just(cfg),
                tree(p),
                prop::option::weighted(0.35, zero_file(p.unit)),
                prop::bool::weighted(0.35),
                prop::option::weighted(0.25, any::<u16>()),
                prop_oneof![6 => Just(Base::Identical), 1 => Just(Base::Empty), 2 => Just(Base::Older)],
                prop::collection::vec(mutation(p), 0..8),
                prop::collection::vec(
                    (
                        any::<u16>(),
                        prop_oneof![3 => leaf(TreeParams { file_cap: 5000, ..p }), 2 => small_dir(TreeParams { file_cap: 5000, ..p }), 2 => outside_link()],
                    ),
                    0..4,
                ),
                opts_strategy(),
                prop::option::weighted(0.35, (any::<u16>(), 0usize..PREFIX_SUFFIXES.len(), prop::bool::weighted(0.7))),
            )
        })
        .prop_map(|(cfg, mut tree, zf, keep_hardlinks, sub, base, muts, extras, opts, prefix)| {
            let mut tail_extra = false;
            if let Some((sel, suffix, tail)) = prefix {
                // a directory and a sibling whose name is the directory's name plus a byte below '/'
                let dirs: Vec<Vec<usize>> = paths_where(&tree, &|n| n.is_dir())
                    .into_iter()
                    .filter(|p| !p.is_empty() && crate::r#gen::node_at(&tree, &p[..p.len() - 1]).children().len() > 1)
                    .collect();
                if !dirs.is_empty() {
                    let dp = dirs[pick_idx(sel, dirs.len())].clone();
                    let (parent, i) = (dp[..dp.len() - 1].to_vec(), dp[dp.len() - 1]);
                    let dname = crate::r#gen::node_at(&tree, &dp).name.clone();
                    let par = node_at_mut(&mut tree, &parent);
                    let n = par.children().len();
                    let j = (i + 1) % n;
                    let new_name = [&dname[..], PREFIX_SUFFIXES[suffix]].concat();
                    if new_name.len() < 250 && !par.children().iter().any(|c| c.name == new_name) && par.children()[j].links <= 1 {
                        par.children_mut().expect("dir")[j].name = new_name;
                        tree.normalise();
                        tail_extra = tail;
                    }
                }
            }
            if !keep_hardlinks {
                // most cases: no hardlink groups, so that the search is not dominated by them
                fn dissolve(n: &mut MNode, next: &mut u64) {
                    if n.links > 1 {
                        n.links = 1;
                        n.inode = *next;
                        *next += 1;
                    }
                    if let Some(ch) = n.children_mut() {
                        for c in ch {
                            dissolve(c, next);
                        }
                    }
                }
                dissolve(&mut tree, &mut 8_000_000);
            }
            if let (Some(z), Some(ch)) = (zf, tree.children_mut()) {
                if !ch.iter().any(|c| c.name == z.name) {
                    ch.push(z);
                }
                tree.normalise();
            }
            ExCase {
                cfg,
                tree,
                sub,
                base,
                muts,
                extras,
                opts,
                tail_extra,
            }
        })
        .boxed()
}

fn path_of(root: &MNode, idx: &[usize]) -> Vec<u8> {
    // path of the node below `root` (root's own name excluded)
    let mut n = root;
    let mut out = Vec::new();
    for i in idx {
        n = &n.children()[*i];
        if !out.is_empty() {
            out.push(b'/');
        }
        out.extend_from_slice(&n.name);
    }
    out
}

fn detach(n: &mut MNode) {
    n.links = 1;
    n.inode = 0;
}

/// The pre-existing destination as a model tree (a nameless root directory) derived from the
/// top-level nodes that the restore will produce.
fn build_dest_model(top: &[MNode], c: &ExCase) -> MNode {
    let mut d = MNode {
        name: Vec::new(),
        kind: MKind::Dir {
            children: match c.base {
                Base::Empty => Vec::new(),
                _ => top.to_vec(),
            },
        },
        perm: 0o755,
        mtime: MTime(OLD, 0),
        ctime: MTime(OLD, 0),
        uid: 0,
        gid: 0,
        inode: 0,
        device: 0,
        links: 1,
    };
    if c.base == Base::Older {
        fn age(n: &mut MNode) {
            n.mtime = MTime(n.mtime.0 - 3600, n.mtime.1);
            if let Some(ch) = n.children_mut() {
                ch.iter_mut().for_each(age);
            }
        }
        if let Some(ch) = d.children_mut() {
            ch.iter_mut().for_each(age);
        }
    }
    for mu in &c.muts {
        let want_file = matches!(mu.m, Mutn::Corrupt { .. } | Mutn::Truncate { .. } | Mutn::Extend { .. });
        let want_link = matches!(mu.m, Mutn::Retarget { .. });
        let mut cands = paths_where(&d, &|n| {
            if want_file {
                n.is_file()
            } else if want_link {
                matches!(n.kind, MKind::Symlink { .. })
            } else {
                true
            }
        });
        cands.retain(|p| !p.is_empty());
        if cands.is_empty() {
            continue;
        }
        let at = cands[pick_idx(mu.sel, cands.len())].clone();
        match &mu.m {
            Mutn::Absent => {
                let (parent, i) = (&at[..at.len() - 1], at[at.len() - 1]);
                _ = node_at_mut(&mut d, parent).children_mut().expect("dir").remove(i);
            }
            Mutn::Touch(t) => {
                let n = node_at_mut(&mut d, &at);
                n.mtime = *t;
                if n.is_file() {
                    detach(n);
                }
            }
            Mutn::Chmod(pe) => {
                let n = node_at_mut(&mut d, &at);
                n.perm = if n.is_dir() { *pe | 0o700 } else { *pe };
                if n.is_file() {
                    detach(n);
                }
            }
            Mutn::Corrupt { at: off, with, mtime } => {
                let n = node_at_mut(&mut d, &at);
                if let MKind::File { content } = &mut n.kind {
                    let with = if with.len() == 0 { Piece::Lit(vec![0xAA]) } else { with.clone() };
                    let o = pick_idx(*off, content.len().max(1));
                    *content = content.overwrite(o, Content(vec![with]));
                }
                if let Some(t) = mtime {
                    n.mtime = *t;
                }
                detach(n);
            }
            Mutn::Truncate { keep, mtime } => {
                let n = node_at_mut(&mut d, &at);
                if let MKind::File { content } = &mut n.kind {
                    let k = pick_idx(*keep, content.len());
                    *content = content.slice(0, k);
                }
                if let Some(t) = mtime {
                    n.mtime = *t;
                }
                detach(n);
            }
            Mutn::Extend { tail, mtime } => {
                let n = node_at_mut(&mut d, &at);
                if let MKind::File { content } = &mut n.kind {
                    let tail = if tail.len() == 0 { Content::lit(vec![b'+']) } else { tail.clone() };
                    *content = content.clone().concat(tail);
                }
                if let Some(t) = mtime {
                    n.mtime = *t;
                }
                detach(n);
            }
            Mutn::Retype(new) => {
                let n = node_at_mut(&mut d, &at);
                let mut new = new.clone();
                new.name = n.name.clone();
                detach(&mut new);
                *n = new;
            }
            Mutn::Retarget { same_len, mtime } => {
                let n = node_at_mut(&mut d, &at);
                if let MKind::Symlink { target } = &mut n.kind {
                    if *same_len {
                        let l = target.len() - 1;
                        target[l] = if target[l] == b'q' { b'r' } else { b'q' };
                    } else {
                        target.push(b'q');
                    }
                }
                if let Some(t) = mtime {
                    n.mtime = *t;
                }
            }
        }
    }
    for (sel, extra) in &c.extras {
        let dirs = paths_where(&d, &|n| n.is_dir());
        let at = dirs[pick_idx(*sel, dirs.len())].clone();
        let dir = node_at_mut(&mut d, &at);
        if dir.children().iter().any(|x| x.name == extra.name) {
            continue;
        }
        let mut e = extra.clone();
        fn det(n: &mut MNode) {
            detach(n);
            if let Some(ch) = n.children_mut() {
                ch.iter_mut().for_each(det);
            }
        }
        det(&mut e);
        dir.children_mut().expect("dir").push(e);
    }
    if c.tail_extra {
        fn add_tails(n: &mut MNode) {
            let names: Vec<Vec<u8>> = n.children().iter().map(|c| c.name.clone()).collect();
            if let Some(ch) = n.children_mut() {
                for c in ch.iter_mut() {
                    let prefixed = names
                        .iter()
                        .any(|o| o.len() > c.name.len() && o.starts_with(&c.name) && o[c.name.len()] < b'/');
                    if c.is_dir() && prefixed && !c.children().iter().any(|x| x.name == TAIL_NAME) {
                        c.children_mut().expect("dir").push(MNode {
                            name: TAIL_NAME.to_vec(),
                            kind: MKind::File { content: Content::lit(b"unrelated".to_vec()) },
                            perm: 0o644,
                            mtime: MTime(OLD, 0),
                            ctime: MTime(OLD, 0),
                            uid: 0,
                            gid: 0,
                            inode: 0,
                            device: 0,
                            links: 1,
                        });
                    }
                    add_tails(c);
                }
            }
        }
        add_tails(&mut d);
    }
    d
}

/// write the model tree below `dir` (which exists)
fn materialise(
    n: &MNode,
    dir: &Path,
    root: bool,
    links: &mut BTreeMap<(u64, u64), PathBuf>,
) -> std::io::Result<()> {
    use std::os::unix::fs::PermissionsExt;
    for c in n.children() {
        let p = dir.join(name_os(&c.name));
        match &c.kind {
            MKind::File { content } => {
                let key = (c.device, c.inode);
                if c.links > 1 && c.inode != 0 {
                    if let Some(first) = links.get(&key) {
                        fs::hard_link(first, &p)?;
                        continue;
                    }
                    _ = links.insert(key, p.clone());
                }
                fs::write(&p, content.bytes())?;
            }
            MKind::Dir { .. } => {
                fs::create_dir(&p)?;
                materialise(c, &p, root, links)?;
            }
            MKind::Symlink { target } => {
                std::os::unix::fs::symlink(name_os(target), &p)?;
            }
        }
        if root {
            std::os::unix::fs::lchown(&p, Some(c.uid), Some(c.gid))?;
        }
        if !matches!(c.kind, MKind::Symlink { .. }) {
            let mut perm = c.perm & 0o7777;
            if !root {
                // an unprivileged restore must at least be able to read / enter what is there
                perm |= if c.is_dir() { 0o700 } else { 0o600 };
            }
            fs::set_permissions(&p, fs::Permissions::from_mode(perm))?;
        }
        set_mtime(&p, c.mtime)?;
    }
    Ok(())
}

fn flatten_top(top: &[MNode]) -> Flat {
    let mut m = Flat::new();
    for t in top {
        m.extend(flatten(t));
    }
    m
}

fn fs_kind_matches(m: &FlatKind, f: &FsKind) -> bool {
    matches!(
        (m, f),
        (FlatKind::Dir, FsKind::Dir) | (FlatKind::File(_), FsKind::File(_)) | (FlatKind::Symlink(_), FsKind::Symlink(_))
    )
}

fn parent_of(k: &[u8]) -> Option<&[u8]> {
    k.iter().rposition(|b| *b == b'/').map(|i| &k[..i])
}

/// hardlink group members after the first one in stream (pre-) order
fn later_hardlink_members(top: &[MNode]) -> Vec<Vec<u8>> {
    fn rec(n: &MNode, prefix: &[u8], seen: &mut BTreeSet<(u64, u64)>, out: &mut Vec<Vec<u8>>) {
        let mut path = prefix.to_vec();
        if !path.is_empty() {
            path.push(b'/');
        }
        path.extend_from_slice(&n.name);
        if n.is_file() && n.links > 1 && n.device != 0 && n.inode != 0 && !seen.insert((n.device, n.inode)) {
            out.push(path.clone());
        }
        for c in n.children() {
            rec(c, &path, seen, out);
        }
    }
    let mut seen = BTreeSet::new();
    let mut out = Vec::new();
    for t in top {
        rec(t, b"", &mut seen, &mut out);
    }
    out
}

/// is the content of this snapshot path within the premise of the statement?
/// (not: same size, same mtime, other bytes, verification off)
fn content_judged(m: &FlatEntry, pre: Option<&FsEntry>, verify: bool) -> bool {
    let Some(p) = pre else { return true };
    if verify || p.mtime != (m.mtime.0, m.mtime.1) {
        return true;
    }
    match (&m.kind, &p.kind) {
        (FlatKind::File(want), FsKind::File(have)) => want.len() != have.len() || want[..] == have[..],
        (FlatKind::Symlink(want), FsKind::Symlink(have)) => want.len() != have.len() || want == have,
        _ => true,
    }
}

struct ExFacts {
    keys: Vec<&'static str>,
    type_conflict: bool,
    same_size_changed: u64,
    truncated: u64,
    longer: u64,
    identical: u64,
    absent: u64,
    unjudged: u64,
    free_extras: Vec<Vec<u8>>,
}

fn free_extras(m: &Flat, pre: &BTreeMap<Vec<u8>, FsEntry>) -> Vec<Vec<u8>> {
    pre.keys()
        .filter(|k| !m.contains_key(*k))
        .filter(|k| {
            let mut cur: &[u8] = k;
            while let Some(p) = parent_of(cur) {
                if let Some(me) = m.get(p) {
                    if me.kind != FlatKind::Dir {
                        return false;
                    }
                }
                cur = p;
            }
            true
        })
        .cloned()
        .collect()
}

fn ex_facts(top: &[MNode], m: &Flat, pre: &BTreeMap<Vec<u8>, FsEntry>, o: &Opts) -> ExFacts {
    let mut f = ExFacts {
        keys: Vec::new(),
        type_conflict: false,
        same_size_changed: 0,
        truncated: 0,
        longer: 0,
        identical: 0,
        absent: 0,
        unjudged: 0,
        free_extras: free_extras(m, pre),
    };
    let mut link_differs = false;
    let mut sparse_stale = false;
    let mut nondir_at_leafy_dir = false;
    for (k, me) in m {
        let Some(p) = pre.get(k) else {
            f.absent += 1;
            continue;
        };
        if !fs_kind_matches(&me.kind, &p.kind) {
            f.type_conflict = true;
            if me.kind == FlatKind::Dir {
                // will anything below it force the directory into existence?
                let mut prefix = k.clone();
                prefix.push(b'/');
                let has_creating_child = m
                    .range(prefix.clone()..)
                    .take_while(|(c, _)| c.starts_with(&prefix))
                    .any(|(c, ce)| !c[prefix.len()..].contains(&b'/') && !matches!(ce.kind, FlatKind::Symlink(_)));
                if !has_creating_child {
                    nondir_at_leafy_dir = true;
                }
            }
            continue;
        }
        match (&me.kind, &p.kind) {
            (FlatKind::File(want), FsKind::File(have)) => {
                if !content_judged(me, Some(p), o.verify_existing) {
                    f.unjudged += 1;
                }
                if want[..] == have[..] {
                    f.identical += 1;
                } else if want.len() == have.len() {
                    f.same_size_changed += 1;
                } else if have.len() < want.len() {
                    f.truncated += 1;
                } else {
                    f.longer += 1;
                }
                if want.iter().zip(have.iter()).any(|(w, h)| *w == 0 && *h != 0) {
                    sparse_stale = true;
                }
            }
            (FlatKind::Symlink(want), FsKind::Symlink(have)) => {
                if want != have {
                    link_differs = true;
                }
            }
            _ => {}
        }
    }
    let later = later_hardlink_members(top);
    let hardlink_exists = later
        .iter()
        .any(|k| pre.get(k).is_some_and(|p| matches!(p.kind, FsKind::File(_))));
    // input-side predicates of the findings (evaluated before the library runs)
    if !o.delete && f.type_conflict {
        f.keys.push("type-conflict-no-delete");
    }
    if !o.delete && link_differs {
        f.keys.push("symlink-differs-no-delete");
    }
    if hardlink_exists {
        f.keys.push("hardlink-member-exists");
    }
    if o.sparse && sparse_stale {
        f.keys.push("sparse-stale-bytes");
    }
    if o.delete && nondir_at_leafy_dir {
        f.keys.push("nondir-at-dir-path-delete");
    }
    f
}

/// compare the destination after the restore with the snapshot model; None = as promised
fn ex_compare(
    m: &Flat,
    pre: &BTreeMap<Vec<u8>, FsEntry>,
    post: &BTreeMap<Vec<u8>, FsEntry>,
    o: &Opts,
    ownership: bool,
) -> Option<String> {
    // After a restore all members of a hardlink group share one inode whose content is that of the
    // first member: a member is only within the premise of the statement if every member is
    // (a stale first member with unchanged size and mtime is outside it, and so is what links to it).
    let mut group_judged: BTreeMap<(u64, u64), bool> = BTreeMap::new();
    for (k, me) in m {
        if me.links > 1 && matches!(me.kind, FlatKind::File(_)) {
            let j = content_judged(me, pre.get(k), o.verify_existing);
            let e = group_judged.entry((me.device, me.inode)).or_insert(true);
            *e &= j;
        }
    }
    for (k, me) in m {
        let p = show_path(k);
        let was = pre.get(k);
        let group_ok = !(me.links > 1 && matches!(me.kind, FlatKind::File(_)))
            || group_judged.get(&(me.device, me.inode)).copied().unwrap_or(true);
        let was_txt = match was {
            None => "absent before".to_string(),
            Some(w) => format!("a {} before", kind_name(&w.kind)),
        };
        let Some(f) = post.get(k) else {
            return Some(format!("snapshot path {p:?} does not exist after the restore ({was_txt})"));
        };
        if !fs_kind_matches(&me.kind, &f.kind) {
            return Some(format!(
                "snapshot path {p:?} is a {} after the restore, the snapshot has a {} ({was_txt})",
                kind_name(&f.kind),
                match me.kind {
                    FlatKind::Dir => "dir",
                    FlatKind::File(_) => "file",
                    FlatKind::Symlink(_) => "symlink",
                }
            ));
        }
        if content_judged(me, was, o.verify_existing) && group_ok {
            match (&me.kind, &f.kind) {
                (FlatKind::File(want), FsKind::File(have)) if want[..] != have[..] => {
                    let pos = have.iter().zip(want.iter()).position(|(a, b)| a != b);
                    let stale = match (pos, was) {
                        (Some(i), Some(FsEntry { kind: FsKind::File(old), .. })) if old.get(i) == have.get(i) => {
                            " (the byte there is the one of the pre-existing file)"
                        }
                        _ => "",
                    };
                    return Some(format!(
                        "{p:?}: content differs from the snapshot after the restore ({} bytes on disk, {} in the snapshot, first difference at {pos:?}{stale}; {was_txt})",
                        have.len(),
                        want.len()
                    ));
                }
                (FlatKind::Symlink(want), FsKind::Symlink(have)) if want != have => {
                    return Some(format!(
                        "{p:?}: link target {:?} after the restore, snapshot has {:?} ({was_txt})",
                        show_path(have),
                        show_path(want)
                    ));
                }
                _ => {}
            }
        }
        if !matches!(me.kind, FlatKind::Symlink(_)) && f.mode != (me.perm & 0o7777) {
            return Some(format!(
                "{p:?}: mode {:#o} after the restore, snapshot has {:#o} ({was_txt})",
                f.mode,
                me.perm & 0o7777
            ));
        }
        if f.mtime != (me.mtime.0, me.mtime.1) {
            return Some(format!(
                "{p:?}: mtime {:?} after the restore, snapshot has {:?} ({was_txt})",
                f.mtime, me.mtime
            ));
        }
        if ownership && (f.uid != me.uid || f.gid != me.gid) {
            return Some(format!(
                "{p:?}: owner {}:{} after the restore, snapshot has {}:{} ({was_txt})",
                f.uid, f.gid, me.uid, me.gid
            ));
        }
    }
    for k in post.keys() {
        if !m.contains_key(k) && !pre.contains_key(k) {
            return Some(format!(
                "the restore created {:?}, which is neither in the snapshot nor was in the destination",
                show_path(k)
            ));
        }
    }
    None
}

/// the extra entries (not at or below any snapshot path): gone iff delete, else untouched
fn extras_check(
    free: &[Vec<u8>],
    pre: &BTreeMap<Vec<u8>, FsEntry>,
    post: &BTreeMap<Vec<u8>, FsEntry>,
    delete: bool,
    completed: bool,
) -> Option<String> {
    for k in free {
        match (delete, post.get(k)) {
            (true, Some(_)) if completed => {
                return Some(format!(
                    "extra entry {:?} still exists although deletion was requested",
                    show_path(k)
                ));
            }
            (false, None) => {
                return Some(format!(
                    "extra entry {:?} was removed although deletion was not requested",
                    show_path(k)
                ));
            }
            (false, Some(a)) if a != &pre[k] => {
                return Some(format!(
                    "extra entry {:?} was modified although deletion was not requested ({})",
                    show_path(k),
                    describe_change(&pre[k], a)
                ));
            }
            _ => {}
        }
    }
    None
}

/// number of blobs of the file and how many of them the pre-existing bytes already satisfy
fn blob_match_stats(repo: &RepoFull, node: &Node, have: &[u8], want: &[u8]) -> Option<(usize, usize)> {
    let ids = node.content.as_ref()?;
    let mut pos = 0usize;
    let mut same = 0usize;
    for id in ids {
        let ie = guarded(|| repo.get_index_entry(id)).ok()?.ok()?;
        let len = ie.location.data_length() as usize;
        if pos + len <= have.len() && pos + len <= want.len() && have[pos..pos + len] == want[pos..pos + len] {
            same += 1;
        }
        pos += len;
    }
    Some((ids.len(), same))
}

pub fn ex_run(c: &ExCase, ctx: &Ctx) -> Outcome {
    let root = is_root();
    let mut out = Outcome::pass()
        .class(format!("base_{:?}", c.base).to_lowercase())
        .class_if(c.opts.delete, "delete")
        .class_if(c.opts.verify_existing, "verify_existing")
        .class_if(c.opts.sparse, "sparse")
        .class_if(c.opts.no_ownership || !root, "no_ownership")
        .class_if(c.opts.numeric_id, "numeric_id");
    macro_rules! fail {
        ($keys:expr, $($arg:tt)*) => {{
            out.failure = Some(format!($($arg)*));
            return finish(out, ctx, $keys);
        }};
    }

    // 1. the snapshot
    let storage = Storage::new();
    let repo = match init_repo(storage.handle(), &c.cfg).and_then(|r| r.to_indexed_ids().map_err(|e| estr(&e))) {
        Ok(r) => r,
        Err(e) => fail!(&[], "setting up the repository: {e}"),
    };
    let snap = match backup_tree(
        &repo,
        &c.tree,
        &ReadSchedule::default(),
        &force_opts(),
        snap_template(1_700_000_000, "host", "", ""),
    ) {
        Ok(s) => s,
        // C01's subject, not ours
        Err(e) => return out.skip(format!("backup failed: {}", crate::engine::first_line(&e))),
    };
    drop(repo);
    let full = match open_full(&storage, &c.cfg) {
        Ok(r) => r,
        Err(e) => return out.skip(format!("cannot reopen: {}", crate::engine::first_line(&e))),
    };

    // 2. what is restored: the root or a sub-directory of the snapshot
    let mut node_path = String::new();
    let mut top: Vec<MNode> = vec![c.tree.clone()];
    if let Some(sel) = c.sub {
        let mut dirs = paths_where(&c.tree, &|n| n.is_dir());
        dirs.retain(|d| {
            let mut p = c.tree.name.clone();
            let rel = path_of(&c.tree, d);
            if !rel.is_empty() {
                p.push(b'/');
                p.extend_from_slice(&rel);
            }
            std::str::from_utf8(&p).is_ok()
        });
        if !dirs.is_empty() {
            let d = &dirs[pick_idx(sel, dirs.len())];
            let mut p = c.tree.name.clone();
            let rel = path_of(&c.tree, d);
            if !rel.is_empty() {
                p.push(b'/');
                p.extend_from_slice(&rel);
            }
            node_path = String::from_utf8(p).expect("checked");
            top = crate::r#gen::node_at(&c.tree, d).children().to_vec();
            out = out.class("sub_node");
        }
    }
    let m = flatten_top(&top);

    // 3. sandbox with sentinels and the pre-existing destination
    let scratch = Scratch::new("c14");
    let root_dir = scratch.path();
    let s_buf = root_dir.join(GUARD_REL);
    let s = s_buf.as_path();
    let dest = match fs::create_dir_all(s).and_then(|()| make_sandbox(s)) {
        Ok(d) => d,
        Err(e) => fail!(&[], "harness: cannot build the sandbox: {e}"),
    };
    let dmodel = build_dest_model(&top, c);
    if let Err(e) = materialise(&dmodel, &dest, root, &mut BTreeMap::new()) {
        return out.skip(format!("harness: cannot materialise the destination: {e}"));
    }
    let (pre, before) = match (walk(&dest), outside_state(root_dir)) {
        (Ok(a), Ok(b)) => (a, b),
        (a, b) => fail!(&[], "harness: cannot walk the sandbox: {:?} {:?}", a.err(), b.err()),
    };
    let facts = ex_facts(&top, &m, &pre, &c.opts);
    let keys = facts.keys.clone();
    out = out
        .class_if(facts.type_conflict, "type_conflict")
        .class_if(facts.same_size_changed > 0, "same_size_changed_file")
        .class_if(facts.truncated > 0, "truncated_file")
        .class_if(facts.longer > 0, "longer_file")
        .class_if(facts.identical > 0, "identical_file")
        .class_if(facts.absent > 0, "absent_path")
        .class_if(facts.unjudged > 0, "unjudged_same_size_mtime")
        .class_if(!facts.free_extras.is_empty(), "extras")
        .class_if(m.values().any(|e| e.links > 1), "has_hardlink")
        .class_if(keys.is_empty(), "judged_fully");
    for k in &keys {
        out = out.class(format!("matches:{k}"));
    }

    // partial rewrite: an existing same-size file of which some blobs match and some do not
    let mut partial = false;
    if facts.same_size_changed > 0 {
        if let Ok(got) = read_snapshot(&full, &snap, false) {
            let prefix: Vec<u8> = if node_path.is_empty() {
                Vec::new()
            } else {
                let mut p = node_path.clone().into_bytes();
                p.push(b'/');
                p
            };
            for (k, me) in &m {
                if let (FlatKind::File(want), Some(FsEntry { kind: FsKind::File(have), mtime, .. })) = (&me.kind, pre.get(k)) {
                    if want.len() == have.len()
                        && want[..] != have[..]
                        && (c.opts.verify_existing || *mtime != (me.mtime.0, me.mtime.1))
                    {
                        let mut key = prefix.clone();
                        key.extend_from_slice(k);
                        if let Some(g) = got.get(&key) {
                            if let Some((n, same)) = blob_match_stats(&full, &g.node, have, want) {
                                if same > 0 && same < n {
                                    partial = true;
                                }
                            }
                        }
                    }
                }
            }
        }
    }
    out = out.class_if(partial, "partial_rewrite");
    out.nontrivial = partial || facts.type_conflict;

    // 4. the restore
    let ropts = c.opts.restore_options(root);
    let res = restore_at(&full, &snap, &node_path, &dest, &ropts);
    out = out.class(if res.is_ok() { "restore_ok" } else { "restore_err" });

    // 5. nothing outside the destination may change, whatever happened
    let after = match outside_state(root_dir) {
        Ok(a) => a,
        Err(e) => fail!(&keys, "cannot walk the sandbox after the restore: {e}"),
    };
    if let Some(d) = outside_diff(&before, &after) {
        fail!(&keys, "restore of a snapshot with ordinary names: {d}");
    }
    let post = match walk(&dest) {
        Ok(p) => p,
        Err(e) => fail!(&keys, "cannot walk the destination after the restore: {e}"),
    };
    if let Some(d) = extras_check(&facts.free_extras, &pre, &post, c.opts.delete, res.is_ok()) {
        fail!(&keys, "{d}");
    }
    if let Err(e) = res {
        fail!(&keys, "restore into an existing destination failed: {e}");
    }
    let ownership = root && !c.opts.no_ownership;
    if let Some(d) = ex_compare(&m, &pre, &post, &c.opts, ownership) {
        fail!(&keys, "{d}");
    }
    finish(out, ctx, &keys)
}

// ---------------------------------------------------------------------------------------------
// sub-check "hostile"
// ---------------------------------------------------------------------------------------------

#[derive(Debug, Clone, PartialEq, Eq, Serialize, Deserialize)]
pub enum HName {
    Normal(String),
    /// `..` repeated `ups` times, then the tail (if any): `..`, `../x`, `../../x`, `../..`
    Up { ups: u8, tail: Option<String> },
    /// absolute path into the sandbox: `S/abs-target/<tail>`
    Abs(String),
    /// absolute path of an existing sentinel directory itself: `S/abs-target`
    AbsDir,
    /// `a/b`
    Sep(String, String),
    Dot,
    Empty,
    /// `./x`
    DotSlash(String),
    /// `x/`
    TrailingSlash(String),
    /// `x/../../y` (goes up after going down)
    DownUp(String, u8, String),
    /// a name with a NUL byte
    Nul(String),
}

#[derive(Debug, Clone, PartialEq, Eq, Serialize, Deserialize)]
pub enum HKind {
    File(Content),
    Dir(Vec<HNode>),
    Symlink(String),
}

#[derive(Debug, Clone, PartialEq, Eq, Serialize, Deserialize)]
pub struct HNode {
    pub name: HName,
    pub kind: HKind,
    pub perm: u32,
    /// which bytes of the name are stored as `\xNN` escape sequences in the tree (the stored form
    /// of a name is escaped; readers unescape it): bit 0 = `/`, bit 1 = `.`, bit 2 = NUL
    #[serde(default)]
    pub esc: u8,
}

#[derive(Debug, Clone, Serialize, Deserialize)]
pub struct HostCase {
    pub nodes: Vec<HNode>,
    pub opts: Opts,
    /// the destination already holds an earlier, harmless tree
    pub predest: bool,
}

fn tail() -> BoxedStrategy<String> {
    prop::sample::select(vec!["x", "side.txt", "sib", "new", "keep", "sentinel.txt"])
        .prop_map(str::to_string)
        .boxed()
}

/// `parent_names`: also names that are absolute or contain a `..` component
fn hname(parent_names: bool) -> BoxedStrategy<HName> {
    let mut v: Vec<(u32, BoxedStrategy<HName>)> = vec![
        (3, "[a-c]{1,2}".prop_map(HName::Normal).boxed()),
        (2, ("[a-c]", tail()).prop_map(|(a, b)| HName::Sep(a, b)).boxed()),
        (1, Just(HName::Dot).boxed()),
        (1, Just(HName::Empty).boxed()),
        (1, tail().prop_map(HName::DotSlash).boxed()),
        (1, tail().prop_map(HName::TrailingSlash).boxed()),
        (1, tail().prop_map(HName::Nul).boxed()),
    ];
    if parent_names {
        v.push((
            6,
            (1u8..=2, prop::option::weighted(0.8, tail()))
                .prop_map(|(ups, tail)| HName::Up { ups, tail })
                .boxed(),
        ));
        v.push((3, tail().prop_map(HName::Abs).boxed()));
        v.push((1, Just(HName::AbsDir).boxed()));
        v.push((
            2,
            ("[a-c]", 2u8..=3, tail())
                .prop_map(|(a, n, b)| HName::DownUp(a, n, b))
                .boxed(),
        ));
    }
    proptest::strategy::Union::new_weighted(v).boxed()
}

fn esc_bits() -> BoxedStrategy<u8> {
    prop_oneof![3 => Just(0u8), 2 => 1u8..8].boxed()
}

/// the stored (escaped) spelling of a name in which the selected bytes are written as `\xNN`
fn stored_name(raw: &str, esc: u8) -> String {
    let mut out = String::new();
    for ch in raw.chars() {
        match ch {
            '/' if esc & 1 != 0 => out.push_str("\\x2f"),
            '.' if esc & 2 != 0 => out.push_str("\\x2e"),
            '\0' if esc & 4 != 0 => out.push_str("\\x00"),
            c => out.push(c),
        }
    }
    out
}

fn hleaf(parent_names: bool) -> BoxedStrategy<HNode> {
    let kind = prop_oneof![
        4 => content(64, 3000).prop_map(HKind::File),
        1 => Just(HKind::Dir(Vec::new())),
        1 => prop::sample::select(vec!["t", "../t", "/etc/passwd"]).prop_map(|t| HKind::Symlink(t.to_string())),
    ];
    (hname(parent_names), kind, prop::sample::select(vec![0o644u32, 0o600, 0o755, 0o777, 0o4755, 0]), esc_bits())
        .prop_map(|(name, kind, perm, esc)| HNode { name, kind, perm, esc })
        .boxed()
}

fn hnode(parent_names: bool) -> BoxedStrategy<HNode> {
    prop_oneof![
        3 => hleaf(parent_names),
        2 => (
            hname(parent_names),
            prop::collection::vec(hleaf(parent_names), 0..3),
            prop::sample::select(vec![0o755u32, 0o700, 0o777]),
            esc_bits(),
        )
            .prop_map(|(name, ch, perm, esc)| HNode { name, kind: HKind::Dir(ch), perm, esc }),
    ]
    .boxed()
}

fn host_strategy(_ctx: &Ctx) -> BoxedStrategy<HostCase> {
    // half of the cases stay outside the predicate of the known path-traversal finding
    any::<bool>()
        .prop_flat_map(|parent_names| {
            (
                prop::collection::vec(hnode(parent_names), 1..5),
                opts_strategy(),
                prop::bool::weighted(0.3),
            )
        })
        .prop_map(|(nodes, opts, predest)| HostCase { nodes, opts, predest })
        .boxed()
}

impl HName {
    fn render(&self, s: &Path) -> String {
        let sp = s.to_str().expect("utf-8 scratch path");
        match self {
            HName::Normal(n) => n.clone(),
            HName::Up { ups, tail } => {
                let mut parts: Vec<&str> = vec![".."; usize::from(*ups)];
                if let Some(t) = tail {
                    parts.push(t);
                }
                parts.join("/")
            }
            HName::Abs(t) => format!("{sp}/abs-target/{t}"),
            HName::AbsDir => format!("{sp}/abs-target"),
            HName::Sep(a, b) => format!("{a}/{b}"),
            HName::Dot => ".".to_string(),
            HName::Empty => String::new(),
            HName::DotSlash(t) => format!("./{t}"),
            HName::TrailingSlash(t) => format!("{t}/"),
            HName::DownUp(a, n, b) => format!("{a}/{}/{b}", vec![".."; usize::from(*n)].join("/")),
            HName::Nul(t) => format!("{t}\0{t}"),
        }
    }

    /// lexical depth change sequence: does joining this name at `depth` components below the
    /// destination leave the destination? Returns the new depth, None = escaped.
    fn walk_depth(&self, depth: i32) -> Option<i32> {
        match self {
            HName::Abs(_) | HName::AbsDir => None,
            HName::Normal(_) | HName::Nul(_) => Some(depth + 1),
            HName::Up { ups, tail } => {
                let d = depth - i32::from(*ups);
                if d < 0 { None } else { Some(d + i32::from(tail.is_some())) }
            }
            HName::Sep(..) => Some(depth + 2),
            HName::Dot | HName::Empty => Some(depth),
            HName::DotSlash(_) | HName::TrailingSlash(_) => Some(depth + 1),
            HName::DownUp(_, n, _) => {
                let d = depth + 1 - i32::from(*n);
                if d < 0 { None } else { Some(d + 1) }
            }
        }
    }
}

/// does any node path lexically leave the destination? (classification only)
fn escapes(nodes: &[HNode], depth: i32) -> bool {
    nodes.iter().any(|n| match n.name.walk_depth(depth) {
        None => true,
        Some(d) => match &n.kind {
            HKind::Dir(ch) => escapes(ch, d),
            _ => false,
        },
    })
}

/// input-side predicate of the finding: some stored name is absolute or has a `..` component.
/// (Purely lexical resolution per node is not enough: the node streamer pushes a multi-component
/// name and pops a single component, so `a/../../x` followed by a sibling `..` also escapes.)
fn has_parent_or_abs(nodes: &[HNode]) -> bool {
    nodes.iter().any(|n| {
        matches!(n.name, HName::Up { .. } | HName::Abs(_) | HName::AbsDir | HName::DownUp(..))
            || matches!(&n.kind, HKind::Dir(ch) if has_parent_or_abs(ch))
    })
}

fn hostile_entries(
    nodes: &[HNode],
    parent: &Path,
    s: &Path,
    out: &mut Vec<(PathBuf, Node, Option<Arc<Vec<u8>>>)>,
) {
    for (i, n) in nodes.iter().enumerate() {
        let safe = format!("n{i:02}");
        let path = parent.join(&safe);
        let (node_type, data, children): (NodeType, Option<Arc<Vec<u8>>>, &[HNode]) = match &n.kind {
            HKind::File(c) => (NodeType::File, Some(Arc::new(c.bytes())), &[]),
            HKind::Dir(ch) => (NodeType::Dir, None, ch),
            HKind::Symlink(t) => (NodeType::from_link(Path::new(t)), None, &[]),
        };
        let type_bits: u32 = match node_type {
            NodeType::Dir => 1 << 31,
            NodeType::Symlink { .. } => 1 << 27,
            _ => 0,
        };
        let mut mode = n.perm & 0o777;
        if n.perm & 0o4000 != 0 {
            mode |= 1 << 23;
        }
        let t = MTime(1_600_000_000, 0).to_jiff();
        let meta = Metadata {
            mode: Some(mode | type_bits),
            mtime: Some(t),
            atime: Some(t),
            ctime: Some(t),
            uid: Some(0),
            gid: Some(0),
            user: None,
            group: None,
            inode: 1000 + out.len() as u64,
            device_id: 7,
            size: data.as_ref().map_or(0, |d| d.len() as u64),
            links: 1,
            extended_attributes: Vec::new(),
        };
        let mut node = Node::new_node(OsStr::new(&safe), node_type, meta);
        // the hostile name goes into the stored tree as it is, or with some of its bytes spelled as
        // escape sequences (which every reader undoes before using the name)
        node.name = stored_name(&n.name.render(s), n.esc);
        out.push((path.clone(), node, data));
        hostile_entries(children, &path, s, out);
    }
}

pub fn host_run(c: &HostCase, ctx: &Ctx) -> Outcome {
    let root = is_root();
    let mut out = Outcome::pass().nontrivial(true);
    let esc = escapes(&c.nodes, 1);
    let keys: Vec<&'static str> = if has_parent_or_abs(&c.nodes) {
        vec!["node-name-escapes-destination"]
    } else {
        vec![]
    };
    out = out
        .class(if esc { "lexically_escaping" } else { "lexically_inside" })
        .class_if(c.opts.delete, "delete")
        .class_if(c.predest, "predest");
    fn classes(nodes: &[HNode], out: &mut BTreeSet<&'static str>) {
        for n in nodes {
            _ = out.insert(match n.name {
                HName::Normal(_) => "name_normal",
                HName::Up { .. } => "name_dotdot",
                HName::Abs(_) | HName::AbsDir => "name_absolute",
                HName::Sep(..) => "name_separator",
                HName::Dot => "name_dot",
                HName::Empty => "name_empty",
                HName::DotSlash(_) | HName::TrailingSlash(_) => "name_slash_variants",
                HName::DownUp(..) => "name_down_up",
                HName::Nul(_) => "name_nul",
            });
            if let HKind::Dir(ch) = &n.kind {
                if !ch.is_empty() {
                    _ = out.insert("hostile_dir_with_children");
                }
                classes(ch, out);
            }
        }
    }
    let mut cl = BTreeSet::new();
    classes(&c.nodes, &mut cl);
    for k in cl {
        out = out.class(k);
    }
    macro_rules! fail {
        ($($arg:tt)*) => {{
            out.failure = Some(format!($($arg)*));
            return finish(out, ctx, &keys);
        }};
    }

    let scratch = Scratch::new("c14h");
    let root_dir = scratch.path();
    let s_buf = root_dir.join(GUARD_REL);
    let s = s_buf.as_path();
    let dest = match fs::create_dir_all(s).and_then(|()| make_sandbox(s)) {
        Ok(d) => d,
        Err(e) => fail!("harness: cannot build the sandbox: {e}"),
    };
    if c.predest {
        let r = (|| -> std::io::Result<()> {
            fs::create_dir_all(dest.join("s/a"))?;
            fs::write(dest.join("s/a/old"), b"old content")?;
            fs::write(dest.join("x"), b"old x in dest")?;
            fs::write(dest.join("s/x"), b"old x in s")?;
            Ok(())
        })();
        if let Err(e) = r {
            fail!("harness: cannot fill the destination: {e}");
        }
    }

    // the snapshot with the names as generated
    let cfg = RepoCfg::simple();
    let storage = Storage::new();
    let repo = match init_repo(storage.handle(), &cfg).and_then(|r| r.to_indexed_ids().map_err(|e| estr(&e))) {
        Ok(r) => r,
        Err(e) => fail!("setting up the repository: {e}"),
    };
    let t = MTime(1_600_000_000, 0).to_jiff();
    let root_meta = Metadata {
        mode: Some(0o755 | (1 << 31)),
        mtime: Some(t),
        atime: Some(t),
        ctime: Some(t),
        uid: Some(0),
        gid: Some(0),
        inode: 1,
        device_id: 7,
        links: 1,
        ..Metadata::default()
    };
    let mut entries = vec![(
        PathBuf::from("s"),
        Node::new_node(OsStr::new("s"), NodeType::Dir, root_meta),
        None,
    )];
    hostile_entries(&c.nodes, Path::new("s"), s, &mut entries);
    let src = MemSource::from_entries(entries);
    let snap = match guarded(|| {
        repo.archive(
            &force_opts(),
            &src,
            snap_template(1_700_000_000, "host", "", ""),
            &[PathBuf::from("s")],
        )
    }) {
        Ok(Ok(sn)) => sn,
        Ok(Err(e)) => return finish(out.skip(format!("backup refused the tree: {}", crate::engine::first_line(&estr(&e)))), ctx, &[]),
        Err(p) => return finish(out.skip(format!("backup panicked on the tree: {}", crate::engine::first_line(&p))), ctx, &[]),
    };
    drop(repo);
    let full = match open_full(&storage, &cfg) {
        Ok(r) => r,
        Err(e) => return out.skip(format!("cannot reopen: {}", crate::engine::first_line(&e))),
    };

    let before = match outside_state(root_dir) {
        Ok(b) => b,
        Err(e) => fail!("harness: cannot walk the sandbox: {e}"),
    };
    let res = restore_at(&full, &snap, "", &dest, &c.opts.restore_options(root));
    out = out.class(match &res {
        Ok(()) => "restore_ok",
        Err(e) if e.contains("panicked") => "restore_panicked",
        Err(_) => "restore_err",
    });
    let after = match outside_state(root_dir) {
        Ok(a) => a,
        Err(e) => fail!("cannot walk the sandbox after the restore: {e}"),
    };
    if let Some(d) = outside_diff(&before, &after) {
        fail!(
            "restore ({}) of a snapshot whose trees contain crafted node names: {d}",
            if res.is_ok() { "returned Ok" } else { "failed" }
        );
    }
    finish(out, ctx, &keys)
}

pub fn spec() -> PropSpec {
    PropSpec {
        id: "C14",
        level: "exploration",
        rule: "proptest. Sub 'existing': repository configuration x source tree (<=3-4 children, depth <=3-4, files 0..150 kB sized relative to the chunk size, hardlinks, symlinks, special names, optionally a file with a multi-chunk all-zero stretch) backed up through an in-memory source; the destination S/a/b/dest is materialised from the snapshot model (identical incl. mtime / empty / all mtimes older) by a generated mutation list (absent, touched, same-size overwrite with kept or changed mtime, truncated, longer, replaced by a file/dir/symlink of any type, chmod, symlink retargeted with same/different length) plus unrelated extra files/dirs/symlinks (incl. symlinks pointing out of the destination); options delete, verify_existing, sparse=ByContent, no_ownership, numeric_id; restore of the snapshot root or of a sub-directory. Sub 'hostile': 1-4 nodes (files, symlinks, directories with children) whose stored names are '..', '../x', '../../x', '../..', an absolute path into the sandbox, 'a/b', '.', '', './x', 'x/', 'a/../../x', a name with NUL. Non-trivial = a pre-existing same-size file of which some blobs match the snapshot and some do not (premise of the statement holds), or a snapshot path occupied by an entry of another type, or (hostile) any crafted name; distinct by hash of the case.",
        assumptions: vec![
            "the destination is on tmpfs (/dev/shm); ownership is compared only when running as root and no_ownership is off",
            "content of a pre-existing file with the snapshot's size and mtime but other bytes is not judged unless verify_existing is on (outside the premise of the statement); the same rule is applied to symlink targets",
            "hardlink identity after the restore is not judged here (C01 does for fresh restores); xattrs, devices, fifos are not generated",
            "hostile names are injected through the archiver (ReadSource nodes with the name field set), not by hand-crafting tree blobs; lexical escapes are bounded so that they stay inside the sandbox",
        ],
        subs: vec![
            Box::new(Sub {
                name: "existing",
                cases_quick: 800,
                cases_thorough: 25_000,
                max_shrink_iters: 300,
                strategy: ex_strategy,
                run: ex_run,
            }) as Box<dyn DynSub>,
            Box::new(Sub {
                name: "hostile",
                cases_quick: 300,
                cases_thorough: 10_000,
                max_shrink_iters: 300,
                strategy: host_strategy,
                run: host_run,
            }) as Box<dyn DynSub>,
        ],
        extra: None,
    }
}
