//! C01 — Backup followed by restore reproduces the source exactly.
//!
//! Generated: (repository configuration, source tree). Oracle: the in-memory model of the tree;
//! every read path (listing, dump, ranged reads, restore to disk, check --read-data) must agree
//! with it.

use std::sync::Arc;

use proptest::prelude::*;
use rustic_core::RestoreOptions;
use serde::{Deserialize, Serialize};

use crate::{
    engine::{Ctx, DynSub, Outcome, PropSpec, Sub, guarded, pick_idx},
    fsutil::{Scratch, walk},
    r#gen::{TreeParams, tree},
    membe::Storage,
    model::{FlatKind, MKind, MNode, ReadSchedule, flatten},
    repo::{
        CmpOpts, RepoCfg, backup_tree, check_repo, compare, estr, force_opts, init_repo, open_full,
        read_snapshot, repo_cfg, snap_template,
    },
    restore::{FsCmp, compare_fs, restore_snapshot},
};

#[derive(Debug, Clone, Serialize, Deserialize)]
pub struct Case {
    pub cfg: RepoCfg,
    pub tree: MNode,
    pub sched: ReadSchedule,
    /// ranged reads: (file selector, offset selector, length selector)
    pub windows: Vec<(u16, u16, u16)>,
    pub restore: bool,
    /// Some((dir selector, name selector)): after a first backup, add a file whose bytes are the
    /// serialised tree of one of the directories and back the result up into a fresh repository
    #[serde(default)]
    pub collide: Option<(u16, bool)>,
    /// after the first backup: edit the source and back it up again into the same repository with
    /// the library's default options (the previous snapshot is found and used as parent)
    #[serde(default)]
    pub second: Option<Vec<crate::r#gen::Edit>>,
}

pub fn tree_params(cfg: &RepoCfg, thorough: bool) -> TreeParams {
    let unit = cfg.unit();
    TreeParams {
        unit,
        file_cap: if thorough { 3 << 20 } else { 600_000 },
        max_children: if thorough { 6 } else { 4 },
        depth: if thorough { 5 } else { 4 },
    }
}

fn strategy(ctx: &Ctx) -> BoxedStrategy<Case> {
    let thorough = ctx.tier.is_thorough();
    (repo_cfg(), prop::option::weighted(0.015, 20i32..=22))
        .prop_flat_map(move |(mut cfg, ultra)| {
            let mut p = tree_params(&cfg, thorough);
            if let (Some(l), true) = (ultra, cfg.version >= 2) {
                // zstd's ultra levels: about a second and a gigabyte per blob and thread, so the
                // source stays small (and `repo::ultra_gate` lets one such case run at a time)
                cfg.compression = Some(l);
                p = TreeParams { unit: p.unit, file_cap: p.unit.saturating_mul(6).min(60_000), max_children: 3, depth: 2 };
            }
            (
                Just(cfg),
                tree(p),
                super::c06::sched(),
                prop::collection::vec((any::<u16>(), any::<u16>(), any::<u16>()), 0..6),
                prop::bool::weighted(0.6),
                prop::option::weighted(0.3, (any::<u16>(), any::<bool>())),
                prop::option::weighted(0.35, prop::collection::vec(crate::r#gen::edit(p), 1..4)),
            )
        })
        .prop_map(|(cfg, tree, sched, windows, restore, collide, second)| Case {
            cfg,
            tree,
            sched,
            windows,
            restore,
            collide,
            second,
        })
        .boxed()
}

fn special_name(n: &MNode) -> bool {
    fn rec(n: &MNode) -> bool {
        n.name.iter().any(|b| !b.is_ascii_alphanumeric()) || n.children().iter().any(rec)
    }
    n.children().iter().any(rec)
}

/// the serialised tree blobs of all proper sub-directories of the snapshot, by path
fn dir_blobs(c: &Case) -> Result<Vec<(Vec<u8>, Vec<u8>)>, String> {
    let storage = Storage::new();
    let repo = init_repo(storage.handle(), &c.cfg)?
        .to_indexed_ids()
        .map_err(|e| estr(&e))?;
    let snap = backup_tree(
        &repo,
        &c.tree,
        &ReadSchedule::default(),
        &force_opts(),
        snap_template(1_600_000_000, "host", "", ""),
    )?;
    drop(repo);
    let full = open_full(&storage, &c.cfg)?;
    let got = read_snapshot(&full, &snap, false)?;
    let mut out = Vec::new();
    for (path, g) in &got {
        if path.as_slice() == b"s" {
            continue;
        }
        if let Some(id) = g.node.subtree {
            let blob = guarded(|| full.cat_blob(rustic_core::repofile::BlobType::Tree, &id.to_hex()))
                .map_err(|p| format!("cat_blob panicked: {p}"))?
                .map_err(|e| estr(&e))?;
            out.push((path.clone(), blob.to_vec()));
        }
    }
    Ok(out)
}

pub fn run(c: &Case, ctx: &Ctx) -> Outcome {
    if let Some((dsel, first)) = c.collide {
        // two-phase construction of content that equals a serialised directory listing
        match dir_blobs(c) {
            Err(e) => return Outcome::fail(format!("first phase of the collision construction: {e}")),
            Ok(blobs) if blobs.is_empty() => {}
            Ok(mut blobs) => {
                // prefer blobs that stay a single chunk
                let single = c.cfg.rabin_params().map_or(64, |p| p.1);
                blobs.sort_by_key(|(_, b)| (b.len() >= single, b.len()));
                let small = blobs.iter().filter(|(_, b)| b.len() < single).count().max(1);
                let (_, bytes) = &blobs[pick_idx(dsel, small)];
                let mut c2 = c.clone();
                c2.collide = None;
                let name: &[u8] = if first { b"!collide" } else { b"zz-collide" };
                if let Some(ch) = c2.tree.children_mut() {
                    if !ch.iter().any(|n| n.name == name) {
                        ch.push(MNode {
                            name: name.to_vec(),
                            kind: MKind::File {
                                content: crate::model::Content::lit(bytes.clone()),
                            },
                            perm: 0o644,
                            mtime: crate::model::MTime(1_500_000_000, 0),
                            ctime: crate::model::MTime(1_500_000_000, 0),
                            uid: 0,
                            gid: 0,
                            inode: 9_999_999,
                            device: 7,
                            links: 1,
                        });
                    }
                }
                c2.tree.normalise();
                let mut o = run(&c2, ctx).class("tree_collision");
                if o.failure.is_some() {
                    o = o.known("untyped-in-run-blob-set");
                }
                return o;
            }
        }
    }
    let storage = Storage::new();
    let model = flatten(&c.tree);
    let mut out = Outcome::pass()
        .class(format!("v{}", c.cfg.version))
        .class(match c.cfg.chunker {
            crate::repo::ChunkerCfg::Rabin { .. } => "rabin",
            crate::repo::ChunkerCfg::Fixed { .. } => "fixed",
            crate::repo::ChunkerCfg::Default => "default_chunker",
        })
        .class_if(c.cfg.compression.is_some_and(|l| l != 0), "compressed")
        .class_if(model.values().any(|e| matches!(e.kind, FlatKind::Symlink(_))), "has_symlink")
        .class_if(model.values().any(|e| e.links > 1), "has_hardlink")
        .class_if(special_name(&c.tree), "special_names");

    macro_rules! fail {
        ($($arg:tt)*) => {{
            out.failure = Some(format!($($arg)*));
            return out;
        }};
    }

    let repo = match init_repo(storage.handle(), &c.cfg) {
        Ok(r) => r,
        Err(e) => fail!("{e}"),
    };
    let repo = match repo.to_indexed_ids() {
        Ok(r) => r,
        Err(e) => fail!("to_indexed_ids: {}", estr(&e)),
    };
    let snap = match backup_tree(
        &repo,
        &c.tree,
        &c.sched,
        &force_opts(),
        snap_template(1_700_000_000, "host", "", ""),
    ) {
        Ok(s) => s,
        Err(e) => fail!("{e}"),
    };
    drop(repo);

    // a fresh handle: everything must come from storage
    let full = match open_full(&storage, &c.cfg) {
        Ok(r) => r,
        Err(e) => fail!("after a successful backup: {e}"),
    };
    let got = match read_snapshot(&full, &snap, true) {
        Ok(g) => g,
        Err(e) => fail!("backup returned Ok but the snapshot cannot be read: {e}"),
    };
    if let Some(d) = compare(
        &model,
        &got,
        &CmpOpts {
            full_meta: true,
            content: true,
        },
    ) {
        fail!("listing/dump differs from the source: {d}");
    }

    // ranged reads
    let files: Vec<(&Vec<u8>, &Arc<Vec<u8>>)> = model
        .iter()
        .filter_map(|(k, e)| match &e.kind {
            FlatKind::File(b) => Some((k, b)),
            _ => None,
        })
        .collect();
    let mut ranged = 0u64;
    for (fsel, osel, lsel) in &c.windows {
        if files.is_empty() {
            break;
        }
        let (path, bytes) = files[pick_idx(*fsel, files.len())];
        let node = &got[path].node;
        let n = bytes.len();
        // offsets: anywhere in 0..=n+8, lengths up to past EOF
        let off = pick_idx(*osel, n + 9);
        let len = pick_idx(*lsel, n + 17);
        let want: &[u8] = if off >= n { &[] } else { &bytes[off..(off + len).min(n)] };
        let res = guarded(|| {
            let of = full.open_file(node)?;
            full.read_file_at(&of, off, len)
        });
        match res {
            Ok(Ok(b)) => {
                if &b[..] != want {
                    fail!(
                        "ranged read of {:?} at offset {off} length {len} (file size {n}) returned {} bytes that differ from the source slice of {} bytes",
                        crate::repo::show_path(path),
                        b.len(),
                        want.len()
                    );
                }
            }
            Ok(Err(e)) => fail!("ranged read at offset {off} length {len} of a {n}-byte file failed: {}", estr(&e)),
            Err(p) => fail!("ranged read at offset {off} length {len} of a {n}-byte file panicked: {p}"),
        }
        ranged += 1;
    }

    // restore to disk
    if c.restore {
        let scratch = Scratch::new("c01");
        let dest = scratch.path().join("dest");
        if let Err(e) = restore_snapshot(&full, &snap, &dest, &RestoreOptions::default().numeric_id(true)) {
            fail!("{e}");
        }
        let fs = match walk(&dest) {
            Ok(f) => f,
            Err(e) => fail!("cannot walk the restored tree: {e}"),
        };
        if let Some(d) = compare_fs(
            &model,
            &fs,
            &FsCmp {
                ownership: is_root(),
                hardlinks: true,
                exact_set: true,
            },
        ) {
            fail!("restored tree differs from the source: {d}");
        }
        out = out.class("restored");
    }

    // second generation: the everyday path, a backup that finds the previous snapshot as parent
    let mut full = full;
    if let Some(edits) = &c.second {
        let mut tree2 = c.tree.clone();
        let mut changed = false;
        for e in edits {
            let eff = crate::r#gen::apply_edit(&mut tree2, e, 1000);
            changed |= eff.content_changed || eff.structural;
        }
        let model2 = flatten(&tree2);
        let repo2 = match crate::repo::open_ids(&storage, &c.cfg) {
            Ok(r) => r,
            Err(e) => fail!("{e}"),
        };
        let snap2 = match backup_tree(
            &repo2,
            &tree2,
            &c.sched,
            &rustic_core::BackupOptions::default(),
            snap_template(1_700_000_100, "host", "", ""),
        ) {
            Ok(s) => s,
            Err(e) => fail!("second backup (default options): {e}"),
        };
        drop(repo2);
        full = match open_full(&storage, &c.cfg) {
            Ok(r) => r,
            Err(e) => fail!("after the second backup: {e}"),
        };
        for (what, s, m) in [("second", &snap2, &model2), ("first", &snap, &model)] {
            let g = match read_snapshot(&full, s, true) {
                Ok(g) => g,
                Err(e) => fail!("after the second backup the {what} snapshot cannot be read: {e}"),
            };
            if let Some(d) = compare(m, &g, &CmpOpts { full_meta: true, content: true }) {
                fail!("after the second backup (default options, previous snapshot as parent) the {what} snapshot differs from its source: {d}");
            }
        }
        // the second snapshot shares packs with the first one but not all of their blobs: the
        // restore command (which reads packs in coalesced ranges) must cope with the gaps
        if c.restore {
            let scratch = Scratch::new("c01b");
            let dest = scratch.path().join("dest");
            if let Err(e) = restore_snapshot(&full, &snap2, &dest, &RestoreOptions::default().numeric_id(true)) {
                fail!("restore of the second snapshot: {e}");
            }
            let fs = match walk(&dest) {
                Ok(f) => f,
                Err(e) => fail!("cannot walk the restored tree: {e}"),
            };
            if let Some(d) = compare_fs(&model2, &fs, &FsCmp { ownership: is_root(), hardlinks: true, exact_set: true }) {
                fail!("restored tree of the second snapshot differs from the source: {d}");
            }
        }
        out = out
            .class("second_backup_with_parent")
            .class_if(changed, "second_backup_of_changed_source");
    }

    if let Err(e) = check_repo(&full, true) {
        fail!("after backup: {e}");
    }

    let multi_chunk = got
        .values()
        .any(|g| g.node.content.as_ref().is_some_and(|c| c.len() >= 2));
    let packs = storage.ids(rustic_core::FileType::Pack).len();
    out = out
        .class_if(multi_chunk, "multi_chunk_file")
        .class_if(packs >= 3, "packs>=3")
        .count("ranged_reads", ranged)
        .count("packs", packs as u64);
    out.nontrivial = multi_chunk && packs >= 2 && special_name(&c.tree);
    out
}

pub fn is_root() -> bool {
    // SAFETY-free: libc call without side effects
    unsafe { libc::geteuid() == 0 }
}

pub fn spec() -> PropSpec {
    PropSpec {
        id: "C01",
        level: "exploration",
        rule: "proptest: repository configuration (version 1/2, compression unset/0/−7..22, rabin with average 2^6..2^11 and generated min/max, fixed-size chunker 1..70000, library-default chunker, tree/data pack size 0..400 kB with grow factor and limit, extra-verify) x source tree (≤4–6 children per directory, depth ≤4–5; files sized relative to the chunk size: 0, 1, <64, around one chunk, 1–6 chunks, 6–30 chunks; random / zero / periodic / literal content; names: ASCII, shell/JSON specials, multi-byte UTF-8, invalid UTF-8, 150–250 byte names, names sorting around '/'; symlinks with arbitrary-byte targets; hardlink groups; setuid/sticky bits; mtimes incl. pre-1970, far future, nanoseconds) fed through an in-memory ReadSource with generated read fragmentation; in 35 % of the cases the source is then edited (1–3 edits: content, add/remove, rename, move, retype, touch, chmod) and backed up again into the same repository with the library's default options, i.e. with the first snapshot as parent, and both snapshots are read back. Non-trivial = a file of ≥2 chunks, ≥2 packs and a name that is not plain alphanumeric; distinct by hash of the case.",
        assumptions: vec![
            "the in-memory ReadSource reproduces the contract of the library's local source (pre-order, siblings sorted by name bytes, size = content length)",
            "restores run as the sandbox user on tmpfs; ownership is compared only when running as root",
            "xattrs, device nodes, sockets are not generated",
        ],
        subs: vec![Box::new(Sub {
            name: "memsource",
            cases_quick: 1500,
            cases_thorough: 40_000,
            max_shrink_iters: 400,
            strategy,
            run,
        }) as Box<dyn DynSub>],
        extra: None,
    }
}
