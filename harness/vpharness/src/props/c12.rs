//! C12 — Copy, merge, rewrite and repair preserve all content they keep.
//!
//! Four sub-checks, each with its own generator and oracle:
//! * copy: model of every copied snapshot must read back from the destination; source untouched
//! * merge: validity predicate of a reference merge on the model trees (union of names, per name a
//!   maximal candidate under the comparator, directories merged recursively)
//! * rewrite: model minus exactly the paths matched by an independent matcher for three
//!   unambiguous exclude forms
//! * repair: undamaged -> no snapshot changes; damaged -> files kept without the suffix have their
//!   original content, suffixed files only hold surviving chunks

use std::{
    cmp::Ordering,
    collections::{BTreeMap, BTreeSet},
    sync::Arc,
};

use proptest::prelude::*;
use rustic_core::{
    FileType, RewriteOptions, RewriteTreesOptions,
    repofile::{Node, SnapshotFile},
};
use serde::{Deserialize, Serialize};
use vpcore::fmt::BType;

use crate::{
    cmds,
    engine::{Ctx, DynSub, Outcome, PropSpec, Sub, pick_idx},
    r#gen::{Edit, TreeParams, apply_edit, edit, tree},
    history::{HOp, PruneCfg, World},
    inspect::{index_view, to_id},
    membe::Storage,
    model::{Content, Flat, FlatKind, MKind, MNode, MTime, Piece, ReadSchedule, flatten},
    repo::{
        CheckVerdict, CmpOpts, Got, RepoCfg, backup_tree, check_verdict, compare, force_opts, init_repo,
        open_full, open_ids, open_repo, read_snapshot, repo_cfg, show_path, snap_template,
    },
};

fn params(cfg: &RepoCfg) -> TreeParams {
    let mut p = super::c07::params(cfg);
    p.file_cap = 150_000;
    p
}

fn cmp_full() -> CmpOpts {
    CmpOpts {
        full_meta: true,
        content: true,
    }
}

// ---------------------------------------------------------------- copy

#[derive(Debug, Clone, Serialize, Deserialize)]
pub struct CopyCase {
    pub src_cfg: RepoCfg,
    pub dst_cfg: RepoCfg,
    pub tree: MNode,
    /// further source states, each backed up as its own snapshot
    pub rounds: Vec<Vec<Edit>>,
    /// prune the source (after forgetting nothing) before copying: repacked packs
    pub prune_src: bool,
    /// destination already holds: nothing / a backup of one of the states / an earlier copy
    pub pre: u8,
    pub pre_sel: u16,
    /// which snapshots to copy (bit mask over the snapshot list, 0 = all)
    pub select: u8,
    /// all source snapshots carry the same time stamp (a snapshot's time is user-settable; merged
    /// and rewritten snapshots inherit theirs)
    #[serde(default)]
    pub same_time: bool,
}

fn copy_strategy(_ctx: &Ctx) -> BoxedStrategy<CopyCase> {
    (repo_cfg(), repo_cfg())
        .prop_flat_map(|(src_cfg, mut dst_cfg)| {
            if dst_cfg.key_seed == src_cfg.key_seed {
                dst_cfg.key_seed += 1;
            }
            let p = params(&src_cfg);
            (
                Just(src_cfg),
                Just(dst_cfg),
                tree(p),
                prop::collection::vec(prop::collection::vec(edit(p), 0..4), 0..3),
                prop::bool::weighted(0.3),
                0u8..3,
                any::<u16>(),
                any::<u8>(),
                prop::bool::weighted(0.3),
            )
        })
        .prop_map(|(src_cfg, dst_cfg, tree, rounds, prune_src, pre, pre_sel, select, same_time)| CopyCase {
            src_cfg,
            dst_cfg,
            tree,
            rounds,
            prune_src,
            pre,
            pre_sel,
            select,
            same_time,
        })
        .boxed()
}

fn run_copy(c: &CopyCase, _ctx: &Ctx) -> Outcome {
    let mut out = Outcome::pass();
    macro_rules! fail {
        ($($arg:tt)*) => {{
            out.failure = Some(format!($($arg)*));
            return out;
        }};
    }
    let mut w = match World::new(&c.src_cfg, &c.tree) {
        Ok(w) => w,
        Err(e) => fail!("{e}"),
    };
    let mut ops = vec![HOp::Backup { edits: vec![], parent: false }];
    for r in &c.rounds {
        ops.push(HOp::Backup { edits: r.clone(), parent: true });
    }
    if c.prune_src {
        let mut p = PruneCfg::aggressive();
        p.repack_all = true;
        ops.push(HOp::Prune(p));
    }
    let mut states: Vec<MNode> = Vec::new();
    for op in &ops {
        if c.same_time && matches!(op, HOp::Backup { .. }) {
            w.clock = 1_700_000_000;
        }
        if let Err(e) = w.step(op) {
            fail!("building the source repository: {e}");
        }
        if matches!(op, HOp::Backup { .. }) {
            states.push(w.tree.clone());
        }
    }
    out = out.class_if(c.same_time && states.len() >= 2, "source_snapshots_share_one_time");
    let src_files_before = w.storage.files();

    let dst = Storage::new();
    if let Err(e) = init_repo(dst.handle(), &c.dst_cfg) {
        fail!("{e}");
    }
    let selected: Vec<usize> = (0..w.live.len())
        .filter(|i| c.select == 0 || (c.select >> (i % 8)) & 1 == 1)
        .collect();
    let selected = if selected.is_empty() { (0..w.live.len()).collect() } else { selected };
    // pre-populate the destination
    let mut pre_existing_model: Vec<(SnapshotFile, Arc<Flat>)> = Vec::new();
    match c.pre {
        1 => {
            // a backup of one of the states made directly in the destination: blobs already there
            // (only identical blobs if both repositories chunk alike - either way legal)
            let st = &states[pick_idx(c.pre_sel, states.len())];
            let repo = match open_ids(&dst, &c.dst_cfg) {
                Ok(r) => r,
                Err(e) => fail!("{e}"),
            };
            match backup_tree(&repo, st, &ReadSchedule::default(), &force_opts(), snap_template(1_600_000_000, "other", "", "")) {
                Ok(s) => pre_existing_model.push((s, Arc::new(flatten(st)))),
                Err(e) => fail!("pre-populating the destination: {e}"),
            }
            out = out.class("dest_has_backup");
        }
        2 => {
            let i = pick_idx(c.pre_sel, w.live.len());
            if let Err(e) = cmds::copy_snapshots(&w.storage, &c.src_cfg, &dst, &c.dst_cfg, &[w.live[i].snap.clone()]) {
                fail!("first copy: {e}");
            }
            out = out.class("dest_has_earlier_copy");
        }
        _ => out = out.class("dest_empty"),
    }
    let dst_snaps_before: BTreeSet<_> = dst.ids(FileType::Snapshot).into_iter().collect();
    let to_copy: Vec<SnapshotFile> = selected.iter().map(|i| w.live[*i].snap.clone()).collect();
    if let Err(e) = cmds::copy_snapshots(&w.storage, &c.src_cfg, &dst, &c.dst_cfg, &to_copy) {
        fail!("{e}");
    }
    // source untouched
    if w.storage.files() != src_files_before {
        fail!("copy changed the source repository");
    }
    // every selected snapshot is in the destination and reads back as its model
    let full = match open_full(&dst, &c.dst_cfg) {
        Ok(r) => r,
        Err(e) => fail!("destination after copy: {e}"),
    };
    let all = match cmds::all_snapshots(&dst, &c.dst_cfg) {
        Ok(a) => a,
        Err(e) => fail!("destination after copy: {e}"),
    };
    let new: Vec<&SnapshotFile> = all
        .iter()
        .filter(|s| !dst_snaps_before.contains(&rustic_core::Id::new(crate::membe::id_bytes(&s.id))))
        .collect();
    if new.len() != to_copy.len() {
        fail!("{} snapshots were to be copied, the destination gained {}", to_copy.len(), new.len());
    }
    for i in &selected {
        let l = &w.live[*i];
        let Some(d) = new.iter().find(|s| s.time == l.snap.time && s.tree == l.snap.tree) else {
            fail!("copied snapshot #{i} (tree {}) not found in the destination", l.snap.tree);
        };
        let got = match read_snapshot(&full, d, true) {
            Ok(g) => g,
            Err(e) => fail!("copied snapshot #{i} cannot be read in the destination: {e}"),
        };
        if let Some(diff) = compare(&l.model, &got, &cmp_full()) {
            fail!("copied snapshot #{i} differs from the original: {diff}");
        }
    }
    for (s, m) in &pre_existing_model {
        match read_snapshot(&full, s, true) {
            Ok(got) => {
                if let Some(diff) = compare(m, &got, &cmp_full()) {
                    fail!("snapshot that was in the destination before the copy changed: {diff}");
                }
            }
            Err(e) => fail!("snapshot that was in the destination before the copy cannot be read: {e}"),
        }
    }
    match check_verdict(&full, true) {
        CheckVerdict::Errors(e) => fail!("destination after copy: {e}"),
        CheckVerdict::Inconclusive(_) => out = out.class("check_inconclusive"),
        CheckVerdict::Clean => {}
    }
    out.nontrivial = c.pre != 0 || to_copy.len() >= 2;
    out.class_if(c.src_cfg.version != c.dst_cfg.version, "version_differs")
        .class_if(c.prune_src, "source_repacked")
}

// ---------------------------------------------------------------- merge

#[derive(Debug, Clone, Copy, Serialize, Deserialize, PartialEq, Eq)]
pub enum CmpKind {
    Mtime,
    MtimeThenInode,
    Size,
}

#[derive(Debug, Clone, Serialize, Deserialize)]
pub struct MergeCase {
    pub cfg: RepoCfg,
    pub tree: MNode,
    /// each variant = base tree + edit script, backed up as its own snapshot
    pub variants: Vec<Vec<Edit>>,
    pub cmp: CmpKind,
}

fn merge_strategy(_ctx: &Ctx) -> BoxedStrategy<MergeCase> {
    repo_cfg()
        .prop_flat_map(|cfg| {
            let mut p = params(&cfg);
            p.file_cap = 60_000;
            // type changes and touches dominate: overlapping names of differing types
            let e = prop_oneof![
                3 => edit(p),
                2 => (any::<u16>(), crate::r#gen::leaf(p)).prop_map(|(s, n)| Edit::Retype(s, n)),
                2 => (any::<u16>(), crate::r#gen::mtime()).prop_map(|(s, t)| Edit::Touch(s, t)),
            ];
            (
                Just(cfg),
                tree(p),
                prop::collection::vec(prop::collection::vec(e, 0..5), 2..=4),
                prop_oneof![Just(CmpKind::Mtime), Just(CmpKind::MtimeThenInode), Just(CmpKind::Size)],
            )
        })
        .prop_map(|(cfg, tree, variants, cmp)| MergeCase { cfg, tree, variants, cmp })
        .boxed()
}

fn lib_cmp(kind: CmpKind) -> impl Fn(&Node, &Node) -> Ordering + Sync {
    move |a: &Node, b: &Node| match kind {
        CmpKind::Mtime => a.meta.mtime.cmp(&b.meta.mtime),
        CmpKind::MtimeThenInode => a.meta.mtime.cmp(&b.meta.mtime).then(a.meta.inode.cmp(&b.meta.inode)),
        CmpKind::Size => a.meta.size.cmp(&b.meta.size),
    }
}

fn model_cmp(kind: CmpKind, a: &MNode, b: &MNode) -> Ordering {
    let size = |n: &MNode| match &n.kind {
        MKind::File { content } => content.len() as u64,
        _ => 0,
    };
    match kind {
        CmpKind::Mtime => a.mtime.cmp(&b.mtime),
        CmpKind::MtimeThenInode => a.mtime.cmp(&b.mtime).then(a.inode.cmp(&b.inode)),
        CmpKind::Size => size(a).cmp(&size(b)),
    }
}

/// does the listed node `g` equal the model node `m` (ignoring children)?
fn node_matches(g: &crate::repo::GotEntry, m: &MNode) -> bool {
    let mut single = Flat::new();
    let mut leaf = m.clone();
    if let MKind::Dir { children } = &mut leaf.kind {
        children.clear();
    }
    let f = flatten(&leaf);
    let (k, e) = f.iter().next().unwrap();
    _ = single.insert(k.clone(), e.clone());
    let mut got = Got::new();
    _ = got.insert(k.clone(), g.clone());
    compare(&single, &got, &cmp_full()).is_none()
}

/// validity predicate of the merge at directory `path` whose content is the merge of `dirs`
fn check_merged_dir(path: &[u8], dirs: &[&MNode], got: &Got, kind: CmpKind, conflicts: &mut u32) -> Result<(), String> {
    let mut by_name: BTreeMap<&[u8], Vec<&MNode>> = BTreeMap::new();
    for d in dirs {
        for c in d.children() {
            by_name.entry(&c.name).or_default().push(c);
        }
    }
    // children the listing has directly under `path`
    let prefix: Vec<u8> = if path.is_empty() { Vec::new() } else { [path, b"/"].concat() };
    let listed: BTreeSet<&[u8]> = got
        .keys()
        .filter(|k| k.starts_with(&prefix) && k.len() > prefix.len() && !k[prefix.len()..].contains(&b'/'))
        .map(|k| &k[prefix.len()..])
        .collect();
    let want: BTreeSet<&[u8]> = by_name.keys().copied().collect();
    if listed != want {
        let missing: Vec<_> = want.difference(&listed).map(|n| show_path(n)).collect();
        let extra: Vec<_> = listed.difference(&want).map(|n| show_path(n)).collect();
        return Err(format!(
            "merged directory {:?}: entries are not the union of the inputs (missing {missing:?}, unexpected {extra:?})",
            show_path(path)
        ));
    }
    for (name, cands) in by_name {
        let full: Vec<u8> = [&prefix[..], name].concat();
        let g = &got[&full];
        let kinds: BTreeSet<u8> = cands
            .iter()
            .map(|c| match c.kind {
                MKind::File { .. } => 0,
                MKind::Dir { .. } => 1,
                MKind::Symlink { .. } => 2,
            })
            .collect();
        if kinds.len() > 1 {
            *conflicts += 1;
        }
        let maximal: Vec<&&MNode> = cands
            .iter()
            .filter(|c| !cands.iter().any(|o| model_cmp(kind, o, c) == Ordering::Greater))
            .collect();
        let Some(winner) = maximal.iter().find(|m| node_matches(g, m)) else {
            return Err(format!(
                "merged entry {:?} equals none of the {} candidate(s) that are maximal under the given ordering ({} candidates in total)",
                show_path(&full),
                maximal.len(),
                cands.len()
            ));
        };
        if winner.is_dir() {
            let sub: Vec<&MNode> = cands.iter().filter(|c| c.is_dir()).copied().collect();
            check_merged_dir(&full, &sub, got, kind, conflicts)?;
        }
    }
    Ok(())
}

fn run_merge(c: &MergeCase, _ctx: &Ctx) -> Outcome {
    let mut out = Outcome::pass();
    macro_rules! fail {
        ($($arg:tt)*) => {{
            out.failure = Some(format!($($arg)*));
            return out;
        }};
    }
    let storage = Storage::new();
    if let Err(e) = init_repo(storage.handle(), &c.cfg) {
        fail!("{e}");
    }
    let mut states = Vec::new();
    let mut snaps = Vec::new();
    for (i, script) in c.variants.iter().enumerate() {
        let mut t = c.tree.clone();
        for e in script {
            _ = apply_edit(&mut t, e, 100 + i as i64);
        }
        let repo = match open_ids(&storage, &c.cfg) {
            Ok(r) => r,
            Err(e) => fail!("{e}"),
        };
        match backup_tree(&repo, &t, &ReadSchedule::default(), &force_opts(), snap_template(1_700_000_000 + i as i64, "host", "", "")) {
            Ok(s) => snaps.push(s),
            Err(e) => fail!("backup of variant {i}: {e}"),
        }
        states.push(t);
    }
    let before = storage.ids(FileType::Snapshot).len();
    let merged = match cmds::merge_snapshots(&storage, &c.cfg, &snaps, &lib_cmp(c.cmp), 1_700_001_000) {
        Ok(s) => s,
        Err(e) => fail!("{e}"),
    };
    if storage.ids(FileType::Snapshot).len() != before + 1 {
        fail!("merge did not add exactly one snapshot");
    }
    let full = match open_full(&storage, &c.cfg) {
        Ok(r) => r,
        Err(e) => fail!("{e}"),
    };
    let got = match read_snapshot(&full, &merged, true) {
        Ok(g) => g,
        Err(e) => fail!("merged snapshot cannot be read: {e}"),
    };
    // the snapshot root holds the single entry "s": merge of all variants' root directories
    let roots: Vec<&MNode> = states.iter().collect();
    let mut conflicts = 0;
    // wrap: a virtual top directory whose children are the variants' roots
    let tops: Vec<MNode> = roots
        .iter()
        .map(|r| MNode {
            name: Vec::new(),
            kind: MKind::Dir { children: vec![(*r).clone()] },
            perm: 0o755,
            mtime: MTime(0, 0),
            ctime: MTime(0, 0),
            uid: 0,
            gid: 0,
            inode: 0,
            device: 0,
            links: 1,
        })
        .collect();
    let top_refs: Vec<&MNode> = tops.iter().collect();
    if let Err(e) = check_merged_dir(b"", &top_refs, &got, c.cmp, &mut conflicts) {
        fail!("{e}");
    }
    // the inputs are still intact
    for (i, (s, st)) in snaps.iter().zip(states.iter()).enumerate() {
        match read_snapshot(&full, s, true) {
            Ok(g) => {
                if let Some(d) = compare(&flatten(st), &g, &cmp_full()) {
                    fail!("input snapshot {i} changed by merge: {d}");
                }
            }
            Err(e) => fail!("input snapshot {i} unreadable after merge: {e}"),
        }
    }
    if let CheckVerdict::Errors(e) = check_verdict(&full, true) {
        fail!("after merge: {e}");
    }
    out.nontrivial = conflicts > 0;
    out.class_if(conflicts > 0, "type_conflict").class(format!("cmp_{:?}", c.cmp))
}

// ---------------------------------------------------------------- rewrite

#[derive(Debug, Clone, Serialize, Deserialize, PartialEq, Eq)]
pub enum Glob {
    /// `!/s/a/b`
    Anchored(Vec<String>),
    /// `!name`
    Basename(String),
    /// `!*.ext`
    Ext(String),
    /// `!/anchored/path` of the n-th path (in sorted order) that exists in any of the snapshots;
    /// resolved against the repository's content before the rewrite
    Pick(u16),
    /// like `Pick`, but among the paths that exist in only one of the last two snapshots (the old
    /// and new location of a moved directory); falls back to `Pick`
    PickMoved(u16),
}

impl Glob {
    fn resolve(&self, paths: &[Vec<String>], moved: &[Vec<String>]) -> Glob {
        match self {
            Glob::PickMoved(sel) if !moved.is_empty() => Glob::Anchored(moved[pick_idx(*sel, moved.len())].clone()),
            Glob::Pick(sel) | Glob::PickMoved(sel) if !paths.is_empty() => {
                Glob::Anchored(paths[pick_idx(*sel, paths.len())].clone())
            }
            Glob::Pick(_) | Glob::PickMoved(_) => Glob::Anchored(vec!["s".to_string(), "zz".to_string()]),
            g => g.clone(),
        }
    }
}

impl Glob {
    fn pattern(&self) -> String {
        match self {
            Glob::Anchored(p) => format!("!/{}", p.join("/")),
            Glob::Basename(n) => format!("!{n}"),
            Glob::Ext(e) => format!("!*.{e}"),
            Glob::Pick(_) | Glob::PickMoved(_) => unreachable!("resolved before use"),
        }
    }
    fn matches(&self, comps: &[&str]) -> bool {
        match self {
            Glob::Anchored(p) => comps.len() == p.len() && comps.iter().zip(p.iter()).all(|(a, b)| a == b),
            Glob::Basename(n) => comps.last() == Some(&n.as_str()),
            Glob::Ext(e) => comps.last().is_some_and(|l| l.ends_with(&format!(".{e}"))),
            Glob::Pick(_) | Glob::PickMoved(_) => unreachable!("resolved before use"),
        }
    }
}

#[derive(Debug, Clone, Serialize, Deserialize)]
pub struct RewriteCase {
    pub cfg: RepoCfg,
    pub tree: MNode,
    pub rounds: Vec<Vec<Edit>>,
    pub globs: Vec<Glob>,
    pub forget: bool,
    /// before the last backup, move a non-empty directory (selected by the first number) into
    /// another directory (second number) under the n-th plain name: the same tree then occurs at
    /// two different paths among the snapshots rewritten together
    #[serde(default)]
    pub relocate: Option<(u16, u16, u8)>,
}

/// base names of the matcher's domain; two of them carry a double quote, which a glob takes
/// literally but which the stored (escaped) form of a tree node name spells `\"`
const PLAIN: [&str; 8] = ["a", "b", "c", "d", "ab", "cd", "q\"q", "\"x"];

fn plain_name(old: &[u8]) -> Vec<u8> {
    let h = old.iter().fold(0u32, |a, b| a.wrapping_mul(31).wrapping_add(u32::from(*b)));
    let base = PLAIN[(h % PLAIN.len() as u32) as usize];
    let ext = ["", "", ".txt", ".log", ".tmp"][((h / 7) % 5) as usize];
    format!("{base}{ext}").into_bytes()
}

fn plain_node(n: &mut MNode, top: bool) {
    if !top {
        n.name = plain_name(&n.name);
    }
    n.links = 1;
    n.device = 0;
    if let Some(ch) = n.children_mut() {
        for c in ch {
            plain_node(c, false);
        }
    }
}

/// the same edit with every name it introduces mapped into the matcher's name domain
fn plain_edit(e: Edit) -> Edit {
    match e {
        Edit::Duplicate(a, b, n) => Edit::Duplicate(a, b, plain_name(&n)),
        Edit::Move(a, b, n) => Edit::Move(a, b, plain_name(&n)),
        Edit::Rename(a, n) => Edit::Rename(a, plain_name(&n)),
        Edit::Add(d, mut n) => {
            plain_node(&mut n, false);
            n.normalise();
            Edit::Add(d, n)
        }
        Edit::Retype(d, mut n) => {
            plain_node(&mut n, false);
            n.normalise();
            Edit::Retype(d, n)
        }
        e => e,
    }
}

/// trees with plain names: [a-d]{1,2} optionally followed by .txt/.log/.tmp
fn simple_tree(p: TreeParams) -> BoxedStrategy<MNode> {
    tree(p)
        .prop_map(|mut t| {
            fn rename(n: &mut MNode, top: bool) {
                if !top {
                    let h = n.name.iter().fold(0u32, |a, b| a.wrapping_mul(31).wrapping_add(u32::from(*b)));
                    let base = PLAIN[(h % PLAIN.len() as u32) as usize];
                    let ext = ["", "", ".txt", ".log", ".tmp"][((h / 7) % 5) as usize];
                    n.name = format!("{base}{ext}").into_bytes();
                }
                if let Some(ch) = n.children_mut() {
                    for c in ch {
                        rename(c, false);
                    }
                }
            }
            rename(&mut t, true);
            t.normalise();
            // hardlink bookkeeping is irrelevant here; make link counts consistent again
            fn unlink(n: &mut MNode) {
                n.links = 1;
                // normal form of the default node modification of rewrite (device id only kept
                // for hardlinks, like a default backup from a local source does)
                n.device = 0;
                if let Some(ch) = n.children_mut() {
                    for c in ch {
                        unlink(c);
                    }
                }
            }
            unlink(&mut t);
            t
        })
        .boxed()
}

fn rewrite_strategy(_ctx: &Ctx) -> BoxedStrategy<RewriteCase> {
    repo_cfg()
        .prop_flat_map(|cfg| {
            let mut p = params(&cfg);
            p.file_cap = 60_000;
            let name = || prop::sample::select(vec!["a", "b", "c", "d", "ab", "cd", "a.txt", "b.log", "c.tmp", "zz", "q\"q", "\"x", "q\"q.txt"]).prop_map(str::to_string);
            let glob = prop_oneof![
                2 => prop::collection::vec(name(), 0..3).prop_map(|mut v| {
                    v.insert(0, "s".to_string());
                    Glob::Anchored(v)
                }),
                3 => any::<u16>().prop_map(Glob::Pick),
                2 => any::<u16>().prop_map(Glob::PickMoved),
                2 => name().prop_map(Glob::Basename),
                2 => prop::sample::select(vec!["txt", "log", "tmp", "none"]).prop_map(|e| Glob::Ext(e.to_string())),
            ];
            (
                Just(cfg),
                simple_tree(p),
                prop::collection::vec(prop::collection::vec(edit(p).prop_map(plain_edit), 0..3), 0..3),
                prop::collection::vec(glob, 0..4),
                any::<bool>(),
                prop::option::weighted(0.4, (any::<u16>(), any::<u16>(), 0u8..6)),
            )
        })
        .prop_map(|(cfg, tree, rounds, globs, forget, relocate)| RewriteCase { cfg, tree, rounds, globs, forget, relocate })
        .boxed()
}

/// the model after removing every path matched by a glob (with descendants)
fn filter_model(model: &Flat, globs: &[Glob]) -> (Flat, usize, bool) {
    let mut removed_roots: Vec<Vec<u8>> = Vec::new();
    let mut nonleaf = false;
    for (k, e) in model {
        let s = String::from_utf8_lossy(k).into_owned();
        let comps: Vec<&str> = s.split('/').collect();
        if globs.iter().any(|g| g.matches(&comps)) {
            removed_roots.push(k.clone());
            if matches!(e.kind, FlatKind::Dir) && model.keys().any(|o| o.starts_with(&[&k[..], b"/"].concat())) {
                nonleaf = true;
            }
        }
    }
    let keep: Flat = model
        .iter()
        .filter(|(k, _)| {
            !removed_roots
                .iter()
                .any(|r| *k == r || k.starts_with(&[&r[..], b"/"].concat()))
        })
        .map(|(k, v)| {
            // the default node modification of rewrite keeps the device id only for hardlinked
            // files (the same default a backup from a local source applies)
            let mut v = v.clone();
            if v.links <= 1 || matches!(v.kind, FlatKind::Dir) {
                v.device = 0;
            }
            (k.clone(), v)
        })
        .collect();
    let n = model.len() - keep.len();
    (keep, n, nonleaf)
}

fn run_rewrite(c: &RewriteCase, _ctx: &Ctx) -> Outcome {
    let mut out = Outcome::pass();
    macro_rules! fail {
        ($($arg:tt)*) => {{
            out.failure = Some(format!($($arg)*));
            return out;
        }};
    }
    let mut w = match World::new(&c.cfg, &c.tree) {
        Ok(w) => w,
        Err(e) => fail!("{e}"),
    };
    let mut ops = vec![HOp::Backup { edits: vec![], parent: false }];
    for r in &c.rounds {
        ops.push(HOp::Backup { edits: r.clone(), parent: false });
    }
    for op in &ops {
        if let Err(e) = w.step(op) {
            fail!("building the repository: {e}");
        }
    }
    let mut relocated = false;
    if let Some((from, to, name)) = c.relocate {
        let mut t = w.tree.clone();
        let movable: Vec<Vec<usize>> = crate::r#gen::paths_where(&t, &|n| n.is_dir() && !n.children().is_empty())
            .into_iter()
            .filter(|p| !p.is_empty())
            .collect();
        if !movable.is_empty() {
            let sp = movable[pick_idx(from, movable.len())].clone();
            let (parent, idx) = (sp[..sp.len() - 1].to_vec(), sp[sp.len() - 1]);
            let mut node = crate::r#gen::node_at_mut(&mut t, &parent).children_mut().unwrap().remove(idx);
            // destinations: directories outside the moved subtree, other than its old parent
            let dests: Vec<Vec<usize>> = crate::r#gen::paths_where(&t, &|n| n.is_dir());
            let dp = dests[pick_idx(to, dests.len())].clone();
            node.name = PLAIN[usize::from(name) % PLAIN.len()].as_bytes().to_vec();
            let dest = crate::r#gen::node_at_mut(&mut t, &dp);
            if !dest.children().iter().any(|c| c.name == node.name) {
                dest.children_mut().unwrap().push(node);
                t.normalise();
                w.tree = t;
                if let Err(e) = w.step(&HOp::Backup { edits: vec![], parent: false }) {
                    fail!("building the repository: {e}");
                }
                relocated = true;
            }
        }
    }
    // edits may introduce arbitrary names again; the matcher is only defined for plain names
    let plain = w.live.iter().all(|l| {
        l.model
            .keys()
            .all(|k| k.iter().all(|b| b.is_ascii_alphanumeric() || *b == b'.' || *b == b'/' || *b == b'"'))
    });
    if !plain {
        return out.skip("names_outside_matcher_domain");
    }
    let originals: Vec<SnapshotFile> = w.live.iter().map(|l| l.snap.clone()).collect();
    // anchored excludes picked from the paths that exist in some snapshot
    let paths: Vec<Vec<String>> = {
        let mut all: BTreeSet<Vec<u8>> = BTreeSet::new();
        for l in &w.live {
            all.extend(l.model.keys().cloned());
        }
        all.iter()
            .map(|k| String::from_utf8_lossy(k).split('/').map(str::to_string).collect::<Vec<_>>())
            .filter(|p: &Vec<String>| p.len() > 1)
            .collect()
    };
    let moved: Vec<Vec<String>> = if relocated && w.live.len() >= 2 {
        let (a, b) = (&w.live[w.live.len() - 2].model, &w.live[w.live.len() - 1].model);
        a.keys()
            .filter(|k| !b.contains_key(*k))
            .chain(b.keys().filter(|k| !a.contains_key(*k)))
            .map(|k| String::from_utf8_lossy(k).split('/').map(str::to_string).collect::<Vec<_>>())
            .collect()
    } else {
        Vec::new()
    };
    let globs: Vec<Glob> = c.globs.iter().map(|g| g.resolve(&paths, &moved)).collect();
    let mut tree_opts = RewriteTreesOptions::default();
    tree_opts.excludes.globs = globs.iter().map(Glob::pattern).collect();
    let opts = RewriteOptions::default().forget(c.forget);
    let written = match cmds::rewrite(&w.storage, &c.cfg, originals.clone(), &opts, &tree_opts) {
        Ok(s) => s,
        Err(e) => fail!("{e}"),
    };
    let full = match open_full(&w.storage, &c.cfg) {
        Ok(r) => r,
        Err(e) => fail!("after rewrite: {e}"),
    };
    let all = match cmds::all_snapshots(&w.storage, &c.cfg) {
        Ok(a) => a,
        Err(e) => fail!("after rewrite: {e}"),
    };
    let orig_ids: BTreeSet<_> = originals.iter().map(|s| s.id).collect();
    let mut removed_total = 0;
    let mut nonleaf_any = false;
    for l in &w.live {
        let (want, removed, nonleaf) = filter_model(&l.model, &globs);
        removed_total += removed;
        nonleaf_any |= nonleaf;
        let still_there = all.iter().find(|s| s.id == l.snap.id);
        let rewritten = all.iter().find(|s| !orig_ids.contains(&s.id) && s.time == l.snap.time);
        // the original is untouched unless forget was requested (and something was written for it)
        if let Some(o) = still_there {
            match read_snapshot(&full, o, true) {
                Ok(g) => {
                    if let Some(d) = compare(&l.model, &g, &cmp_full()) {
                        fail!("rewrite changed an original snapshot: {d}");
                    }
                }
                Err(e) => fail!("original snapshot unreadable after rewrite: {e}"),
            }
        } else if !c.forget {
            fail!("an original snapshot disappeared although forget was not requested");
        } else if rewritten.is_none() {
            fail!("an original snapshot was removed without a rewritten replacement");
        }
        if removed > 0 && rewritten.is_none() {
            fail!("{removed} path(s) of a snapshot match the excludes but no rewritten snapshot was saved");
        }
        if let Some(r) = rewritten {
            match read_snapshot(&full, r, true) {
                Ok(g) => {
                    if let Some(d) = compare(&want, &g, &cmp_full()) {
                        fail!(
                            "rewritten snapshot is not the original minus exactly the excluded paths (excludes {:?}): {d}",
                            tree_opts.excludes.globs
                        );
                    }
                }
                Err(e) => fail!("rewritten snapshot cannot be read: {e}"),
            }
        }
    }
    let _ = written;
    if let CheckVerdict::Errors(e) = check_verdict(&full, true) {
        fail!("after rewrite: {e}");
    }
    out.nontrivial = removed_total > 0 && nonleaf_any;
    out.class_if(removed_total > 0, "something_excluded")
        .class_if(nonleaf_any, "non_leaf_removed")
        .class_if(relocated, "same_tree_at_two_paths")
        .class_if(relocated && removed_total > 0, "same_tree_at_two_paths_and_excluded")
        .class_if(
            globs.iter().any(|g| matches!(g, Glob::Anchored(p) if moved.contains(p))),
            "exclude_anchored_inside_moved_directory",
        )
        .class_if(c.forget, "forget")
}

// ---------------------------------------------------------------- repair

#[derive(Debug, Clone, Serialize, Deserialize)]
pub struct RepairCase {
    pub cfg: RepoCfg,
    pub tree: MNode,
    pub rounds: Vec<Vec<Edit>>,
    /// None = undamaged; Some((kind, selector)): 0 = remove one pack, 1 = drop one blob from the index
    pub damage: Option<(u8, u16)>,
    pub delete: bool,
}

fn repair_strategy(_ctx: &Ctx) -> BoxedStrategy<RepairCase> {
    repo_cfg()
        .prop_flat_map(|cfg| {
            let mut p = params(&cfg);
            p.file_cap = 100_000;
            (
                Just(cfg),
                tree(p),
                prop::collection::vec(prop::collection::vec(edit(p), 0..3), 0..3),
                prop::option::weighted(0.75, (0u8..2, any::<u16>())),
                any::<bool>(),
            )
        })
        .prop_map(|(cfg, tree, rounds, damage, delete)| RepairCase { cfg, tree, rounds, damage, delete })
        .boxed()
}

fn run_repair(c: &RepairCase, _ctx: &Ctx) -> Outcome {
    let mut out = Outcome::pass();
    macro_rules! fail {
        ($($arg:tt)*) => {{
            out.failure = Some(format!($($arg)*));
            return out;
        }};
    }
    let mut w = match World::new(&c.cfg, &c.tree) {
        Ok(w) => w,
        Err(e) => fail!("{e}"),
    };
    let mut ops = vec![HOp::Backup { edits: vec![], parent: false }];
    for r in &c.rounds {
        ops.push(HOp::Backup { edits: r.clone(), parent: true });
    }
    for op in &ops {
        if let Err(e) = w.step(op) {
            fail!("building the repository: {e}");
        }
    }
    let key = c.cfg.key64();
    let snaps: Vec<SnapshotFile> = w.live.iter().map(|l| l.snap.clone()).collect();
    let mut lost_blobs: BTreeSet<(BType, [u8; 32])> = BTreeSet::new();
    if let Some((kind, sel)) = c.damage {
        let view = match index_view(&w.storage, &key) {
            Ok(v) => v,
            Err(e) => fail!("{e}"),
        };
        let mut data_packs: Vec<_> = view
            .packs
            .iter()
            .filter(|(_, b)| !b.is_empty() && b.iter().all(|x| x.0 == BType::Data))
            .collect();
        if data_packs.is_empty() {
            return out.skip("no_data_pack");
        }
        // pack ids are random (nonces): order the candidates by their content instead
        data_packs.sort_by_key(|(_, b)| b.iter().map(|x| x.1).min());
        let (pid, blobs) = data_packs[pick_idx(sel, data_packs.len())];
        if kind == 0 {
            // a pack is lost; the user repairs the index first
            let deleted = w.storage.del(FileType::Pack, &to_id(pid));
            if std::env::var_os("VP_DEBUG").is_some() {
                eprintln!("victim pack {} deleted={deleted}; packs now {:?}", hex::encode(&pid[..4]), w.packs().iter().map(|p| hex::encode(&p[..4])).collect::<Vec<_>>());
            }
            if let Err(e) = cmds::repair_index(&w.storage, &c.cfg, false, false) {
                fail!("repair index after a pack loss: {e}");
            }
            // blobs of the pack that have no other copy are lost
            let view2 = match index_view(&w.storage, &key) {
                Ok(v) => v,
                Err(e) => fail!("{e}"),
            };
            lost_blobs.extend(blobs.iter().copied().filter(|b| !view2.blobs.contains_key(b)));
            out = out.class("pack_lost");
        } else {
            // one blob entry is dropped from the index (file re-encoded with the independent encoder)
            let victim = blobs[pick_idx(sel.rotate_left(7), blobs.len())];
            let mut done = false;
            for (fid, f) in &view.files {
                let mut f2 = f.clone();
                for p in &mut f2.packs {
                    let before = p.blobs.len();
                    p.blobs.retain(|b| !(b.tpe == "data" && vpcore::fmt::parse_id(&b.id) == Some(victim.1)));
                    if p.blobs.len() != before {
                        done = true;
                        // the recorded pack size keeps the pack consistent for prune/check
                        if p.size.is_none() {
                            p.size = w.storage.get(FileType::Pack, &to_id(pid)).map(|d| d.len() as u32);
                        }
                    }
                }
                if f2 != *f {
                    let json = serde_json::to_vec(&f2).unwrap();
                    let mut seed = 77 + u64::from(sel);
                    let enc = vpcore::fmt::encode_file(&key, &vpcore::fmt::next_nonce(&mut seed), &json, None);
                    _ = w.storage.del(FileType::Index, &to_id(fid));
                    w.storage.put(FileType::Index, to_id(&vpcore::fmt::sha256(&enc)), enc);
                }
            }
            if !done {
                return out.skip("blob_not_found_in_index");
            }
            // the blob may have a duplicate elsewhere; it is lost only if no index entry remains
            let view2 = index_view(&w.storage, &key).unwrap_or_default();
            if !view2.blobs.contains_key(&victim) {
                _ = lost_blobs.insert(victim);
            }
            out = out.class("index_entry_dropped");
        }
    }
    let snaps_before: BTreeSet<_> = w.storage.ids(FileType::Snapshot).into_iter().collect();
    if std::env::var_os("VP_DEBUG").is_some() {
        let v = index_view(&w.storage, &key).unwrap_or_default();
        eprintln!("lost blobs: {:?}", lost_blobs.iter().map(|b| hex::encode(&b.1[..4])).collect::<Vec<_>>());
        eprintln!("index packs after damage: {:?}", v.packs.iter().map(|(p, b)| (hex::encode(&p[..4]), b.iter().map(|x| hex::encode(&x.1[..4])).collect::<Vec<_>>())).collect::<Vec<_>>());
        eprintln!("storage packs: {:?}", w.packs().iter().map(|p| hex::encode(&p[..4])).collect::<Vec<_>>());
    }
    if let Err(e) = cmds::repair_snapshots(&w.storage, &c.cfg, snaps.clone(), c.delete, false) {
        fail!("{e}");
    }
    let snaps_after: BTreeSet<_> = w.storage.ids(FileType::Snapshot).into_iter().collect();
    if lost_blobs.is_empty() {
        if snaps_before != snaps_after {
            fail!("repairing an undamaged repository added or removed snapshot files");
        }
        out.nontrivial = c.damage.is_some();
        return out.class("undamaged");
    }
    // which files of which snapshot were hit
    let full = match open_full(&w.storage, &c.cfg) {
        Ok(r) => r,
        Err(e) => fail!("after repair: {e}"),
    };
    let all = match cmds::all_snapshots(&w.storage, &c.cfg) {
        Ok(a) => a,
        Err(e) => fail!("after repair: {e}"),
    };
    let mut hit_live_file = false;
    for l in &w.live {
        // chunks of every file of this snapshot (predicted with the reference chunker)
        let mut damaged_paths: BTreeSet<Vec<u8>> = BTreeSet::new();
        for (path, e) in l.model.iter() {
            if let FlatKind::File(bytes) = &e.kind {
                let chunks = super::c07::predicted_chunks(&c.cfg, bytes);
                if chunks.iter().any(|id| lost_blobs.contains(&(BType::Data, *id))) {
                    _ = damaged_paths.insert(path.clone());
                }
            }
        }
        hit_live_file |= !damaged_paths.is_empty();
        let repaired = all.iter().find(|s| s.original == Some(l.snap.id) && s.id != l.snap.id);
        let original_present = snaps_after.contains(&rustic_core::Id::new(crate::membe::id_bytes(&l.snap.id)));
        if damaged_paths.is_empty() {
            // snapshot not affected: must be unchanged and present
            if !original_present {
                fail!("a snapshot that lost nothing was removed by repair");
            }
            if repaired.is_some() {
                fail!("a snapshot that lost nothing was rewritten by repair");
            }
            match read_snapshot(&full, &l.snap, true) {
                Ok(g) => {
                    if let Some(d) = compare(&l.model, &g, &cmp_full()) {
                        fail!("unaffected snapshot changed: {d}");
                    }
                }
                Err(e) => fail!("unaffected snapshot unreadable after repair: {e}"),
            }
            continue;
        }
        let Some(r) = repaired else {
            fail!("a snapshot with {} damaged file(s) got no repaired replacement", damaged_paths.len());
        };
        if c.delete && original_present {
            fail!("delete was requested but the damaged original snapshot is still there");
        }
        if !c.delete && !original_present {
            fail!("the damaged original snapshot was removed although delete was off");
        }
        if std::env::var_os("VP_DEBUG").is_some() {
            for (tag, sn) in [("original", &l.snap), ("repaired", r)] {
                if let Ok(g) = read_snapshot(&full, sn, false) {
                    for (p, e) in &g {
                        eprintln!("{tag} {:?} size {} content {:?} subtree {:?}", show_path(p), e.node.meta.size, e.node.content.as_ref().map(|c| c.iter().map(|d| d.to_hex()[..8].to_string()).collect::<Vec<_>>()), e.node.subtree.map(|t| t.to_hex()[..8].to_string()));
                    }
                }
            }
        }
        let got = match read_snapshot(&full, r, true) {
            Ok(g) => g,
            Err(e) => fail!("repaired snapshot cannot be read: {e}"),
        };
        // expected: every undamaged path identical; damaged files renamed with the suffix and
        // holding only surviving chunks
        let mut want = (*l.model).clone();
        for p in &damaged_paths {
            let e = want.remove(p).unwrap();
            let FlatKind::File(bytes) = &e.kind else { unreachable!() };
            let mut surviving = Vec::new();
            let lens = chunk_lens(&c.cfg, bytes);
            let mut pos = 0;
            for l in lens {
                let chunk = &bytes[pos..pos + l];
                if !lost_blobs.contains(&(BType::Data, vpcore::fmt::sha256(chunk))) {
                    surviving.extend_from_slice(chunk);
                }
                pos += l;
            }
            let mut np = p.clone();
            np.extend_from_slice(b".repaired");
            let mut e2 = e.clone();
            e2.kind = FlatKind::File(Arc::new(surviving));
            _ = want.insert(np, e2);
        }
        if let Some(d) = compare(&want, &got, &cmp_full()) {
            fail!("repaired snapshot: {d}");
        }
    }
    // a dropped index entry leaves a gap in the pack's index entry, which check rightly reports
    if c.delete && matches!(c.damage, Some((0, _))) {
        if let CheckVerdict::Errors(e) = check_verdict(&full, true) {
            fail!("after repair with delete: {e}");
        }
    }
    out.nontrivial = hit_live_file;
    out.class_if(hit_live_file, "damage_hits_live_file")
}

fn chunk_lens(cfg: &RepoCfg, data: &[u8]) -> Vec<usize> {
    match cfg.chunker {
        crate::repo::ChunkerCfg::Fixed { size } => vpcore::chunkref::fixed_chunks(data.len(), size as usize),
        _ => {
            let (avg, min, max) = cfg.rabin_params().unwrap();
            vpcore::chunkref::ref_chunks(data, &super::c06::table(cfg.poly), avg, min, max).lens
        }
    }
}

#[allow(dead_code)]
fn _unused(_: Content, _: Piece, _: fn(&Arc<Storage>)) {
    let _ = open_repo;
}

pub fn spec() -> PropSpec {
    PropSpec {
        id: "C12",
        level: "exploration",
        rule: "four proptest generators. copy: source repository of 1–3 snapshots sharing blobs (optionally repacked by a prune) x destination configuration with another key/version/compression/pack size that is empty, already holds a backup of one of the states, or an earlier copy; any subset of snapshots. merge: 2–4 snapshots that are edit-script variants of one tree (type changes, touches, adds/removes) x comparator (mtime, mtime-then-inode, size). rewrite: 1–4 snapshots of plain-name trees (edit scripts with plain names between them; optionally a non-empty directory moved so that one tree id occurs at two paths) x 0–3 excludes of the forms !/anchored/path (fixed or picked from the existing paths), !basename, !*.ext x forget. repair: 1–3 snapshots x {undamaged, one data pack removed + repair index, one index entry dropped} x delete. Non-trivial: copy into a non-empty destination or ≥2 snapshots; merge with a name carried by different entry types; rewrite removing a non-empty directory; damage that hits a file of a live snapshot. Distinct by hash of the case.",
        assumptions: vec![
            "merge ties: any candidate that is maximal under the comparator is accepted (the library's choice among equal elements depends on heap order)",
            "rewrite is judged only for names of [A-Za-z0-9.\"] and the three exclude forms whose meaning is unambiguous",
            "a lost pack is followed by repair-index before repair-snapshots, as a user would do",
        ],
        subs: vec![
            Box::new(Sub {
                name: "copy",
                cases_quick: 150,
                cases_thorough: 5000,
                max_shrink_iters: 200,
                strategy: copy_strategy,
                run: run_copy,
            }) as Box<dyn DynSub>,
            Box::new(Sub {
                name: "merge",
                cases_quick: 150,
                cases_thorough: 5000,
                max_shrink_iters: 200,
                strategy: merge_strategy,
                run: run_merge,
            }),
            Box::new(Sub {
                name: "rewrite",
                cases_quick: 300,
                cases_thorough: 5000,
                max_shrink_iters: 200,
                strategy: rewrite_strategy,
                run: run_rewrite,
            }),
            Box::new(Sub {
                name: "repair",
                cases_quick: 150,
                cases_thorough: 5000,
                max_shrink_iters: 200,
                strategy: repair_strategy,
                run: run_repair,
            }),
        ],
        extra: None,
    }
}
