//! C19 — The local cache is transparent.
//!
//! Generated: a history of backup / forget / prune / check / snapshot lookups (`latest`, `latest~N`,
//! id prefix, full id, several ids at once) / list / dump where every operation is assigned to a
//! *cached* handle (fresh `Repository` with `cache_dir` = a per-case scratch directory, so the
//! cache persists over the history) or an *uncached* handle on the same storage (the repository
//! changes behind the cache), interleaved with *plant* operations on the cache directory: stale
//! files (valid files of ids since removed from the repository), truncated / over-long files
//! under existing ids (valid prefix, valid bytes + suffix, or other bytes of another length; never
//! same-size different content), and foreign files (non-hex names, `-tmp-` leftovers,
//! sub-directories, directories where a cache file should be, hex-named files of ids the
//! repository never had, at their canonical place or misplaced).
//!
//! Three input-side predicates of (suspected) findings: see `KEY_FULL_ID`, `KEY_MISPLACED`,
//! `KEY_GARBAGE_PACK`. `VP_ASSUME_KNOWN=<key>,<key>` (debugging only) skips matching cases.
//!
//! Oracle (differential): the same history with every operation uncached, started from a
//! byte-identical copy of the initial storage. Operation by operation the results must be equal
//! (snapshot (time, tree) instead of ids: file ids contain random nonces), and at the end the
//! logical repository content must be equal. After every operation of the cached handle that
//! listed snapshot / index files, the cache must hold no file of that type which the repository
//! does not list, and none with a different size.

use std::{
    collections::{BTreeMap, BTreeSet},
    fs,
    path::{Path, PathBuf},
    sync::Arc,
};

use bytes::Bytes;
use proptest::prelude::*;
use rustic_core::{
    BackupOptions, CheckOptions, FileType, Id, Repository, RepositoryOptions,
    repofile::{SnapshotFile, SnapshotId},
};
use serde::{Deserialize, Serialize};
use vpcore::fmt::{BType, Id32, parse_pack, sha256};

use crate::{
    engine::{Ctx, DynSub, Outcome, PropSpec, Sub, guarded, pick_idx},
    fsutil::Scratch,
    r#gen::{Edit, TreeParams, apply_edit, edit, tree},
    history::{Lim, PruneCfg, prune_cfg},
    inspect::{BlobKey, index_view, reachable, snapshot_json},
    membe::{OpKind, Storage, id_bytes, tidx},
    model::{MNode, ReadSchedule},
    repo::{
        CheckVerdict, RepoCfg, RepoOpen, backends, backup_tree, estr, force_opts, init_repo,
        read_snapshot, repo_cfg, snap_template,
    },
};

/// known finding: a snapshot addressed by its full id is read from the cache without any listing.
/// Predicate: a get-by-full-id through the cached handle for a snapshot whose cache entry went out
/// of date since the cached handle last listed snapshots (forgotten through the uncached handle,
/// or a stale / wrong-size file planted under its id).
pub const KEY_FULL_ID: &str = "full-id-lookup-trusts-cache";
/// suspected finding: a file named like an id but outside the shard directory of that id makes
/// `Cache::remove_not_in_list` fail (cleanup of stale entries is abandoned) and `check` report
/// `ErrorReadingFile`. Predicate: the history plants such a file.
pub const KEY_MISPLACED: &str = "misplaced-id-file-breaks-cache-cleanup";
/// suspected finding: a cached tree pack with a wrong size whose bytes are not the pack's bytes is
/// served by `read_partial` (only `check` compares pack sizes). Predicate: the history plants a
/// wrong-size, wrong-content file under the id of an existing pack.
pub const KEY_GARBAGE_PACK: &str = "wrong-size-pack-entry-served";

/// keys the operator asked to treat as known while debugging (same convention as C14)
fn assumed_known(key: &str) -> bool {
    std::env::var("VP_ASSUME_KNOWN")
        .map(|v| v.split(',').any(|k| k.trim() == key))
        .unwrap_or(false)
}

#[derive(Debug, Clone, Copy, PartialEq, Eq, PartialOrd, Ord, Serialize, Deserialize)]
pub enum PType {
    Snapshot,
    Index,
    Pack,
}

impl PType {
    fn ft(self) -> FileType {
        match self {
            PType::Snapshot => FileType::Snapshot,
            PType::Index => FileType::Index,
            PType::Pack => FileType::Pack,
        }
    }
    /// directory name inside the cache (written down here, not taken from the library)
    fn dirname(self) -> &'static str {
        match self {
            PType::Snapshot => "snapshots",
            PType::Index => "index",
            PType::Pack => "data",
        }
    }
    fn name(self) -> &'static str {
        match self {
            PType::Snapshot => "snapshot",
            PType::Index => "index",
            PType::Pack => "pack",
        }
    }
}

#[derive(Debug, Clone, Copy, PartialEq, Eq, Serialize, Deserialize)]
pub enum FullApi {
    /// `get_snapshot_from_str(<full id>)`
    FromStr,
    /// `get_snapshots(&[<full id>])`
    Many,
    /// `get_snapshots(&[<full id>, <12-char prefix of another snapshot>])`
    Mixed(u16),
}

#[derive(Debug, Clone, Copy, PartialEq, Eq, Serialize, Deserialize)]
pub enum SizeChange {
    /// keep `len * k / 256` bytes of the valid content
    Truncate(u8),
    /// valid content followed by this many extra bytes
    Extend(u16),
    /// this many bytes that are not the valid content (length differs from the valid one)
    Garbage(u16),
}

#[derive(Debug, Clone, Copy, PartialEq, Eq, Serialize, Deserialize)]
pub enum Foreign {
    /// files whose names are not 64 lower-case hex characters
    NonHex(u8),
    /// `<id>-tmp-` with half of the content of an existing file
    TmpLeftover(u16),
    /// 0: sub-directory with a file; 1: directory named like an id the repository never had;
    /// 2: directory exactly where the cache file of an existing id belongs
    SubDir(u8, u16),
    /// a file at the canonical place of an id the repository never had
    HexNeverHad { seed: u64, len: u16 },
    /// a file named like an id the repository never had, but not in the shard directory of that
    /// id: 0 = directly in the type directory, 1 = in the shard directory of another id
    HexMisplaced { seed: u64, place: u8 },
    /// regular files named like shard directories (`00`..`ff`) wherever the type directory has no
    /// such directory yet: the cache cannot store new entries there. 0 = all, 1 = even, 2 = odd
    ShardFiles(u8),
}

#[derive(Debug, Clone, PartialEq, Eq, Serialize, Deserialize)]
pub enum Plant {
    Stale { tpe: PType, sel: u16 },
    WrongSize { tpe: PType, sel: u16, change: SizeChange },
    Foreign { tpe: PType, kind: Foreign },
}

#[derive(Debug, Clone, PartialEq, Eq, Serialize, Deserialize)]
pub enum COp {
    Backup { edits: Vec<Edit>, parent: bool },
    /// forget snapshots selected from the live ones
    Forget { sel: Vec<u16> },
    Prune(PruneCfg),
    Check { read_data: bool, trust_cache: bool },
    /// `latest` / `latest~n`
    Latest { n: u8 },
    /// id prefix of `len` hex characters of a snapshot ever created (live or forgotten)
    Prefix { sel: u16, len: u8, many: bool },
    /// full id of a snapshot ever created (live or forgotten)
    Full { sel: u16, api: FullApi },
    List,
    /// list a live snapshot and dump one of its files
    Dump { snap: u16, file: u16 },
    Plant(Plant),
}

#[derive(Debug, Clone, PartialEq, Eq, Serialize, Deserialize)]
pub struct Step {
    /// through the cached handle (ignored for plants; the reference run ignores it always)
    pub cached: bool,
    pub op: COp,
}

#[derive(Debug, Clone, Serialize, Deserialize)]
pub struct Case {
    pub cfg: RepoCfg,
    pub tree: MNode,
    pub ops: Vec<Step>,
}

// ---------------------------------------------------------------------------------------------
// generator

fn complete(p: &PruneCfg) -> bool {
    matches!(p.max_unused, Lim::Pct(0) | Lim::Size(0))
        && p.max_repack == Lim::Unlimited
        && !p.keep_pack_1h
        && p.repack_cacheable_only != Some(true)
}

fn ptype() -> BoxedStrategy<PType> {
    prop_oneof![3 => Just(PType::Snapshot), 2 => Just(PType::Index), 2 => Just(PType::Pack)].boxed()
}

fn plant() -> BoxedStrategy<Plant> {
    let foreign = prop_oneof![
        1 => (any::<u64>(), 0u8..2).prop_map(|(seed, place)| Foreign::HexMisplaced { seed, place }),
        2 => (0u8..6).prop_map(Foreign::NonHex),
        2 => any::<u16>().prop_map(Foreign::TmpLeftover),
        3 => (0u8..3, any::<u16>()).prop_map(|(v, s)| Foreign::SubDir(v, s)),
        3 => (any::<u64>(), 0u16..600).prop_map(|(seed, len)| Foreign::HexNeverHad { seed, len }),
        2 => (0u8..3).prop_map(Foreign::ShardFiles),
    ];
    prop_oneof![
        3 => (ptype(), any::<u16>()).prop_map(|(tpe, sel)| Plant::Stale { tpe, sel }),
        4 => (
            ptype(),
            any::<u16>(),
            prop_oneof![
                3 => any::<u8>().prop_map(SizeChange::Truncate),
                3 => (1u16..400).prop_map(SizeChange::Extend),
                2 => (0u16..3000).prop_map(SizeChange::Garbage),
            ]
        )
            .prop_map(|(tpe, sel, change)| {
                // A wrong-size cache entry of a tree pack whose BYTES are foreign as well is content
                // corruption, which the statement does not cover (like same-size different-content
                // entries): for packs only truncated / extended copies of the real file are planted.
                let change = match (tpe, change) {
                    (PType::Pack, SizeChange::Garbage(n)) => SizeChange::Extend(n.clamp(1, 399)),
                    (_, c) => c,
                };
                Plant::WrongSize { tpe, sel, change }
            }),
        3 => (ptype(), foreign).prop_map(|(tpe, kind)| Plant::Foreign { tpe, kind }),
    ]
    .boxed()
}

fn step(p: TreeParams) -> BoxedStrategy<Step> {
    let with = |w: f64, op: BoxedStrategy<COp>| {
        (prop::bool::weighted(w), op)
            .prop_map(|(cached, op)| Step { cached, op })
            .boxed()
    };
    let prune = (prune_cfg(), prop::bool::weighted(0.6)).prop_map(|(mut c, force)| {
        if force {
            c.max_unused = Lim::Pct(0);
            c.max_repack = Lim::Unlimited;
            c.keep_pack_1h = false;
            c.repack_cacheable_only = None;
        }
        COp::Prune(c)
    });
    let api = prop_oneof![
        3 => Just(FullApi::FromStr),
        3 => Just(FullApi::Many),
        1 => any::<u16>().prop_map(FullApi::Mixed),
    ];
    prop_oneof![
        4 => with(0.5, (prop::collection::vec(edit(p), 0..3), any::<bool>())
            .prop_map(|(edits, parent)| COp::Backup { edits, parent }).boxed()),
        3 => with(0.4, prop::collection::vec(any::<u16>(), 1..3).prop_map(|sel| COp::Forget { sel }).boxed()),
        3 => with(0.5, prune.boxed()),
        2 => with(0.8, (prop::bool::weighted(0.3), any::<bool>())
            .prop_map(|(read_data, trust_cache)| COp::Check { read_data, trust_cache }).boxed()),
        2 => with(0.85, (0u8..3).prop_map(|n| COp::Latest { n }).boxed()),
        2 => with(0.85, (any::<u16>(), 8u8..=40, any::<bool>())
            .prop_map(|(sel, len, many)| COp::Prefix { sel, len, many }).boxed()),
        4 => with(0.85, (any::<u16>(), api).prop_map(|(sel, api)| COp::Full { sel, api }).boxed()),
        2 => with(0.85, Just(COp::List).boxed()),
        2 => with(0.85, (any::<u16>(), any::<u16>()).prop_map(|(snap, file)| COp::Dump { snap, file }).boxed()),
        6 => with(0.5, plant().prop_map(COp::Plant).boxed()),
    ]
    .boxed()
}

fn strategy(ctx: &Ctx) -> BoxedStrategy<Case> {
    let len = if ctx.tier.is_thorough() { 18 } else { 11 };
    repo_cfg()
        .prop_flat_map(move |cfg| {
            let mut p = super::c07::params(&cfg);
            p.file_cap = 60_000;
            // half of the histories start with a churn that fills the set of removed files
            // (snapshot, index and pack files) early: backup, forget the first snapshot, prune
            let churn = prop_oneof![
                1 => Just(None),
                1 => (prop::collection::vec(edit(p), 1..3), any::<bool>(), any::<bool>(), any::<bool>()).prop_map(Some),
            ];
            (Just(cfg), tree(p), churn, prop::collection::vec(step(p), 3..=len))
        })
        .prop_map(|(cfg, tree, churn, mut ops)| {
            if let Some((edits, c1, c2, c3)) = churn {
                let pre = vec![
                    Step { cached: c1, op: COp::Backup { edits, parent: false } },
                    Step { cached: c2, op: COp::Forget { sel: vec![0] } },
                    Step { cached: c3, op: COp::Prune(PruneCfg::aggressive()) },
                ];
                ops.splice(0..0, pre);
            }
            Case { cfg, tree, ops }
        })
        .boxed()
}

// ---------------------------------------------------------------------------------------------
// input-side plan: which snapshot (by ordinal of creation) every operation addresses, and the
// predicate of the known finding. Nothing here looks at the library's output.

#[derive(Debug, Clone, Default)]
struct Resolved {
    /// snapshot ordinals addressed by the operation
    ords: Vec<usize>,
    /// this operation matches the input-side predicate of KEY_FULL_ID
    known_hit: bool,
}

fn lists_snapshots(op: &COp) -> bool {
    match op {
        COp::Prune(_) | COp::Check { .. } | COp::Latest { .. } | COp::Prefix { .. } | COp::List | COp::Dump { .. } => true,
        COp::Full { api, .. } => matches!(api, FullApi::Mixed(_)),
        COp::Backup { .. } | COp::Forget { .. } | COp::Plant(_) => false,
    }
}

fn plan(c: &Case) -> (Vec<Resolved>, bool) {
    // ordinal 0 = the initial backup (through the cached handle)
    let mut created = 1usize;
    let mut live: Vec<usize> = vec![0];
    let mut forgotten: Vec<usize> = Vec::new();
    // snapshots whose file may be in the cache (over-approximation)
    let mut in_cache: BTreeSet<usize> = [0].into();
    // snapshots whose cache entry went out of date since the cached handle last listed snapshots
    let mut dirty: BTreeSet<usize> = BTreeSet::new();
    let mut out = Vec::new();
    let mut known = false;
    for s in &c.ops {
        let mut r = Resolved::default();
        let cached = s.cached;
        // (a dump without a live snapshot does nothing)
        let does_nothing = matches!(s.op, COp::Dump { .. }) && live.is_empty();
        if cached && lists_snapshots(&s.op) && !does_nothing {
            dirty.clear();
            in_cache.retain(|o| live.contains(o));
        }
        match &s.op {
            COp::Backup { .. } => {
                r.ords.push(created);
                live.push(created);
                if cached {
                    in_cache.extend(live.iter().copied());
                }
                created += 1;
            }
            COp::Forget { sel } => {
                for x in sel {
                    if live.is_empty() {
                        break;
                    }
                    let o = live.remove(pick_idx(*x, live.len()));
                    forgotten.push(o);
                    r.ords.push(o);
                    if cached {
                        _ = dirty.remove(&o);
                        _ = in_cache.remove(&o);
                    } else if in_cache.contains(&o) {
                        _ = dirty.insert(o);
                    }
                }
            }
            COp::Prune(_) | COp::Check { .. } | COp::Latest { .. } | COp::List => {
                if cached {
                    in_cache.extend(live.iter().copied());
                }
            }
            COp::Prefix { sel, .. } => {
                let o = pick_idx(*sel, created);
                r.ords.push(o);
                if cached && live.contains(&o) {
                    _ = in_cache.insert(o);
                }
            }
            COp::Full { sel, api } => {
                let o = pick_idx(*sel, created);
                r.ords.push(o);
                if let FullApi::Mixed(o2) = api {
                    r.ords.push(pick_idx(*o2, created));
                }
                if cached {
                    if !matches!(api, FullApi::Mixed(_)) && dirty.contains(&o) {
                        r.known_hit = true;
                        known = true;
                    }
                    for o in &r.ords {
                        if live.contains(o) {
                            _ = in_cache.insert(*o);
                        }
                    }
                }
            }
            COp::Dump { snap, .. } => {
                if !live.is_empty() {
                    let o = live[pick_idx(*snap, live.len())];
                    r.ords.push(o);
                    if cached {
                        _ = in_cache.insert(o);
                    }
                }
            }
            COp::Plant(p) => match p {
                Plant::Stale { tpe: PType::Snapshot, sel } => {
                    if !forgotten.is_empty() {
                        let o = forgotten[pick_idx(*sel, forgotten.len())];
                        r.ords.push(o);
                        _ = dirty.insert(o);
                        _ = in_cache.insert(o);
                    }
                }
                Plant::WrongSize { tpe: PType::Snapshot, sel, .. } => {
                    if !live.is_empty() {
                        let o = live[pick_idx(*sel, live.len())];
                        r.ords.push(o);
                        _ = dirty.insert(o);
                        _ = in_cache.insert(o);
                    }
                }
                _ => {}
            },
        }
        out.push(r);
    }
    (out, known)
}

// ---------------------------------------------------------------------------------------------
// interpreter

#[derive(Debug, Clone)]
struct Snap {
    id: SnapshotId,
    #[allow(dead_code)]
    time: i64,
    tree: String,
}

/// result of one operation: `shape` is compared between the two runs, `detail` is not
#[derive(Debug, Clone)]
struct Res {
    shape: String,
    detail: String,
    inconclusive: bool,
    /// for plants: something was written
    planted: bool,
}

impl Res {
    fn shape(s: impl Into<String>) -> Self {
        Self { shape: s.into(), detail: String::new(), inconclusive: false, planted: false }
    }
    fn err(detail: impl Into<String>) -> Self {
        Self { shape: "error".into(), detail: detail.into(), inconclusive: false, planted: false }
    }
    fn noop() -> Self {
        Self::shape("noop")
    }
}

fn hex_of(id: &Id) -> String {
    id.to_hex().as_str().to_string()
}

fn snap_shape(s: &SnapshotFile) -> String {
    format!("(t={} tree={})", s.time.timestamp().as_second(), hex_of(&s.tree))
}

fn h16(b: &[u8]) -> String {
    hex::encode(&sha256(b)[..8])
}

struct Run {
    cfg: RepoCfg,
    storage: Arc<Storage>,
    /// Some = the mixed run (cached handle available); None = reference run, everything uncached
    cache: Option<PathBuf>,
    tree: MNode,
    clock: i64,
    tick: i64,
    /// by ordinal; None = the backup failed
    snaps: Vec<Option<Snap>>,
    /// files that were removed from the repository during the history (mixed run only)
    grave: BTreeMap<(u8, Id), Bytes>,
}

impl Run {
    fn repo_id_hex(&self) -> String {
        hex_of(&self.cfg.config_file().id)
    }

    fn cache_root(&self) -> Option<PathBuf> {
        self.cache.as_ref().map(|c| c.join(self.repo_id_hex()))
    }

    fn open(&self, cached: bool) -> Result<RepoOpen, String> {
        let opts = match (&self.cache, cached) {
            (Some(dir), true) => RepositoryOptions::default().cache_dir(dir.clone()),
            _ => RepositoryOptions::default().no_cache(true),
        };
        let repo = Repository::new(&opts, &backends(self.storage.handle()))
            .map_err(|e| estr(&e))?
            .open(&self.cfg.credentials())
            .map_err(|e| format!("open: {}", estr(&e)))?;
        if cached {
            if let Some(root) = self.cache_root() {
                if !root.is_dir() {
                    return Err("HARNESS: the cached handle did not create its cache directory".into());
                }
            }
        }
        Ok(repo)
    }

    fn snap(&self, ord: usize) -> Option<&Snap> {
        self.snaps.get(ord).and_then(|s| s.as_ref())
    }

    fn exec(&mut self, step: &Step, r: &Resolved) -> Res {
        let cached = step.cached && self.cache.is_some();
        match &step.op {
            COp::Backup { edits, parent } => {
                self.tick += 1;
                for e in edits {
                    _ = apply_edit(&mut self.tree, e, self.tick);
                }
                self.clock += 100;
                let t = self.clock;
                let opts: BackupOptions = if *parent { BackupOptions::default() } else { force_opts() };
                let res = guarded(|| -> Result<SnapshotFile, String> {
                    let repo = self
                        .open(cached)?
                        .to_indexed_ids()
                        .map_err(|e| format!("to_indexed_ids: {}", estr(&e)))?;
                    backup_tree(&repo, &self.tree, &ReadSchedule::default(), &opts, snap_template(t, "host", "", ""))
                });
                match res {
                    Ok(Ok(s)) => {
                        let sn = Snap { id: s.id, time: t, tree: hex_of(&s.tree) };
                        let shape = format!("ok tree={}", sn.tree);
                        self.snaps.push(Some(sn));
                        Res::shape(shape)
                    }
                    Ok(Err(e)) => {
                        self.snaps.push(None);
                        Res::err(e)
                    }
                    Err(p) => {
                        self.snaps.push(None);
                        Res::err(format!("panic: {p}"))
                    }
                }
            }
            COp::Forget { .. } => {
                let ids: Vec<SnapshotId> = r.ords.iter().filter_map(|o| self.snap(*o)).map(|s| s.id).collect();
                if ids.is_empty() {
                    return Res::noop();
                }
                self.unit(cached, |repo| {
                    repo.delete_snapshots(&ids)
                        .map_err(|e| format!("delete_snapshots: {}", estr(&e)))
                })
            }
            COp::Prune(p) => {
                let opts = p.options(&self.cfg);
                self.unit(cached, |repo| {
                    let plan = repo.prune_plan(&opts).map_err(|e| format!("prune_plan: {}", estr(&e)))?;
                    repo.prune(&opts, plan).map_err(|e| format!("prune: {}", estr(&e)))
                })
            }
            COp::Check { read_data, trust_cache } => match self.open(cached) {
                Err(e) => Res::err(e),
                Ok(repo) => match check_v(&repo, *read_data, *trust_cache) {
                    CheckVerdict::Clean => Res::shape("check clean"),
                    CheckVerdict::Errors(e) => Res { detail: e, ..Res::shape("check errors") },
                    CheckVerdict::Inconclusive(e) => Res { inconclusive: true, detail: e, ..Res::shape("check ?") },
                },
            },
            COp::Latest { n } => {
                let s = if *n == 0 { "latest".to_string() } else { format!("latest~{n}") };
                self.lookup(cached, move |repo| repo.get_snapshot_from_str(&s, |_| true).map(|s| vec![s]))
            }
            COp::Prefix { len, many, .. } => {
                let Some(sn) = r.ords.first().and_then(|o| self.snap(*o)) else {
                    return Res::noop();
                };
                let pre = hex_of(&sn.id)[..usize::from(*len)].to_string();
                let many = *many;
                self.lookup(cached, move |repo| {
                    if many {
                        repo.get_snapshots(&[pre])
                    } else {
                        repo.get_snapshot_from_str(&pre, |_| true).map(|s| vec![s])
                    }
                })
            }
            COp::Full { api, .. } => {
                let Some(sn) = r.ords.first().and_then(|o| self.snap(*o)) else {
                    return Res::noop();
                };
                let full = hex_of(&sn.id);
                match api {
                    FullApi::FromStr => {
                        self.lookup(cached, move |repo| repo.get_snapshot_from_str(&full, |_| true).map(|s| vec![s]))
                    }
                    FullApi::Many => self.lookup(cached, move |repo| repo.get_snapshots(&[full])),
                    FullApi::Mixed(_) => {
                        let Some(other) = r.ords.get(1).and_then(|o| self.snap(*o)) else {
                            return Res::noop();
                        };
                        let pre = hex_of(&other.id)[..12].to_string();
                        self.lookup(cached, move |repo| repo.get_snapshots(&[full, pre]))
                    }
                }
            }
            COp::List => self.lookup(cached, |repo| {
                repo.get_all_snapshots().map(|mut v| {
                    v.sort_by_key(|s| (s.time.timestamp().as_second(), hex_of(&s.tree)));
                    v
                })
            }),
            COp::Dump { file, .. } => {
                let Some(sn) = r.ords.first().and_then(|o| self.snap(*o)) else {
                    return Res::noop();
                };
                let pre = hex_of(&sn.id)[..16].to_string();
                let file = *file;
                let res = guarded(|| -> Result<String, String> {
                    let repo = self
                        .open(cached)?
                        .to_indexed()
                        .map_err(|e| format!("to_indexed: {}", estr(&e)))?;
                    let snap = repo
                        .get_snapshot_from_str(&pre, |_| true)
                        .map_err(|e| format!("get snapshot: {}", estr(&e)))?;
                    let got = read_snapshot(&repo, &snap, false)?;
                    let mut listing = Vec::new();
                    for (p, e) in &got {
                        listing.extend_from_slice(p);
                        listing.push(0);
                        listing.extend_from_slice(&serde_json::to_vec(&e.node).map_err(|e| e.to_string())?);
                        listing.push(0);
                    }
                    let files: Vec<_> = got.iter().filter(|(_, e)| e.node.is_file()).collect();
                    let mut shape = format!("dump {} entries={} ls={}", snap_shape(&snap), got.len(), h16(&listing));
                    if !files.is_empty() {
                        let (p, e) = files[pick_idx(file, files.len())];
                        let mut buf = Vec::new();
                        repo.dump(&e.node, &mut buf).map_err(|e| format!("dump: {}", estr(&e)))?;
                        shape.push_str(&format!(" file={} len={} bytes={}", h16(p), buf.len(), h16(&buf)));
                    }
                    Ok(shape)
                });
                match res {
                    Ok(Ok(s)) => Res::shape(s),
                    Ok(Err(e)) => Res::err(e),
                    Err(p) => Res::err(format!("panic: {p}")),
                }
            }
            COp::Plant(p) => {
                if self.cache.is_none() {
                    return Res::noop();
                }
                match self.plant(p, r) {
                    Some(what) => Res { planted: true, detail: what, ..Res::noop() },
                    None => Res::noop(),
                }
            }
        }
    }

    fn unit(&self, cached: bool, f: impl FnOnce(&RepoOpen) -> Result<(), String>) -> Res {
        match guarded(|| f(&self.open(cached)?)) {
            Ok(Ok(())) => Res::shape("ok"),
            Ok(Err(e)) => Res::err(e),
            Err(p) => Res::err(format!("panic: {p}")),
        }
    }

    fn lookup(
        &self,
        cached: bool,
        f: impl FnOnce(&RepoOpen) -> Result<Vec<SnapshotFile>, Box<rustic_core::RusticError>>,
    ) -> Res {
        let r = guarded(|| -> Result<Vec<SnapshotFile>, String> {
            let repo = self.open(cached)?;
            f(&repo).map_err(|e| estr(&e))
        });
        match r {
            Ok(Ok(v)) => Res::shape(format!("found [{}]", v.iter().map(snap_shape).collect::<Vec<_>>().join(" "))),
            Ok(Err(e)) if e.starts_with("HARNESS") => Res::shape(e),
            Ok(Err(e)) => Res { detail: e, ..Res::shape("not found") },
            Err(p) => Res::err(format!("panic: {p}")),
        }
    }

    // ----- plants ---------------------------------------------------------------------------

    fn canonical(&self, tpe: PType, id: &Id) -> PathBuf {
        let h = hex_of(id);
        self.cache_root().expect("cache").join(tpe.dirname()).join(&h[..2]).join(&h)
    }

    /// existing files of a type; for packs, tree packs first (only those are ever cached)
    fn existing(&self, tpe: PType) -> Vec<Id> {
        let ids = self.storage.ids(tpe.ft());
        if tpe != PType::Pack {
            return ids;
        }
        let key = self.cfg.key64();
        let (mut trees, mut rest): (Vec<Id>, Vec<Id>) = (Vec::new(), Vec::new());
        for id in ids {
            let is_tree = self
                .storage
                .get(FileType::Pack, &id)
                .and_then(|raw| parse_pack(&key, &raw).ok())
                .is_some_and(|pi| !pi.entries.is_empty() && pi.entries.iter().all(|e| e.tpe == BType::Tree));
            if is_tree { trees.push(id) } else { rest.push(id) }
        }
        if trees.is_empty() { rest } else { trees }
    }

    fn write(path: &Path, data: &[u8]) -> bool {
        if let Some(parent) = path.parent() {
            if fs::create_dir_all(parent).is_err() {
                return false;
            }
        }
        if path.is_dir() {
            return false;
        }
        fs::write(path, data).is_ok()
    }

    /// returns a description if something was planted
    fn plant(&self, p: &Plant, r: &Resolved) -> Option<String> {
        let root = self.cache_root()?;
        match p {
            Plant::Stale { tpe, sel } => {
                let (id, data) = if *tpe == PType::Snapshot {
                    let sn = r.ords.first().and_then(|o| self.snap(*o))?;
                    let id: Id = *sn.id;
                    // only if it really is gone from the repository
                    if self.storage.get(FileType::Snapshot, &id).is_some() {
                        return None;
                    }
                    (id, self.grave.get(&(tidx(FileType::Snapshot), id))?.clone())
                } else {
                    let t = tidx(tpe.ft());
                    let cands: Vec<_> = self
                        .grave
                        .iter()
                        .filter(|((ft, id), _)| *ft == t && self.storage.get(tpe.ft(), id).is_none())
                        .collect();
                    if cands.is_empty() {
                        return None;
                    }
                    let ((_, id), data) = cands[pick_idx(*sel, cands.len())];
                    (*id, data.clone())
                };
                Self::write(&self.canonical(*tpe, &id), &data)
                    .then(|| format!("stale {} file {}", tpe.name(), &hex_of(&id)[..8]))
            }
            Plant::WrongSize { tpe, sel, change } => {
                let id: Id = if *tpe == PType::Snapshot {
                    *r.ords.first().and_then(|o| self.snap(*o))?.id
                } else {
                    let ids = self.existing(*tpe);
                    if ids.is_empty() {
                        return None;
                    }
                    ids[pick_idx(*sel, ids.len())]
                };
                let valid = self.storage.get(tpe.ft(), &id)?;
                let data: Vec<u8> = match change {
                    SizeChange::Truncate(k) => valid[..valid.len() * usize::from(*k) / 256].to_vec(),
                    SizeChange::Extend(n) => {
                        let mut v = valid.to_vec();
                        v.extend((0..*n).map(|i| (i as u8) ^ 0xA5));
                        v
                    }
                    SizeChange::Garbage(n) => (0..*n).map(|i| (i as u8).wrapping_mul(7) ^ 0x3C).collect(),
                };
                if data.len() == valid.len() {
                    return None;
                }
                Self::write(&self.canonical(*tpe, &id), &data).then(|| {
                    format!("{} file {} with {} instead of {} bytes", tpe.name(), &hex_of(&id)[..8], data.len(), valid.len())
                })
            }
            Plant::Foreign { tpe, kind } => {
                let dir = root.join(tpe.dirname());
                let made_up = |seed: u64| -> Id { Id::new(sha256(&seed.to_le_bytes())) };
                match kind {
                    Foreign::NonHex(v) => {
                        let path = match v {
                            0 => dir.join("README.txt"),
                            1 => dir.join("ab").join("notes"),
                            2 => dir.join("ab").join("g".repeat(64)),
                            3 => dir.join("ab").join("AB".repeat(32)),
                            4 => dir.join("cd").join("cd".repeat(32)[..63].to_string()),
                            _ => dir.join("cd").join(format!("{}0", "cd".repeat(32))),
                        };
                        Self::write(&path, b"not a cache file").then(|| format!("foreign file {}", path.display()))
                    }
                    Foreign::TmpLeftover(sel) => {
                        let ids = self.existing(*tpe);
                        let (id, data) = if ids.is_empty() {
                            (made_up(u64::from(*sel)), Bytes::from_static(b"partial"))
                        } else {
                            let id = ids[pick_idx(*sel, ids.len())];
                            let d = self.storage.get(tpe.ft(), &id)?;
                            (id, d.slice(..d.len() / 2))
                        };
                        let mut path = self.canonical(*tpe, &id).into_os_string();
                        path.push("-tmp-");
                        let path = PathBuf::from(path);
                        Self::write(&path, &data).then(|| format!("tmp leftover {}", path.display()))
                    }
                    Foreign::SubDir(v, sel) => {
                        let path = match v {
                            0 => {
                                let d = dir.join("ab").join("subdir");
                                return (fs::create_dir_all(&d).is_ok() && Self::write(&d.join("x"), b"x"))
                                    .then(|| format!("sub-directory {}", d.display()));
                            }
                            1 => self.canonical(*tpe, &made_up(u64::from(*sel) | 1 << 40)),
                            _ => {
                                let ids = self.existing(*tpe);
                                if ids.is_empty() {
                                    return None;
                                }
                                self.canonical(*tpe, &ids[pick_idx(*sel, ids.len())])
                            }
                        };
                        if path.exists() {
                            return None;
                        }
                        fs::create_dir_all(&path).is_ok().then(|| format!("directory at {}", path.display()))
                    }
                    Foreign::HexNeverHad { seed, len } => {
                        let id = made_up(*seed);
                        if self.storage.get(tpe.ft(), &id).is_some() {
                            return None;
                        }
                        let data: Vec<u8> = (0..*len).map(|i| (i as u8).wrapping_mul(31) ^ (*seed as u8)).collect();
                        Self::write(&self.canonical(*tpe, &id), &data)
                            .then(|| format!("{} file of an unknown id {}", tpe.name(), &hex_of(&id)[..8]))
                    }
                    Foreign::HexMisplaced { seed, place } => {
                        let id = made_up(*seed);
                        let h = hex_of(&id);
                        let path = if *place == 0 {
                            dir.join(&h)
                        } else {
                            // the shard of another id
                            let other = format!("{:02x}", id_bytes(&id)[0] ^ 0x80);
                            dir.join(other).join(&h)
                        };
                        Self::write(&path, b"misplaced").then(|| format!("misplaced file {}", path.display()))
                    }
                    Foreign::ShardFiles(which) => {
                        if fs::create_dir_all(&dir).is_err() {
                            return None;
                        }
                        let mut n = 0;
                        for b in 0u16..256 {
                            if (*which == 1 && b % 2 == 1) || (*which == 2 && b % 2 == 0) {
                                continue;
                            }
                            let path = dir.join(format!("{b:02x}"));
                            if !path.exists() && Self::write(&path, b"not a directory") {
                                n += 1;
                            }
                        }
                        (n > 0).then(|| format!("{n} regular files named like shard directories in {}", dir.display()))
                    }
                }
            }
        }
    }

    /// files at their canonical place in the cache: (id, size)
    fn cache_files(&self, tpe: PType) -> Vec<(Id32, u64)> {
        let mut out = Vec::new();
        let Some(root) = self.cache_root() else { return out };
        let Ok(shards) = fs::read_dir(root.join(tpe.dirname())) else { return out };
        let is_hex = |s: &str| s.bytes().all(|b| b.is_ascii_digit() || (b'a'..=b'f').contains(&b));
        for sh in shards.flatten() {
            let shn = sh.file_name();
            let Some(shn) = shn.to_str() else { continue };
            if shn.len() != 2 || !is_hex(shn) {
                continue;
            }
            let Ok(files) = fs::read_dir(sh.path()) else { continue };
            for f in files.flatten() {
                let name = f.file_name();
                let Some(name) = name.to_str() else { continue };
                if name.len() != 64 || !is_hex(name) || !name.starts_with(shn) {
                    continue;
                }
                let Ok(md) = fs::symlink_metadata(f.path()) else { continue };
                if !md.is_file() {
                    continue;
                }
                let mut id = [0u8; 32];
                if hex::decode_to_slice(name, &mut id).is_ok() {
                    out.push((id, md.len()));
                }
            }
        }
        out.sort();
        out
    }

    /// the statement's second sentence, for one file type
    fn cache_subset_of_repo(&self, tpe: PType) -> Result<(), String> {
        let have: BTreeMap<Id32, u64> = self
            .storage
            .ids(tpe.ft())
            .iter()
            .map(|id| (id_bytes(id), self.storage.get(tpe.ft(), id).map_or(0, |d| d.len() as u64)))
            .collect();
        for (id, size) in self.cache_files(tpe) {
            match have.get(&id) {
                None => {
                    return Err(format!(
                        "the cache still holds {} file {} which the repository does not list",
                        tpe.name(),
                        &hex::encode(id)[..8]
                    ));
                }
                Some(s) if *s != size => {
                    return Err(format!(
                        "the cache holds {} file {} with {size} bytes, the repository's has {s}",
                        tpe.name(),
                        &hex::encode(id)[..8]
                    ));
                }
                _ => {}
            }
        }
        Ok(())
    }
}

/// `check` with the cache-related option; same retry rule as `repo::check_verdict`
fn check_v(repo: &RepoOpen, read_data: bool, trust_cache: bool) -> CheckVerdict {
    let run = || {
        guarded(|| {
            let opts = CheckOptions::default().read_data(read_data).trust_cache(trust_cache);
            match repo.check(opts) {
                Err(e) => Err(format!("check returned an error: {}", estr(&e))),
                Ok(res) => {
                    if res.is_ok().is_err() {
                        let errs: Vec<String> = res
                            .0
                            .iter()
                            .filter(|e| format!("{:?}", e.0) == "Error")
                            .map(|e| format!("{:?}", e.1))
                            .take(4)
                            .collect();
                        Err(format!("check reports errors: {errs:?}"))
                    } else {
                        Ok(())
                    }
                }
            }
        })
    };
    let mut last = String::new();
    for attempt in 0..5 {
        match run() {
            Ok(Ok(())) => return CheckVerdict::Clean,
            Ok(Err(e)) => return CheckVerdict::Errors(e),
            Err(p) if p.contains("index still in use") => {
                last = p;
                std::thread::sleep(std::time::Duration::from_millis(40 * (attempt + 1)));
            }
            Err(p) => return CheckVerdict::Errors(format!("check panicked: {p}")),
        }
    }
    CheckVerdict::Inconclusive(last)
}

// ---------------------------------------------------------------------------------------------
// logical content of a repository, read with the independent decoder

#[derive(Debug, PartialEq, Eq)]
struct Logical {
    /// (time, tree) of every snapshot file
    snaps: BTreeSet<(String, String)>,
    indexed: BTreeSet<BlobKey>,
    reachable: BTreeSet<BlobKey>,
}

fn logical(storage: &Arc<Storage>, cfg: &RepoCfg) -> Result<Logical, String> {
    let key = cfg.key64();
    let view = index_view(storage, &key)?;
    let mut snaps = BTreeSet::new();
    let mut reach = BTreeSet::new();
    for id in storage.ids(FileType::Snapshot) {
        let v = snapshot_json(storage, &key, &id).map_err(|e| format!("snapshot {id:?}: {e}"))?;
        let time = v["time"].as_str().unwrap_or("").to_string();
        let tree = v["tree"].as_str().unwrap_or("").to_string();
        let root = vpcore::fmt::parse_id(&tree).ok_or("snapshot without a tree id")?;
        reach.extend(reachable(storage, &key, &view, &root).map_err(|e| format!("snapshot {}: {e}", &hex_of(&id)[..8]))?);
        _ = snaps.insert((time, tree));
    }
    let packs: BTreeSet<Id32> = storage.ids(FileType::Pack).iter().map(id_bytes).collect();
    for b in &reach {
        match view.blobs.get(b) {
            None => return Err(format!("{} blob {} of a snapshot is not indexed", b.0.as_str(), &hex::encode(b.1)[..8])),
            Some(ps) if !ps.iter().any(|p| packs.contains(p)) => {
                return Err(format!("{} blob {} of a snapshot is in no existing pack", b.0.as_str(), &hex::encode(b.1)[..8]));
            }
            _ => {}
        }
    }
    Ok(Logical {
        snaps,
        indexed: view.blobs.keys().copied().collect(),
        reachable: reach,
    })
}

// ---------------------------------------------------------------------------------------------

fn op_name(op: &COp) -> &'static str {
    match op {
        COp::Backup { .. } => "backup",
        COp::Forget { .. } => "forget",
        COp::Prune(_) => "prune",
        COp::Check { .. } => "check",
        COp::Latest { .. } => "get-latest",
        COp::Prefix { .. } => "get-by-prefix",
        COp::Full { api: FullApi::Mixed(_), .. } => "get-by-full-id-and-prefix",
        COp::Full { .. } => "get-by-full-id",
        COp::List => "list",
        COp::Dump { .. } => "dump",
        COp::Plant(Plant::Stale { .. }) => "plant-stale",
        COp::Plant(Plant::WrongSize { .. }) => "plant-wrong-size",
        COp::Plant(Plant::Foreign { .. }) => "plant-foreign",
    }
}

fn mutating(op: &COp) -> bool {
    matches!(op, COp::Backup { .. } | COp::Forget { .. } | COp::Prune(_))
}

/// would this operation of the cached handle look at a planted file of this type? (by the kind
/// of operation; used only for the non-triviality rule)
fn touches(op: &COp, r: &Resolved, tpe: PType, plant: &Plant, plant_ords: &[usize]) -> bool {
    match tpe {
        PType::Snapshot => {
            lists_snapshots(op)
                || matches!(op, COp::Backup { parent: true, .. })
                || matches!(op, COp::Full { .. } if r.ords.first().is_some_and(|o| plant_ords.contains(o)))
        }
        PType::Index => matches!(op, COp::Backup { .. } | COp::Prune(_) | COp::Check { .. } | COp::Dump { .. }),
        PType::Pack => {
            matches!(op, COp::Check { .. })
                || (matches!(plant, Plant::WrongSize { .. })
                    && matches!(op, COp::Prune(_) | COp::Dump { .. } | COp::Backup { parent: true, .. }))
        }
    }
}

pub fn run(c: &Case, ctx: &Ctx) -> Outcome {
    let mut note = String::new();
    let mut o = run_inner(c, ctx, &mut note);
    if let Some(f) = &mut o.failure {
        f.push_str(&note);
    }
    o
}

fn run_inner(c: &Case, ctx: &Ctx, key_note: &mut String) -> Outcome {
    let (resolved, known) = plan(c);
    let mut out = Outcome::pass();
    let mut keys: Vec<&'static str> = Vec::new();
    if known {
        keys.push(KEY_FULL_ID);
    }
    if c.ops.iter().any(|s| matches!(s.op, COp::Plant(Plant::Foreign { kind: Foreign::HexMisplaced { .. }, .. }))) {
        keys.push(KEY_MISPLACED);
    }
    if c.ops.iter().any(|s| {
        matches!(s.op, COp::Plant(Plant::WrongSize { tpe: PType::Pack, change: SizeChange::Garbage(_), .. }))
    }) {
        keys.push(KEY_GARBAGE_PACK);
    }
    // report the first key that is listed as known, else the first matching one
    if let Some(k) = keys.iter().copied().find(|k| ctx.is_known(k)).or_else(|| keys.first().copied()) {
        out = out.known(k);
    }
    if !ctx.strict {
        if let Some(k) = keys.iter().find(|k| assumed_known(k)) {
            return out.skip(format!("assumed-known:{k}"));
        }
    }
    if !keys.is_empty() {
        *key_note = format!(" [case matches the input-side predicate(s): {}]", keys.join(", "));
    }
    for s in &c.ops {
        let how = if matches!(s.op, COp::Plant(_)) { "" } else if s.cached { "_cached" } else { "_uncached" };
        out = out.class(format!("op_{}{how}", op_name(&s.op)));
    }

    // initial state: init + one backup through the cached handle, then a byte-identical fork
    let scratch = Scratch::new("c19");
    let storage = Storage::new();
    match init_repo(storage.handle(), &c.cfg) {
        Ok(r) => drop(r),
        Err(e) => return out.skip(format!("init failed: {}", first_words(&e))),
    }
    let mut a = Run {
        cfg: c.cfg.clone(),
        storage,
        cache: Some(scratch.path().join("cache")),
        tree: c.tree.clone(),
        clock: 1_700_000_000,
        tick: 1000,
        snaps: Vec::new(),
        grave: BTreeMap::new(),
    };
    let first = Step { cached: true, op: COp::Backup { edits: vec![], parent: false } };
    let r0 = a.exec(&first, &Resolved::default());
    if a.snap(0).is_none() {
        return out.skip(format!("initial backup failed: {}", first_words(&r0.detail)));
    }
    let mut b = Run {
        cfg: c.cfg.clone(),
        storage: a.storage.fork(),
        cache: None,
        tree: a.tree.clone(),
        clock: a.clock,
        tick: a.tick,
        snaps: a.snaps.clone(),
        grave: BTreeMap::new(),
    };

    let mut changed_behind = false;
    let mut cached_after_change = 0u64;
    // effective plants not yet looked at: (type, plant, ordinals)
    let mut pending: Vec<(PType, Plant, Vec<usize>)> = Vec::new();
    let mut plants_touched = 0u64;
    let mut plants_done = 0u64;
    let mut all_prunes_complete = true;

    for (i, (step, r)) in c.ops.iter().zip(&resolved).enumerate() {
        let name = op_name(&step.op);
        let before = a.storage.files();
        a.storage.log.clear();
        b.storage.log.clear();
        let ra = a.exec(step, r);
        let log = a.storage.log.snapshot();
        for (k, v) in &before {
            if k.0 != 0 && a.storage.get(crate::membe::tfrom(k.0), &k.1).is_none() {
                _ = a.grave.insert(*k, v.clone());
            }
        }
        let reference = Step { cached: false, op: step.op.clone() };
        let rb = b.exec(&reference, r);

        if ra.shape.starts_with("HARNESS") {
            return Outcome { failure: Some(ra.shape), ..out };
        }
        if ra.inconclusive || rb.inconclusive {
            return out.skip("check inconclusive (index hand-back race)");
        }
        if let COp::Prune(p) = &step.op {
            all_prunes_complete &= complete(p);
        }
        // bookkeeping for the non-triviality rule and the histogram
        if let COp::Plant(p) = &step.op {
            if ra.planted {
                plants_done += 1;
                let tpe = match p {
                    Plant::Stale { tpe, .. } | Plant::WrongSize { tpe, .. } | Plant::Foreign { tpe, .. } => *tpe,
                };
                pending.push((tpe, p.clone(), r.ords.clone()));
                out = out.class(format!("planted_{}_{}", &name[6..], tpe.name()));
            } else {
                out = out.class("plant_without_effect");
            }
        } else if step.cached {
            if changed_behind {
                cached_after_change += 1;
            }
            let n = pending.len();
            pending.retain(|(tpe, p, ords)| !touches(&step.op, r, *tpe, p, ords));
            plants_touched += (n - pending.len()) as u64;
        } else if mutating(&step.op) && ra.shape != "noop" {
            changed_behind = true;
        }

        if ra.shape != rb.shape {
            let which = if matches!(step.op, COp::Plant(_)) { "" } else if step.cached { " through the cached handle" } else { " through the uncached handle" };
            let msg = format!(
                "op #{i} {name}{which}: result differs from the all-uncached reference run: `{}` vs reference `{}`{}{}{}",
                ra.shape,
                rb.shape,
                if r.known_hit { " [full id of a snapshot whose cache entry went out of date behind the cache]" } else { "" },
                if ra.detail.is_empty() { String::new() } else { format!("; mixed run: {}", first_words(&ra.detail)) },
                if rb.detail.is_empty() { String::new() } else { format!("; reference: {}", first_words(&rb.detail)) },
            );
            return Outcome { failure: Some(msg), ..out };
        }

        // after a listing through the cached handle: cache ⊆ repository, sizes equal
        if step.cached && !matches!(step.op, COp::Plant(_)) {
            for tpe in [PType::Snapshot, PType::Index] {
                let listed = log.iter().any(|o| o.kind == OpKind::List && o.tpe == tpe.ft() && o.ok);
                if listed {
                    out = out.class(format!("listed_{}_cached", tpe.name()));
                    if let Err(e) = a.cache_subset_of_repo(tpe) {
                        return Outcome {
                            failure: Some(format!("after op #{i} {name} through the cached handle, which listed the {} files: {e}", tpe.name())),
                            ..out
                        };
                    }
                }
            }
        }
    }

    out.nontrivial = cached_after_change > 0 || plants_touched > 0;
    out = out
        .class_if(cached_after_change > 0, "cached_op_after_change_behind_cache")
        .class_if(plants_touched > 0, "planted_file_then_touched")
        .class_if(known, "matches_full_id_predicate")
        .count("plants_effective", plants_done)
        .count("plants_touched", plants_touched)
        .count("cached_ops_after_change_behind", cached_after_change);

    // final logical content
    let lb = match logical(&b.storage, &c.cfg) {
        Ok(l) => l,
        Err(e) => return out.skip(format!("reference run ends inconsistent: {}", first_words(&e))),
    };
    let la = match logical(&a.storage, &c.cfg) {
        Ok(l) => l,
        Err(e) => {
            return Outcome {
                failure: Some(format!("the repository of the mixed cached/uncached run ends inconsistent (the reference is fine): {e}")),
                ..out
            };
        }
    };
    if la.snaps != lb.snaps {
        return Outcome {
            failure: Some(format!("final snapshot sets (time, tree) differ: mixed run {:?}, reference {:?}", la.snaps, lb.snaps)),
            ..out
        };
    }
    if la.reachable != lb.reachable {
        return Outcome { failure: Some("final reachable blob sets differ".into()), ..out };
    }
    if all_prunes_complete {
        out = out.class("indexed_set_compared_exactly");
        if la.indexed != lb.indexed {
            let only_a = la.indexed.difference(&lb.indexed).count();
            let only_b = lb.indexed.difference(&la.indexed).count();
            return Outcome {
                failure: Some(format!("final indexed blob sets differ: {only_a} blobs only in the mixed run, {only_b} only in the reference")),
                ..out
            };
        }
    }
    // final verdict of an uncached check on both
    let va = a.open(false).map(|r| check_v(&r, false, false));
    let vb = b.open(false).map(|r| check_v(&r, false, false));
    match (va, vb) {
        (Ok(CheckVerdict::Errors(e)), Ok(CheckVerdict::Clean)) => Outcome {
            failure: Some(format!("final check: errors in the repository of the mixed run, reference clean: {e}")),
            ..out
        },
        _ => out,
    }
}

fn first_words(s: &str) -> String {
    let l = s.lines().next().unwrap_or("");
    let mut cut = l.len().min(300);
    while !l.is_char_boundary(cut) {
        cut -= 1;
    }
    l[..cut].to_string()
}

pub fn spec() -> PropSpec {
    PropSpec {
        id: "C19",
        level: "exploration",
        rule: "proptest: configuration x source tree x history of 3–11 (quick) / 3–18 (thorough) steps after an initial backup through the cached handle; half of the histories start with a churn (backup, forget the first snapshot, aggressive prune; each through a generated handle) so that removed snapshot/index/pack files exist early. Steps: backup of the edited source (with/without parent), forget of live snapshots, prune (generated options; 60 % forced to max-unused 0 / unlimited repack), check (read-data, trust-cache), snapshot lookup by `latest`/`latest~N`, by id prefix (8–40 hex chars; both lookup APIs), by full id (get_snapshot_from_str, get_snapshots, get_snapshots mixed with a prefix), list all, list + dump a file of a live snapshot; every step is assigned to the cached handle (fresh Repository, cache_dir = per-case scratch dir) or the uncached handle on the same storage. Plant steps write into the cache directory: stale files (valid bytes of snapshot/index/pack files removed earlier in the history), wrong-size files under existing ids (tree packs for packs): truncated (k/256 of the valid bytes), over-long (valid bytes + 1–399 bytes), other bytes of another length (0–2999); foreign files: non-hex / upper-case / 63- and 65-char names, `<id>-tmp-` leftovers, sub-directories, a directory where a cache file belongs, files under ids the repository never had (at their canonical place, directly in the type directory, or in another id's shard directory). Reference = same history all uncached from a byte-identical fork of the initial storage. Non-trivial = at least one step through the cached handle after a mutating step through the uncached handle, or at least one effective plant followed by a step of the cached handle of a kind that lists or reads that file type; distinct by hash of the case.",
        assumptions: vec![
            "results are compared by (snapshot time, tree id), found/not-found, sorted listings, hashes of ls output and dumped bytes, check verdict clean/errors: file ids contain random nonces and differ between the two runs",
            "the indexed blob set is compared exactly only if every prune of the history removes all unused blobs (max-unused 0, unlimited repack, no keep-pack); otherwise which unused blobs survive depends on pack ids; the reachable sets and reachable ⊆ indexed ⊆ existing packs are always compared",
            "id prefixes have at least 8 hex characters so that ambiguity does not depend on the random ids",
            "same-size different-content cache files are not planted (outside the statement); wrong-size files are a prefix of the valid bytes, the valid bytes plus a suffix, or other bytes of a different length",
            "cache ⊆ repository is judged for files at their canonical place <type dir>/<2 hex>/<64 hex> after every step of the cached handle during which the storage logged a listing of that type",
            "a persistent index hand-back race of check is counted as skipped, not judged",
        ],
        subs: vec![Box::new(Sub {
            name: "history",
            cases_quick: 250,
            cases_thorough: 8000,
            max_shrink_iters: 300,
            strategy,
            run,
        }) as Box<dyn DynSub>],
        extra: None,
    }
}
