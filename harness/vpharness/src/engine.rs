//! The one engine all properties share: sharded, seeded proptest runners, shrinking to a replay
//! file, known-finding handling, evidence output, watchdog and panic capture.

use std::{
    any::Any,
    cell::RefCell,
    collections::{BTreeMap, HashSet},
    hash::{Hash, Hasher},
    panic::{AssertUnwindSafe, catch_unwind},
    path::{Path, PathBuf},
    sync::{
        Arc, Mutex,
        atomic::{AtomicBool, AtomicU64, AtomicUsize, Ordering},
    },
    time::{Duration, Instant},
};

use proptest::{
    strategy::{BoxedStrategy, Strategy},
    test_runner::{Config, RngSeed, TestCaseError, TestError, TestRunner},
};
use serde::{Deserialize, Serialize, de::DeserializeOwned};
use serde_json::{Value, json};

pub const VERIF_ROOT: &str = "/verif";

#[derive(Debug, Clone, Copy, PartialEq, Eq)]
pub enum Tier {
    Quick,
    Thorough,
}

impl Tier {
    pub fn name(self) -> &'static str {
        match self {
            Tier::Quick => "quick",
            Tier::Thorough => "thorough",
        }
    }
    /// pick the case count for this tier
    pub fn pick(self, quick: u32, thorough: u32) -> u32 {
        match self {
            Tier::Quick => quick,
            Tier::Thorough => thorough,
        }
    }
    pub fn is_thorough(self) -> bool {
        self == Tier::Thorough
    }
}

#[derive(Debug, Clone, Serialize, Deserialize)]
pub struct KnownFinding {
    pub property: String,
    pub key: String,
    /// "known" or "fixed"
    pub status: String,
    /// replay file relative to /verif
    #[serde(default)]
    pub witness: Option<String>,
    pub what: String,
    #[serde(default)]
    pub commit: Option<String>,
}

#[derive(Debug, Clone, Default)]
pub struct KnownFindings(pub Vec<KnownFinding>);

impl KnownFindings {
    pub fn load() -> Self {
        let p = Path::new(VERIF_ROOT).join("known_findings.json");
        match std::fs::read(&p) {
            Ok(b) => Self(serde_json::from_slice(&b).expect("known_findings.json must parse")),
            Err(_) => Self::default(),
        }
    }
    pub fn is_known(&self, prop: &str, key: &str) -> bool {
        self.0
            .iter()
            .any(|k| k.property == prop && k.key == key && k.status == "known")
    }
}

#[derive(Clone)]
pub struct Ctx {
    pub prop: &'static str,
    pub seed: u64,
    pub tier: Tier,
    pub known: Arc<KnownFindings>,
    /// replay mode: nothing is excluded, the case is judged as it is
    pub strict: bool,
}

impl Ctx {
    pub fn is_known(&self, key: &str) -> bool {
        !self.strict && self.known.is_known(self.prop, key)
    }
}

#[derive(Debug, Clone, Default)]
pub struct Outcome {
    /// None = held
    pub failure: Option<String>,
    pub nontrivial: bool,
    /// labels for the generator-distribution histogram
    pub classes: Vec<String>,
    /// the case matches the input-side predicate of this finding key; if the key is listed as
    /// known, the case is not judged
    pub known_key: Option<String>,
    /// the case could not be judged (precondition of the statement not met); counted
    pub skipped: Option<String>,
    /// extra counters merged into evidence
    pub counters: Vec<(String, u64)>,
}

impl Outcome {
    pub fn pass() -> Self {
        Self::default()
    }
    pub fn fail(msg: impl Into<String>) -> Self {
        Self {
            failure: Some(msg.into()),
            ..Self::default()
        }
    }
    pub fn nontrivial(mut self, b: bool) -> Self {
        self.nontrivial = b;
        self
    }
    pub fn class(mut self, c: impl Into<String>) -> Self {
        self.classes.push(c.into());
        self
    }
    pub fn class_if(mut self, cond: bool, c: impl Into<String>) -> Self {
        if cond {
            self.classes.push(c.into());
        }
        self
    }
    pub fn known(mut self, key: impl Into<String>) -> Self {
        self.known_key = Some(key.into());
        self
    }
    pub fn skip(mut self, why: impl Into<String>) -> Self {
        self.skipped = Some(why.into());
        self
    }
    pub fn count(mut self, k: impl Into<String>, n: u64) -> Self {
        self.counters.push((k.into(), n));
        self
    }
}

/// A check over generated cases of one type
pub struct Sub<C> {
    pub name: &'static str,
    pub cases_quick: u32,
    pub cases_thorough: u32,
    /// upper bound on shrink iterations (expensive cases: keep small)
    pub max_shrink_iters: u32,
    pub strategy: fn(&Ctx) -> BoxedStrategy<C>,
    pub run: fn(&C, &Ctx) -> Outcome,
}

pub trait DynSub: Send + Sync {
    fn name(&self) -> &'static str;
    fn run_generated(&self, ctx: &Ctx, watch: &Watchdog) -> SubReport;
    /// worker side: run the given shards sequentially in this process
    fn run_shards(&self, ctx: &Ctx, watch: &Watchdog, shards: &[(u32, u32)]) -> SubReport;
    fn replay(&self, ctx: &Ctx, case: &Value) -> Result<Outcome, String>;
}

#[derive(Debug, Default, Clone, Serialize, Deserialize)]
pub struct SubReport {
    pub name: String,
    pub evaluations: u64,
    pub nontrivial_hashes: HashSet<u64>,
    pub classes: BTreeMap<String, u64>,
    pub counters: BTreeMap<String, u64>,
    pub excluded: BTreeMap<String, u64>,
    pub skipped: BTreeMap<String, u64>,
    pub panics: u64,
    pub samples: Vec<Value>,
    /// (message, shrunk case)
    pub violations: Vec<(String, Value)>,
    pub rejected: u64,
    #[serde(default)]
    pub worker_failures: u64,
    #[serde(default)]
    pub lib_panics: u64,
    #[serde(default)]
    pub panic_log: Vec<String>,
}

thread_local! {
    static LAST_PANIC: RefCell<Option<String>> = const { RefCell::new(None) };
}
static PANIC_COUNT: AtomicU64 = AtomicU64::new(0);
static PANIC_LOG: Mutex<Vec<String>> = Mutex::new(Vec::new());

pub fn install_panic_hook() {
    std::panic::set_hook(Box::new(|info| {
        let msg = format!("{info}");
        PANIC_COUNT.fetch_add(1, Ordering::SeqCst);
        LAST_PANIC.with(|l| *l.borrow_mut() = Some(msg.clone()));
        let mut log = PANIC_LOG.lock().unwrap();
        if log.len() < 50 {
            log.push(format!(
                "[{}] {}",
                std::thread::current().name().unwrap_or("?"),
                msg
            ));
        }
        if std::env::var_os("VP_SHOW_PANICS").is_some() {
            eprintln!("panic: {msg}");
        }
    }));
}

pub fn panic_count() -> u64 {
    PANIC_COUNT.load(Ordering::SeqCst)
}

pub fn panic_log() -> Vec<String> {
    PANIC_LOG.lock().unwrap().clone()
}

/// Run `f`, turning a panic on this thread into `Err(message)`
pub fn guarded<R>(f: impl FnOnce() -> R) -> Result<R, String> {
    LAST_PANIC.with(|l| *l.borrow_mut() = None);
    match catch_unwind(AssertUnwindSafe(f)) {
        Ok(r) => Ok(r),
        Err(payload) => Err(LAST_PANIC
            .with(|l| l.borrow_mut().take())
            .unwrap_or_else(|| payload_msg(&*payload))),
    }
}

fn payload_msg(p: &(dyn Any + Send)) -> String {
    if let Some(s) = p.downcast_ref::<&str>() {
        (*s).to_string()
    } else if let Some(s) = p.downcast_ref::<String>() {
        s.clone()
    } else {
        "panic with non-string payload".to_string()
    }
}

/// Per-case watchdog: a hang becomes exit code 2 ("inconclusive"), never a violation.
pub struct Watchdog {
    slots: Mutex<BTreeMap<usize, (Instant, String)>>,
    next: AtomicUsize,
    limit: Duration,
    prop: &'static str,
}

impl Watchdog {
    pub fn start(prop: &'static str, tier: Tier) -> Arc<Self> {
        // C10 and C13 cases enumerate / repeat whole command runs: one case is long by design
        let long = matches!(prop, "C10" | "C13");
        let limit = match tier {
            Tier::Quick => Duration::from_secs(if long { 600 } else { 300 }),
            Tier::Thorough => Duration::from_secs(if long { 3600 } else { 900 }),
        };
        let w = Arc::new(Self {
            slots: Mutex::new(BTreeMap::new()),
            next: AtomicUsize::new(0),
            limit,
            prop,
        });
        let w2 = w.clone();
        _ = std::thread::Builder::new()
            .name("watchdog".into())
            .spawn(move || {
                loop {
                    std::thread::sleep(Duration::from_millis(500));
                    let slots = w2.slots.lock().unwrap();
                    for (start, case) in slots.values() {
                        if start.elapsed() > w2.limit {
                            let dir = Path::new(VERIF_ROOT).join("found").join(w2.prop);
                            _ = std::fs::create_dir_all(&dir);
                            let p = dir.join("hang.json");
                            _ = std::fs::write(&p, case);
                            println!(
                                "INCONCLUSIVE property={} a case exceeded the watchdog limit of {:?}; saved to {}",
                                w2.prop,
                                w2.limit,
                                p.display()
                            );
                            std::process::exit(2);
                        }
                    }
                }
            });
        w
    }
    pub fn enter(&self, case: impl FnOnce() -> String) -> usize {
        let id = self.next.fetch_add(1, Ordering::SeqCst);
        let entry = (Instant::now(), case());
        // (the string's heap buffer stays where it is while it sits in the map)
        CRASH_CASE_LEN.store(entry.1.len(), Ordering::SeqCst);
        CRASH_CASE_PTR.store(entry.1.as_ptr().cast_mut(), Ordering::SeqCst);
        _ = self.slots.lock().unwrap().insert(id, entry);
        id
    }
    pub fn leave(&self, id: usize) {
        CRASH_CASE_PTR.store(std::ptr::null_mut(), Ordering::SeqCst);
        _ = self.slots.lock().unwrap().remove(&id);
    }
}

pub fn mix(seed: u64, prop: &str, sub: &str, shard: u32) -> [u8; 32] {
    let mut h = std::collections::hash_map::DefaultHasher::new();
    // DefaultHasher::new() uses fixed keys: deterministic across runs
    seed.hash(&mut h);
    prop.hash(&mut h);
    sub.hash(&mut h);
    shard.hash(&mut h);
    let a = h.finish();
    let mut out = [0u8; 32];
    let mut z = a;
    for chunk in out.chunks_mut(8) {
        z = crate::model::splitmix(z);
        chunk.copy_from_slice(&z.to_le_bytes());
    }
    out
}

fn json_hash(v: &str) -> u64 {
    let mut h = std::collections::hash_map::DefaultHasher::new();
    v.hash(&mut h);
    h.finish()
}

fn sample_value(s: &str) -> Value {
    const LIMIT: usize = 6000;
    if s.len() <= LIMIT {
        serde_json::from_str(s).unwrap_or(Value::String(s.to_string()))
    } else {
        let mut cut = LIMIT;
        while !s.is_char_boundary(cut) {
            cut -= 1;
        }
        json!({ "truncated_json": format!("{}…", &s[..cut]), "full_length": s.len() })
    }
}

pub fn threads() -> usize {
    std::env::var("VP_THREADS")
        .ok()
        .and_then(|s| s.parse().ok())
        .unwrap_or_else(|| {
            std::thread::available_parallelism()
                .map(|n| n.get())
                .unwrap_or(8)
                .min(16)
        })
}

impl<C> DynSub for Sub<C>
where
    C: Serialize + DeserializeOwned + std::fmt::Debug + Clone + Send + 'static,
{
    fn name(&self) -> &'static str {
        self.name
    }

    fn replay(&self, ctx: &Ctx, case: &Value) -> Result<Outcome, String> {
        let c: C = serde_json::from_value(case.clone())
            .map_err(|e| format!("replay case does not parse for sub {}: {e}", self.name))?;
        let run = self.run;
        Ok(match guarded(|| run(&c, ctx)) {
            Ok(o) => o,
            Err(p) => Outcome::fail(format!("harness-level panic: {p}")),
        })
    }

    fn run_shards(&self, ctx: &Ctx, watch: &Watchdog, shards: &[(u32, u32)]) -> SubReport {
        let mut report = SubReport {
            name: self.name.to_string(),
            ..SubReport::default()
        };
        for (shard, cases) in shards {
            let r = self.run_shard(ctx, watch, *shard, *cases);
            merge_report(&mut report, r);
        }
        report
    }

    fn run_generated(&self, ctx: &Ctx, _watch: &Watchdog) -> SubReport {
        let total = std::env::var("VP_CASES")
            .ok()
            .and_then(|s| s.parse().ok())
            .unwrap_or_else(|| ctx.tier.pick(self.cases_quick, self.cases_thorough));
        let mut report = SubReport {
            name: self.name.to_string(),
            ..SubReport::default()
        };
        if total == 0 {
            return report;
        }
        // shards are a function of the case count only, never of the machine
        let shards: u32 = if total >= 64 { 64 } else { total.min(8).max(1) };
        let per = total / shards;
        let extra = total % shards;
        let plan: Vec<(u32, u32)> = (0..shards)
            .map(|s| (s, per + u32::from(s < extra)))
            .filter(|(_, c)| *c > 0)
            .collect();
        // Worker *processes*, not threads: every end-to-end case makes the library spawn ~150
        // short-lived threads, and thread stack map/unmap in one big process costs a TLB
        // shootdown on every core. Separate address spaces make that local and also isolate the
        // library's global state (rayon pool) per worker.
        let nworkers = threads().min(plan.len());
        let exe = std::env::current_exe().expect("own path");
        let mut children = Vec::new();
        for w in 0..nworkers {
            let mine: Vec<String> = plan
                .iter()
                .skip(w)
                .step_by(nworkers)
                .map(|(s, c)| format!("{s}:{c}"))
                .collect();
            let child = std::process::Command::new(&exe)
                .arg("worker")
                .arg(ctx.prop)
                .arg(self.name)
                .arg(ctx.tier.name())
                .arg(ctx.seed.to_string())
                .arg(mine.join(","))
                // C13 varies the pool size over its worker processes
                .env(
                    "RAYON_NUM_THREADS",
                    std::env::var("RAYON_NUM_THREADS").unwrap_or_else(|_| {
                        if ctx.prop == "C13" {
                            ["1", "2", "4", "16"][w % 4].into()
                        } else {
                            "4".into()
                        }
                    }),
                )
                .stdin(std::process::Stdio::null())
                .stdout(std::process::Stdio::piped())
                .stderr(std::process::Stdio::inherit())
                .spawn()
                .expect("spawn worker");
            children.push(child);
        }
        for child in children {
            let pid = child.id();
            let outp = child.wait_with_output().expect("worker output");
            let text = String::from_utf8_lossy(&outp.stdout);
            let mut got = false;
            for line in text.lines() {
                if let Some(js) = line.strip_prefix("REPORT ") {
                    match serde_json::from_str::<SubReport>(js) {
                        Ok(r) => {
                            merge_report(&mut report, r);
                            got = true;
                        }
                        Err(e) => println!("INCONCLUSIVE property={} worker report unreadable: {e}", ctx.prop),
                    }
                } else if !line.is_empty() {
                    println!("{line}");
                }
            }
            let sig = std::os::unix::process::ExitStatusExt::signal(&outp.status);
            let crash = crash_file(ctx.prop, pid);
            if let (false, Some(sig), Ok(case)) = (got, sig.filter(|s| CRASH_SIGNALS.contains(s)), std::fs::read_to_string(&crash)) {
                // the library took the whole worker process down: that is the outcome of the case
                _ = std::fs::remove_file(&crash);
                let v = serde_json::from_str::<Value>(&case).unwrap_or(Value::String(case));
                let v = v.get("case").cloned().unwrap_or(v);
                report.violations.push((
                    format!("the library crashed the worker process (signal {sig}: abort / fatal signal) while running this case; the other cases of that worker were not run"),
                    v,
                ));
                report.worker_failures += 1;
                continue;
            }
            _ = std::fs::remove_file(&crash);
            if !got {
                println!(
                    "INCONCLUSIVE property={} sub={} a worker ended without a report (status {:?})",
                    ctx.prop,
                    self.name,
                    outp.status.code()
                );
                report.rejected += 1;
                report.worker_failures += 1;
            }
        }
        report
    }
}

pub fn merge_report(report: &mut SubReport, r: SubReport) {
    report.evaluations += r.evaluations;
    report.nontrivial_hashes.extend(r.nontrivial_hashes);
    for (k, v) in r.classes {
        *report.classes.entry(k).or_default() += v;
    }
    for (k, v) in r.counters {
        *report.counters.entry(k).or_default() += v;
    }
    for (k, v) in r.excluded {
        *report.excluded.entry(k).or_default() += v;
    }
    for (k, v) in r.skipped {
        *report.skipped.entry(k).or_default() += v;
    }
    report.panics += r.panics;
    report.rejected += r.rejected;
    report.worker_failures += r.worker_failures;
    report.lib_panics += r.lib_panics;
    for l in r.panic_log {
        if report.panic_log.len() < 10 {
            report.panic_log.push(l);
        }
    }
    for s in r.samples {
        if report.samples.len() < 3 {
            report.samples.push(s);
        }
    }
    report.violations.extend(r.violations);
}

impl<C> Sub<C>
where
    C: Serialize + DeserializeOwned + std::fmt::Debug + Clone + Send + 'static,
{
    fn run_shard(&self, ctx: &Ctx, watch: &Watchdog, shard: u32, cases: u32) -> SubReport {
        let rep = RefCell::new(SubReport::default());
        let failed = AtomicBool::new(false);
        let config = Config {
            cases,
            failure_persistence: None,
            max_shrink_iters: self.max_shrink_iters,
            // shrinking stops after this much time per failing shard (ms): only the minimality of the
            // replay file depends on it, never the verdict
            max_shrink_time: 45_000,
            max_global_rejects: 1 << 20,
            rng_seed: RngSeed::Fixed(u64::from_le_bytes(
                mix(ctx.seed, ctx.prop, self.name, shard)[..8].try_into().unwrap(),
            )),
            ..Config::default()
        };
        let mut runner = TestRunner::new(config);
        let strategy = (self.strategy)(ctx);
        let run = self.run;
        let result = runner.run(&strategy, |case| {
            let js = serde_json::to_string(&case).expect("case serialises");
            let slot = watch.enter(|| {
                format!(
                    "{{\"property\":\"{}\",\"sub\":\"{}\",\"case\":{}}}",
                    ctx.prop, self.name, js
                )
            });
            let out = guarded(|| run(&case, ctx));
            watch.leave(slot);
            if std::env::var_os("VP_DEBUG_MEM").is_some() {
                // debugging aid: report cases during which the peak resident set grew a lot
                let hwm = std::fs::read_to_string("/proc/self/status")
                    .ok()
                    .and_then(|s| {
                        s.lines()
                            .find(|l| l.starts_with("VmHWM:"))
                            .and_then(|l| l.split_whitespace().nth(1).and_then(|v| v.parse::<u64>().ok()))
                    })
                    .unwrap_or(0);
                if hwm > 1_500_000 {
                    eprintln!("HEAVY peak_rss_kb={hwm} case={js}");
                    _ = std::fs::write("/proc/self/clear_refs", "5");
                }
            }
            let counting = !failed.load(Ordering::SeqCst);
            let out = match out {
                Ok(o) => o,
                Err(p) => {
                    if counting {
                        rep.borrow_mut().panics += 1;
                    }
                    Outcome::fail(format!("harness-level panic while running the case: {p}"))
                }
            };
            let excluded = out
                .known_key
                .as_ref()
                .filter(|k| ctx.is_known(k))
                .cloned();
            if counting {
                let mut r = rep.borrow_mut();
                r.evaluations += 1;
                for c in &out.classes {
                    *r.classes.entry(c.clone()).or_default() += 1;
                }
                for (k, n) in &out.counters {
                    *r.counters.entry(k.clone()).or_default() += n;
                }
                if let Some(k) = &excluded {
                    *r.excluded.entry(k.clone()).or_default() += 1;
                } else if let Some(s) = &out.skipped {
                    *r.skipped.entry(s.clone()).or_default() += 1;
                } else if out.nontrivial && out.failure.is_none() {
                    if r.nontrivial_hashes.insert(json_hash(&js)) && r.samples.len() < 2 {
                        r.samples.push(sample_value(&js));
                    }
                }
            }
            if excluded.is_some() || out.skipped.is_some() {
                return Ok(());
            }
            match out.failure {
                None => Ok(()),
                Some(msg) => {
                    failed.store(true, Ordering::SeqCst);
                    Err(TestCaseError::fail(msg))
                }
            }
        });
        let mut rep = rep.into_inner();
        match result {
            Ok(()) => {}
            Err(TestError::Fail(reason, value)) => {
                let v = serde_json::to_value(&value).expect("case serialises");
                rep.violations.push((reason.message().to_string(), v));
            }
            Err(TestError::Abort(reason)) => {
                // generator health problem: report loudly as inconclusive, never as a violation
                println!(
                    "INCONCLUSIVE property={} sub={} shard={shard}: generator aborted: {}",
                    ctx.prop,
                    self.name,
                    reason.message()
                );
                rep.rejected += 1;
            }
        }
        rep
    }
}

/// Static description of one property's check
pub struct PropSpec {
    pub id: &'static str,
    pub level: &'static str,
    pub rule: &'static str,
    pub assumptions: Vec<&'static str>,
    pub subs: Vec<Box<dyn DynSub>>,
    /// extra work after the generated subs (e.g. libFuzzer campaign in the thorough tier);
    /// returns extra coverage keys
    pub extra: Option<fn(&Ctx, &mut Vec<Violation>) -> Value>,
}

#[derive(Debug, Clone)]
pub struct Violation {
    pub sub: String,
    pub message: String,
    pub case: Value,
    pub replay_path: PathBuf,
}

#[derive(Debug, Serialize, Deserialize, Clone)]
pub struct ReplayFile {
    pub property: String,
    pub sub: String,
    pub case: Value,
    #[serde(default)]
    pub note: Option<String>,
}

fn write_found(prop: &str, sub: &str, message: &str, case: &Value) -> PathBuf {
    let dir = Path::new(VERIF_ROOT).join("found").join(prop);
    _ = std::fs::create_dir_all(&dir);
    let rf = ReplayFile {
        property: prop.to_string(),
        sub: sub.to_string(),
        case: case.clone(),
        note: Some(message.to_string()),
    };
    let body = serde_json::to_string_pretty(&rf).unwrap();
    let name = format!("{sub}-{:016x}.json", json_hash(&case.to_string()));
    let p = dir.join(name);
    _ = std::fs::write(&p, body);
    p
}

pub fn replay_dir(prop: &str) -> PathBuf {
    Path::new(VERIF_ROOT).join("replays").join(prop)
}

/// Replay one file strictly. Ok(None) = held.
pub fn replay_file(spec: &PropSpec, ctx: &Ctx, path: &Path) -> Result<Option<String>, String> {
    let body = std::fs::read(path).map_err(|e| format!("{}: {e}", path.display()))?;
    let rf: ReplayFile =
        serde_json::from_slice(&body).map_err(|e| format!("{}: {e}", path.display()))?;
    let sub = spec
        .subs
        .iter()
        .find(|s| s.name() == rf.sub)
        .ok_or_else(|| format!("{}: unknown sub {}", path.display(), rf.sub))?;
    let mut strict = ctx.clone();
    strict.strict = true;
    let out = sub.replay(&strict, &rf.case)?;
    Ok(out.failure)
}

/// worker process entry: run the listed shards of one sub and print the report
pub fn run_worker(spec: &PropSpec, sub: &str, seed: u64, tier: Tier, shards: &[(u32, u32)]) -> i32 {
    let known = Arc::new(KnownFindings::load());
    let ctx = Ctx {
        prop: spec.id,
        seed,
        tier,
        known,
        strict: false,
    };
    let watch = Watchdog::start(spec.id, tier);
    let Some(sub) = spec.subs.iter().find(|s| s.name() == sub) else {
        return 2;
    };
    let mut r = sub.run_shards(&ctx, &watch, shards);
    r.lib_panics = panic_count();
    r.panic_log = panic_log().into_iter().take(5).collect();
    println!("REPORT {}", serde_json::to_string(&r).expect("report serialises"));
    0
}

pub struct RunResult {
    pub exit: i32,
}

pub fn run_property(spec: &PropSpec, seed: u64, tier: Tier) -> RunResult {
    let start = Instant::now();
    let known = Arc::new(KnownFindings::load());
    let ctx = Ctx {
        prop: spec.id,
        seed,
        tier,
        known: known.clone(),
        strict: false,
    };
    let watch = Watchdog::start(spec.id, tier);
    let mut violations: Vec<Violation> = Vec::new();
    let mut known_lines: Vec<String> = Vec::new();
    let mut notes: Vec<String> = Vec::new();

    // 1. replay tier: committed witnesses and regression cases
    let mut replayed = 0u64;
    let mut witness_of: BTreeMap<PathBuf, &KnownFinding> = BTreeMap::new();
    for k in known.0.iter().filter(|k| k.property == spec.id) {
        if let Some(w) = &k.witness {
            _ = witness_of.insert(Path::new(VERIF_ROOT).join(w), k);
        }
    }
    let mut files: Vec<PathBuf> = std::fs::read_dir(replay_dir(spec.id))
        .map(|rd| {
            rd.filter_map(Result::ok)
                .map(|e| e.path())
                .filter(|p| p.extension().is_some_and(|e| e == "json"))
                .collect()
        })
        .unwrap_or_default();
    files.sort();
    for f in &files {
        replayed += 1;
        let slot = watch.enter(|| format!("{{\"replay\":\"{}\"}}", f.display()));
        let res = replay_file(spec, &ctx, f);
        watch.leave(slot);
        match (res, witness_of.get(f)) {
            (Err(e), _) => {
                println!("INCONCLUSIVE property={} replay file unusable: {e}", spec.id);
                notes.push(format!("unusable replay file: {e}"));
            }
            (Ok(None), Some(k)) if k.status == "known" => {
                notes.push(format!(
                    "known finding '{}' did not reproduce from its witness on this tree",
                    k.key
                ));
                println!(
                    "NOTE property={} known finding '{}' no longer reproduces from {}",
                    spec.id,
                    k.key,
                    f.display()
                );
            }
            (Ok(None), _) => {}
            (Ok(Some(msg)), Some(k)) if k.status == "known" => {
                known_lines.push(format!(
                    "KNOWN-FINDING: property={} {} [{}] ({})",
                    spec.id,
                    k.what,
                    k.key,
                    first_line(&msg)
                ));
            }
            (Ok(Some(msg)), _) => {
                let rf: ReplayFile =
                    serde_json::from_slice(&std::fs::read(f).unwrap()).unwrap();
                violations.push(Violation {
                    sub: rf.sub,
                    message: msg,
                    case: rf.case,
                    replay_path: f.clone(),
                });
            }
        }
    }

    // 2. generated tier
    let mut sub_reports = Vec::new();
    for sub in &spec.subs {
        let r = sub.run_generated(&ctx, &watch);
        for (msg, case) in &r.violations {
            let p = write_found(spec.id, sub.name(), msg, case);
            violations.push(Violation {
                sub: sub.name().to_string(),
                message: msg.clone(),
                case: case.clone(),
                replay_path: p,
            });
        }
        sub_reports.push(r);
    }

    let mut extra_cov = Value::Null;
    if let Some(extra) = spec.extra {
        extra_cov = extra(&ctx, &mut violations);
    }

    // 3. evidence
    let evaluations: u64 = sub_reports.iter().map(|r| r.evaluations).sum::<u64>() + replayed;
    let distinct: usize = sub_reports.iter().map(|r| r.nontrivial_hashes.len()).sum();
    let mut samples: Vec<Value> = Vec::new();
    for r in &sub_reports {
        for s in r.samples.iter().take(2) {
            samples.push(json!({"sub": r.name, "case": s}));
        }
    }
    if samples.is_empty() {
        samples.push(json!({"note": "no non-trivial case was generated in this run"}));
    }
    let subs_json: Vec<Value> = sub_reports
        .iter()
        .map(|r| {
            json!({
                "sub": r.name,
                "evaluations": r.evaluations,
                "distinct_nontrivial": r.nontrivial_hashes.len(),
                "classes": r.classes,
                "counters": r.counters,
                "excluded_by_known_finding": r.excluded,
                "skipped_not_judged": r.skipped,
                "harness_panics": r.panics,
                "violations": r.violations.len(),
            })
        })
        .collect();
    let wall = start.elapsed().as_secs_f64();
    let evidence = json!({
        "property_id": spec.id,
        "tier": tier.name(),
        "seed": seed,
        "level": spec.level,
        "coverage": {
            "evaluations": evaluations,
            "distinct_nontrivial": distinct,
            "rule": spec.rule,
            "samples": samples,
            "replayed_files": replayed,
            "subs": subs_json,
            "library_panics_observed_total": sub_reports.iter().map(|r| r.lib_panics).sum::<u64>() + panic_count(),
            "panic_log_head": sub_reports.iter().flat_map(|r| r.panic_log.iter().cloned()).take(10).collect::<Vec<_>>(),
            "known_findings_reported": known_lines,
            "notes": notes,
            "extra": extra_cov,
            "exhaustive": false,
        },
        "assumptions": spec.assumptions,
        "wall_s": wall,
        "violations": violations.len(),
    });
    let evdir = Path::new(VERIF_ROOT).join("evidence");
    _ = std::fs::create_dir_all(&evdir);
    std::fs::write(
        evdir.join(format!("{}.json", spec.id)),
        serde_json::to_string_pretty(&evidence).unwrap(),
    )
    .expect("write evidence");

    for l in &known_lines {
        println!("{l}");
    }
    println!(
        "property={} tier={} seed={} evaluations={} distinct_nontrivial={} violations={} wall_s={:.1}",
        spec.id,
        tier.name(),
        seed,
        evaluations,
        distinct,
        violations.len(),
        wall
    );
    for r in &sub_reports {
        println!(
            "  sub={} evaluations={} nontrivial={} excluded={:?} skipped={:?} classes={:?}",
            r.name,
            r.evaluations,
            r.nontrivial_hashes.len(),
            r.excluded,
            r.skipped,
            r.classes
        );
    }
    let worker_failures: u64 = sub_reports.iter().map(|r| r.worker_failures).sum();
    if violations.is_empty() && worker_failures > 0 {
        println!("INCONCLUSIVE property={} {} worker(s) did not finish", spec.id, worker_failures);
        return RunResult { exit: 2 };
    }
    if violations.is_empty() {
        RunResult { exit: 0 }
    } else {
        for v in &violations {
            println!(
                "VIOLATION property={} replay={}",
                spec.id,
                v.replay_path.display()
            );
            println!("  sub={} {}", v.sub, first_line(&v.message));
        }
        RunResult { exit: 1 }
    }
}

pub fn first_line(s: &str) -> String {
    let l = s.lines().next().unwrap_or("");
    if l.len() > 400 {
        let mut cut = 400;
        while !l.is_char_boundary(cut) {
            cut -= 1;
        }
        format!("{}…", &l[..cut])
    } else {
        l.to_string()
    }
}

/// monotone index mapping so that shrinking an index shrinks the choice (not `%`)
pub fn pick_idx(raw: u16, len: usize) -> usize {
    if len == 0 {
        return 0;
    }
    ((raw as usize) * len) >> 16
}

pub fn boxed<S: Strategy + 'static>(s: S) -> BoxedStrategy<S::Value> {
    s.boxed()
}

// ------------------------------------------------------------------------------------------------
// deadlock detection
// ------------------------------------------------------------------------------------------------

/// set once a command of this process was found deadlocked: its threads (and whatever they hold)
/// stay around, so later cases of this worker are not judged any more
pub static AFTER_DEADLOCK: AtomicBool = AtomicBool::new(false);
pub const SKIP_AFTER_DEADLOCK: &str = "not judged: an earlier command of this worker process is deadlocked";
const QUIET: Duration = Duration::from_secs(60);
const QUIET_CPU: f64 = 0.25;

/// user + system CPU seconds of this process
fn cpu_time() -> f64 {
    // SAFETY: plain out-parameter call on a zeroed struct
    let mut ru: libc::rusage = unsafe { std::mem::zeroed() };
    if unsafe { libc::getrusage(libc::RUSAGE_SELF, &mut ru) } != 0 {
        return 0.0;
    }
    let f = |t: libc::timeval| t.tv_sec as f64 + t.tv_usec as f64 / 1e6;
    f(ru.ru_utime) + f(ru.ru_stime)
}

/// Run `f` on its own thread so that a deadlock can be told from slowness. Everything a library
/// command waits for lives in this process (in-memory backend, in-memory source, its own threads,
/// tmpfs), so a command that has not returned while no backend call is made, no source byte is read
/// (`membe::PROGRESS`) AND the process burns no CPU for a long stretch cannot make progress any
/// more. This is a quiescence test, not a time budget: slowness keeps burning CPU and only ever
/// reaches the watchdog (exit 2). `Err` = deadlocked (the thread is left behind).
pub fn run_detecting_deadlock<T: Send + 'static>(f: impl FnOnce() -> T + Send + 'static) -> Result<T, String> {
    if AFTER_DEADLOCK.load(Ordering::SeqCst) {
        return Err(SKIP_AFTER_DEADLOCK.to_string());
    }
    let (tx, rx) = std::sync::mpsc::channel();
    std::thread::Builder::new()
        .name("command".into())
        .spawn(move || {
            _ = tx.send(f());
        })
        .map_err(|e| format!("cannot spawn: {e}"))?;
    let mut still_since = Instant::now();
    let mut mark = (crate::membe::PROGRESS.load(Ordering::Relaxed), cpu_time());
    loop {
        match rx.recv_timeout(Duration::from_secs(1)) {
            Ok(r) => return Ok(r),
            Err(std::sync::mpsc::RecvTimeoutError::Disconnected) => {
                return Err("the command thread ended without a result".to_string());
            }
            Err(std::sync::mpsc::RecvTimeoutError::Timeout) => {
                let now = (crate::membe::PROGRESS.load(Ordering::Relaxed), cpu_time());
                if now.0 != mark.0 || now.1 - mark.1 > QUIET_CPU {
                    mark = now;
                    still_since = Instant::now();
                } else if still_since.elapsed() > QUIET {
                    AFTER_DEADLOCK.store(true, Ordering::SeqCst);
                    return Err(format!(
                        "deadlock: the command has not returned and for {} s no backend call was made, no source byte was read and the process used less than {QUIET_CPU:.2} s of CPU",
                        QUIET.as_secs()
                    ));
                }
            }
        }
    }
}

// ------------------------------------------------------------------------------------------------
// attribution of a crashed worker process
// ------------------------------------------------------------------------------------------------

static CRASH_CASE_PTR: std::sync::atomic::AtomicPtr<u8> = std::sync::atomic::AtomicPtr::new(std::ptr::null_mut());
static CRASH_CASE_LEN: AtomicUsize = AtomicUsize::new(0);
static CRASH_PATH: std::sync::OnceLock<std::ffi::CString> = std::sync::OnceLock::new();
static CRASH_REPLAY_LINE: std::sync::OnceLock<Vec<u8>> = std::sync::OnceLock::new();

/// signals by which a library defect (failed allocation of an absurd size, abort in a destructor,
/// stack overflow, …) takes the whole process down; SIGKILL (the kernel's OOM killer, `vp stop`) is
/// deliberately not among them
const CRASH_SIGNALS: [i32; 5] = [libc::SIGABRT, libc::SIGSEGV, libc::SIGBUS, libc::SIGILL, libc::SIGFPE];

extern "C" fn on_crash(sig: libc::c_int) {
    // only raw system calls from here on
    unsafe {
        let p = CRASH_CASE_PTR.load(Ordering::SeqCst);
        let n = CRASH_CASE_LEN.load(Ordering::SeqCst);
        if let Some(line) = CRASH_REPLAY_LINE.get() {
            // `vp replay`: the crash is the outcome of the replay
            _ = libc::write(1, line.as_ptr().cast(), line.len());
            libc::_exit(1);
        }
        if let (Some(path), false) = (CRASH_PATH.get(), p.is_null()) {
            let fd = libc::open(path.as_ptr(), libc::O_WRONLY | libc::O_CREAT | libc::O_TRUNC, 0o644);
            if fd >= 0 {
                let mut off = 0usize;
                while off < n {
                    let w = libc::write(fd, p.add(off).cast(), n - off);
                    if w <= 0 {
                        break;
                    }
                    off += w as usize;
                }
                _ = libc::close(fd);
            }
        }
        _ = libc::signal(sig, libc::SIG_DFL);
        _ = libc::raise(sig);
    }
}

fn crash_file(prop: &str, pid: u32) -> PathBuf {
    Path::new(VERIF_ROOT).join("found").join(prop).join(format!("crash-{pid}.case"))
}

/// worker side: when the process dies by one of `CRASH_SIGNALS`, leave the case that was running
/// behind for the parent
pub fn install_crash_handler(prop: &str) {
    let path = crash_file(prop, std::process::id());
    if let Some(dir) = path.parent() {
        _ = std::fs::create_dir_all(dir);
    }
    _ = CRASH_PATH.set(std::ffi::CString::new(path.to_string_lossy().as_bytes()).expect("path"));
    for s in CRASH_SIGNALS {
        // SAFETY: installing a handler that only performs raw system calls
        unsafe {
            _ = libc::signal(s, on_crash as *const () as usize);
        }
    }
}

/// replay side: a crash of the process is reported as the violation it is
pub fn install_replay_crash_handler(prop: &str, file: &str) {
    _ = CRASH_REPLAY_LINE.set(
        format!("VIOLATION property={prop} replay={file}\n  the library crashed the process (abort / fatal signal) while running this case\n").into_bytes(),
    );
    for s in CRASH_SIGNALS {
        // SAFETY: as above
        unsafe {
            _ = libc::signal(s, on_crash as *const () as usize);
        }
    }
}
