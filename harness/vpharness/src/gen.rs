//! Shared generators: source trees (sized relative to the chunker configuration) and edit scripts.

use proptest::prelude::*;
use serde::{Deserialize, Serialize};

use crate::model::{Content, MKind, MNode, MTime, Piece};

/// single path components, never empty, no '/' or NUL, not "." / ".."
pub fn name() -> BoxedStrategy<Vec<u8>> {
    let ascii = "[a-z]{1,6}".prop_map(String::into_bytes);
    let special = prop::collection::vec(
        prop::sample::select(vec![
            b' ', b'\n', b'\t', b'\r', b'"', b'\'', b'\\', b'*', b'?', b'[', b'{', b'!', b'#', b'-',
            b'.', b'a', b'B', 0x07, 0x1b, 0x7f, b'~', b'$',
        ]),
        1..8,
    );
    let utf8 = prop::collection::vec(
        prop::sample::select(vec!["ä", "ß", "é", "日", "本", "🦀", "а", "e\u{301}", "\u{202e}", "x"]),
        1..5,
    )
    .prop_map(|v| v.concat().into_bytes());
    let invalid = prop::collection::vec(
        prop_oneof![Just(0xffu8), Just(0xfe), Just(0x80), Just(0xc3), Just(0xe2), Just(b'a'), 0x80u8..=0xff],
        1..6,
    );
    let long = (any::<u8>(), 150usize..=250).prop_map(|(b, n)| vec![b'a' + b % 26; n]);
    let around_slash = prop::sample::select(vec![
        b"a".to_vec(),
        b"a-b".to_vec(),
        b"a.b".to_vec(),
        b"a0".to_vec(),
        b"a b".to_vec(),
        b"A".to_vec(),
        b"ab".to_vec(),
        b"a\xff".to_vec(),
        b"-".to_vec(),
        b"..a".to_vec(),
        b"...".to_vec(),
        b".hidden".to_vec(),
    ]);
    prop_oneof![
        6 => ascii,
        2 => special,
        2 => utf8,
        2 => invalid,
        1 => long,
        3 => around_slash,
    ]
    .prop_filter("valid component", |n| {
        !n.is_empty() && n != b"." && n != b".." && !n.contains(&b'/') && !n.contains(&0)
    })
    .boxed()
}

pub fn mtime() -> BoxedStrategy<MTime> {
    (
        prop_oneof![
            4 => 1_000_000_000i64..1_900_000_000,
            1 => Just(0i64),
            1 => Just(1i64),
            1 => -1_000_000_000i64..0,
            1 => 4_000_000_000i64..9_000_000_000,
        ],
        prop_oneof![
            2 => Just(0u32),
            1 => Just(1u32),
            1 => Just(999_999_999u32),
            3 => 0u32..1_000_000_000,
        ],
    )
        .prop_map(|(s, n)| MTime(s, n))
        .boxed()
}

pub fn perm() -> BoxedStrategy<u32> {
    prop_oneof![
        4 => prop::sample::select(vec![0o644u32, 0o600, 0o755, 0o700, 0o444, 0o664, 0o777]),
        1 => 0u32..0o1000,
        1 => (0u32..0o1000, prop::sample::select(vec![0o4000u32, 0o2000, 0o1000, 0o6000, 0o7000])).prop_map(|(p, s)| p | s),
    ]
    .boxed()
}

/// one piece of at most `max` bytes
pub fn piece(max: u32) -> BoxedStrategy<Piece> {
    prop_oneof![
        4 => (any::<u64>(), 0..=max).prop_map(|(seed, len)| Piece::Rand { seed, skip: 0, len }),
        1 => (0..=max).prop_map(|len| Piece::Zeros { len }),
        1 => (any::<u64>(), 1u32..200, 0..=max).prop_map(|(seed, p, len)| Piece::Period { seed, p, skip: 0, len }),
        1 => prop::collection::vec(any::<u8>(), 0..24).prop_map(Piece::Lit),
    ]
    .boxed()
}

/// file content whose size class is chosen relative to `unit` (a typical chunk size), capped
pub fn content(unit: u32, cap: u32) -> BoxedStrategy<Content> {
    let unit = unit.max(1);
    let cap = cap.max(16);
    let sz = move |x: u32| x.min(cap);
    let size_class = prop_oneof![
        2 => Just(0u32),
        1 => Just(1u32),
        2 => 1u32..64,
        3 => (0u32..=4).prop_map(move |d| sz(unit.saturating_sub(2) + d)),
        4 => (unit..=unit.saturating_mul(6)).prop_map(sz),
        2 => (unit.saturating_mul(6)..=unit.saturating_mul(30)).prop_map(sz),
    ];
    let generic = size_class
        .prop_flat_map(|len| {
            if len == 0 {
                return Just(Content(vec![])).boxed();
            }
            prop_oneof![
                5 => piece(len).prop_map(move |p| exact(p, len)),
                2 => (piece(len), piece(len)).prop_map(move |(a, b)| {
                    let a = exact(a, len / 2);
                    let b = exact(b, len - len / 2);
                    a.concat(b)
                }),
            ]
            .boxed()
        });
    prop_oneof![
        40 => generic,
        // the serialisation of an empty directory: a file chunk with the id of a tree blob
        1 => Just(Content::lit(b"{\"nodes\":[]}\n".to_vec())),
    ]
    .boxed()
}

/// force the piece to exactly `len` bytes (re-using its kind)
fn exact(p: Piece, len: u32) -> Content {
    let p = match p {
        Piece::Zeros { .. } => Piece::Zeros { len },
        Piece::Rand { seed, skip, .. } => Piece::Rand { seed, skip, len },
        Piece::Period { seed, p, skip, .. } => Piece::Period { seed, p, skip, len },
        Piece::Lit(v) => {
            if v.is_empty() {
                Piece::Zeros { len }
            } else {
                Piece::Lit(v.iter().cycle().take(len as usize).copied().collect())
            }
        }
    };
    Content(vec![p])
}

#[derive(Debug, Clone, Copy)]
pub struct TreeParams {
    pub unit: u32,
    pub file_cap: u32,
    pub max_children: usize,
    pub depth: u32,
}

fn meta_node(name: Vec<u8>, kind: MKind, perm: u32, mtime: MTime, ctime: MTime, ids: (u32, u32, u64)) -> MNode {
    MNode {
        name,
        kind,
        perm,
        mtime,
        ctime,
        uid: ids.0,
        gid: ids.1,
        inode: ids.2,
        device: 7,
        links: 1,
    }
}

fn ids() -> BoxedStrategy<(u32, u32, u64)> {
    (
        prop_oneof![Just(0u32), Just(1000u32), 1u32..70_000],
        prop_oneof![Just(0u32), Just(100u32), 1u32..70_000],
        1u64..1_000_000,
    )
        .boxed()
}

pub fn leaf(p: TreeParams) -> BoxedStrategy<MNode> {
    prop_oneof![
        7 => (name(), content(p.unit, p.file_cap), perm(), mtime(), mtime(), ids()).prop_map(|(n, c, pe, mt, ct, ids)| {
            meta_node(n, MKind::File { content: c }, pe, mt, ct, ids)
        }),
        2 => (name(), prop_oneof![
                3 => "[a-z/.]{1,12}".prop_map(String::into_bytes),
                1 => prop::collection::vec(prop_oneof![Just(0xffu8), Just(b'/'), Just(b'.'), 1u8..=255], 1..10),
                1 => Just(b"../../outside".to_vec()),
                1 => Just(b"/etc/passwd".to_vec()),
            ], mtime(), mtime(), ids()).prop_map(|(n, t, mt, ct, ids)| {
            let t: Vec<u8> = t.into_iter().filter(|b| *b != 0).collect();
            let t = if t.is_empty() { b"x".to_vec() } else { t };
            meta_node(n, MKind::Symlink { target: t }, 0o777, mt, ct, ids)
        }),
        1 => (name(), perm(), mtime(), mtime(), ids()).prop_map(|(n, pe, mt, ct, ids)| {
            meta_node(n, MKind::Dir { children: vec![] }, pe | 0o700, mt, ct, ids)
        }),
    ]
    .boxed()
}

/// a directory tree rooted at a directory named "s"
pub fn tree(p: TreeParams) -> BoxedStrategy<MNode> {
    let node = leaf(p).prop_recursive(p.depth, 64, p.max_children as u32, move |inner| {
        (
            name(),
            prop::collection::vec(inner, 0..=p.max_children),
            perm(),
            mtime(),
            mtime(),
            ids(),
        )
            .prop_map(|(n, children, pe, mt, ct, ids)| {
                // directories must stay traversable for the restore comparison
                meta_node(n, MKind::Dir { children }, pe | 0o700, mt, ct, ids)
            })
    });
    (
        prop::collection::vec(node, 0..=p.max_children + 2),
        perm(),
        mtime(),
        mtime(),
        ids(),
        prop::collection::vec((any::<u16>(), any::<u16>(), name()), 0..3),
    )
        .prop_map(|(children, pe, mt, ct, ids, links)| {
            let mut root = meta_node(
                b"s".to_vec(),
                MKind::Dir { children },
                pe | 0o700,
                mt,
                ct,
                ids,
            );
            root.normalise();
            for (a, b, n) in links {
                add_hardlink(&mut root, a, b, n);
            }
            root.normalise();
            uniquify_inodes(&mut root);
            root
        })
        .boxed()
}

/// paths (as index lists) of all nodes satisfying `f`
pub fn paths_where(root: &MNode, f: &dyn Fn(&MNode) -> bool) -> Vec<Vec<usize>> {
    fn rec(n: &MNode, cur: &mut Vec<usize>, f: &dyn Fn(&MNode) -> bool, out: &mut Vec<Vec<usize>>) {
        if f(n) {
            out.push(cur.clone());
        }
        for (i, c) in n.children().iter().enumerate() {
            cur.push(i);
            rec(c, cur, f, out);
            _ = cur.pop();
        }
    }
    let mut out = Vec::new();
    rec(root, &mut Vec::new(), f, &mut out);
    out
}

pub fn node_at<'a>(root: &'a MNode, path: &[usize]) -> &'a MNode {
    let mut n = root;
    for i in path {
        n = &n.children()[*i];
    }
    n
}

pub fn node_at_mut<'a>(root: &'a mut MNode, path: &[usize]) -> &'a mut MNode {
    let mut n = root;
    for i in path {
        n = &mut n.children_mut().expect("dir")[*i];
    }
    n
}

fn add_hardlink(root: &mut MNode, a: u16, b: u16, name: Vec<u8>) {
    let files = paths_where(root, &|n| n.is_file());
    let dirs = paths_where(root, &|n| n.is_dir());
    if files.is_empty() || dirs.is_empty() {
        return;
    }
    let fp = files[crate::engine::pick_idx(a, files.len())].clone();
    let dp = dirs[crate::engine::pick_idx(b, dirs.len())].clone();
    let group_inode = 5_000_000 + max_inode(root) + 1;
    let (mut copy, links) = {
        let f = node_at_mut(root, &fp);
        f.links += 1;
        f.inode = if f.links == 2 { group_inode } else { f.inode };
        (f.clone(), f.links)
    };
    copy.name = name;
    copy.links = links;
    let inode = copy.inode;
    if let Some(ch) = node_at_mut(root, &dp).children_mut() {
        if ch.iter().any(|c| c.name == copy.name) {
            // undo
            let f = node_at_mut(root, &fp);
            f.links -= 1;
            return;
        }
        ch.push(copy);
    }
    // all members of the group carry the same link count
    fn fix(n: &mut MNode, inode: u64, links: u64) {
        if n.is_file() && n.inode == inode && n.links > 1 {
            n.links = links;
        }
        if let Some(ch) = n.children_mut() {
            for c in ch {
                fix(c, inode, links);
            }
        }
    }
    fix(root, inode, links);
}

fn max_inode(n: &MNode) -> u64 {
    n.children().iter().map(max_inode).max().unwrap_or(0).max(n.inode)
}

/// every non-hardlinked node gets its own inode number
fn uniquify_inodes(root: &mut MNode) {
    fn rec(n: &mut MNode, next: &mut u64) {
        if n.links <= 1 {
            n.inode = *next;
            *next += 1;
        }
        if let Some(ch) = n.children_mut() {
            for c in ch {
                rec(c, next);
            }
        }
    }
    let mut next = 100;
    rec(root, &mut next);
}

/// One edit of a source tree between two backups
#[derive(Debug, Clone, PartialEq, Eq, Serialize, Deserialize)]
pub enum Edit {
    /// (file selector, offset selector, inserted content)
    Insert(u16, u16, Content),
    Delete(u16, u16, u32),
    /// same-size overwrite
    Overwrite(u16, u16, Content),
    Prepend(u16, Content),
    Append(u16, Content),
    /// replace the whole content
    Replace(u16, Content),
    /// duplicate a file into a directory under a new name
    Duplicate(u16, u16, #[serde(with = "hexname")] Vec<u8>),
    /// move a node into another directory
    Move(u16, u16, #[serde(with = "hexname")] Vec<u8>),
    Rename(u16, #[serde(with = "hexname")] Vec<u8>),
    Remove(u16),
    Add(u16, MNode),
    /// mtime only
    Touch(u16, MTime),
    Chmod(u16, u32),
    /// file <-> dir <-> symlink at the same name
    Retype(u16, MNode),
}

mod hexname {
    use serde::{Deserialize, Deserializer, Serializer};
    pub fn serialize<S: Serializer>(v: &[u8], s: S) -> Result<S::Ok, S::Error> {
        s.serialize_str(&hex::encode(v))
    }
    pub fn deserialize<'de, D: Deserializer<'de>>(d: D) -> Result<Vec<u8>, D::Error> {
        let s = String::deserialize(d)?;
        hex::decode(s).map_err(serde::de::Error::custom)
    }
}

pub fn edit(p: TreeParams) -> BoxedStrategy<Edit> {
    let small = content(p.unit / 4 + 1, p.unit.max(16));
    prop_oneof![
        3 => (any::<u16>(), any::<u16>(), small.clone()).prop_map(|(f, o, c)| Edit::Insert(f, o, c)),
        3 => (any::<u16>(), any::<u16>(), 1u32..(p.unit.max(2))).prop_map(|(f, o, l)| Edit::Delete(f, o, l)),
        2 => (any::<u16>(), any::<u16>(), small.clone()).prop_map(|(f, o, c)| Edit::Overwrite(f, o, c)),
        2 => (any::<u16>(), small.clone()).prop_map(|(f, c)| Edit::Prepend(f, c)),
        1 => (any::<u16>(), small.clone()).prop_map(|(f, c)| Edit::Append(f, c)),
        1 => (any::<u16>(), content(p.unit, p.file_cap)).prop_map(|(f, c)| Edit::Replace(f, c)),
        2 => (any::<u16>(), any::<u16>(), name()).prop_map(|(f, d, n)| Edit::Duplicate(f, d, n)),
        2 => (any::<u16>(), any::<u16>(), name()).prop_map(|(f, d, n)| Edit::Move(f, d, n)),
        1 => (any::<u16>(), name()).prop_map(|(f, n)| Edit::Rename(f, n)),
        1 => any::<u16>().prop_map(Edit::Remove),
        2 => (any::<u16>(), leaf(p)).prop_map(|(d, n)| Edit::Add(d, n)),
        1 => (any::<u16>(), mtime()).prop_map(|(f, t)| Edit::Touch(f, t)),
        1 => (any::<u16>(), perm()).prop_map(|(f, m)| Edit::Chmod(f, m)),
        1 => (any::<u16>(), leaf(p)).prop_map(|(f, n)| Edit::Retype(f, n)),
    ]
    .boxed()
}

/// what an edit did, for classification
#[derive(Debug, Default, Clone)]
pub struct EditEffect {
    pub content_changed: bool,
    pub structural: bool,
    pub noop: bool,
}

fn pick<'a>(list: &'a [Vec<usize>], sel: u16) -> Option<&'a Vec<usize>> {
    if list.is_empty() {
        None
    } else {
        Some(&list[crate::engine::pick_idx(sel, list.len())])
    }
}

/// Apply the edit. Content edits bump mtime (by `tick`) like a real writer would unless
/// `keep_times` is set (used by C11 to model in-place changes that only alter size/ctime).
pub fn apply_edit(root: &mut MNode, e: &Edit, tick: i64) -> EditEffect {
    let mut eff = EditEffect::default();
    let files = paths_where(root, &|n| n.is_file() && n.links <= 1);
    let nonroot = {
        let mut v = paths_where(root, &|_| true);
        v.retain(|p| !p.is_empty());
        v
    };
    let dirs = paths_where(root, &|n| n.is_dir());
    let bump = |n: &mut MNode| {
        n.mtime = MTime(n.mtime.0.saturating_add(tick).min(200_000_000_000), n.mtime.1);
        n.ctime = MTime(n.ctime.0.saturating_add(tick).min(200_000_000_000), n.ctime.1);
    };
    let edit_content = |root: &mut MNode, sel: u16, f: &dyn Fn(&Content) -> Content, eff: &mut EditEffect| {
        if let Some(p) = pick(&files, sel) {
            let n = node_at_mut(root, p);
            if let MKind::File { content } = &mut n.kind {
                let new = f(content);
                if new.bytes() != content.bytes() {
                    *content = new;
                    eff.content_changed = true;
                    bump(n);
                } else {
                    eff.noop = true;
                }
            }
        } else {
            eff.noop = true;
        }
    };
    match e {
        Edit::Insert(f, o, c) => edit_content(root, *f, &|old| old.insert(crate::engine::pick_idx(*o, old.len() + 1), c.clone()), &mut eff),
        Edit::Delete(f, o, l) => edit_content(root, *f, &|old| old.delete(crate::engine::pick_idx(*o, old.len() + 1), *l as usize), &mut eff),
        Edit::Overwrite(f, o, c) => edit_content(root, *f, &|old| old.overwrite(crate::engine::pick_idx(*o, old.len() + 1), c.clone()), &mut eff),
        Edit::Prepend(f, c) => edit_content(root, *f, &|old| old.insert(0, c.clone()), &mut eff),
        Edit::Append(f, c) => edit_content(root, *f, &|old| old.insert(old.len(), c.clone()), &mut eff),
        Edit::Replace(f, c) => edit_content(root, *f, &|_| c.clone(), &mut eff),
        Edit::Duplicate(f, d, n) => {
            if let (Some(fp), Some(dp)) = (pick(&files, *f), pick(&dirs, *d)) {
                let mut copy = node_at(root, fp).clone();
                copy.name = n.clone();
                copy.inode += 3_000_000;
                let dir = node_at_mut(root, dp);
                if let Some(ch) = dir.children_mut() {
                    if !ch.iter().any(|c| &c.name == n) {
                        ch.push(copy);
                        eff.structural = true;
                    }
                }
            }
        }
        Edit::Move(s, d, n) => {
            if let (Some(sp), Some(dp)) = (pick(&nonroot, *s), pick(&dirs, *d)) {
                // do not move a directory into itself
                if !dp.starts_with(sp) && node_at(root, sp).links <= 1 {
                    let (parent, idx) = (sp[..sp.len() - 1].to_vec(), sp[sp.len() - 1]);
                    let name_taken = node_at(root, dp).children().iter().any(|c| &c.name == n);
                    if !name_taken {
                        let mut node = node_at_mut(root, &parent).children_mut().unwrap().remove(idx);
                        node.name = n.clone();
                        // destination path may have shifted: recompute by identity is overkill, re-pick
                        root.normalise();
                        let dirs2 = paths_where(root, &|x| x.is_dir());
                        let dp2 = pick(&dirs2, *d).cloned().unwrap_or_default();
                        let dest = node_at_mut(root, &dp2);
                        if dest.children().iter().any(|c| c.name == node.name) {
                            // put it back at the root with its name
                            node_at_mut(root, &[]).children_mut().unwrap().push(node);
                        } else {
                            dest.children_mut().unwrap().push(node);
                        }
                        eff.structural = true;
                    }
                }
            }
        }
        Edit::Rename(s, n) => {
            if let Some(sp) = pick(&nonroot, *s) {
                let parent = sp[..sp.len() - 1].to_vec();
                let taken = node_at(root, &parent).children().iter().any(|c| &c.name == n);
                if !taken {
                    node_at_mut(root, sp).name = n.clone();
                    eff.structural = true;
                }
            }
        }
        Edit::Remove(s) => {
            if let Some(sp) = pick(&nonroot, *s) {
                if node_at(root, sp).links <= 1 {
                    let (parent, idx) = (sp[..sp.len() - 1].to_vec(), sp[sp.len() - 1]);
                    _ = node_at_mut(root, &parent).children_mut().unwrap().remove(idx);
                    eff.structural = true;
                }
            }
        }
        Edit::Add(d, n) => {
            if let Some(dp) = pick(&dirs, *d) {
                let dir = node_at_mut(root, dp);
                if !dir.children().iter().any(|c| c.name == n.name) {
                    let mut n = n.clone();
                    n.inode += 4_000_000;
                    dir.children_mut().unwrap().push(n);
                    eff.structural = true;
                }
            }
        }
        Edit::Touch(f, t) => {
            if let Some(p) = pick(&nonroot, *f) {
                let n = node_at_mut(root, p);
                if n.links <= 1 {
                    n.mtime = *t;
                }
            }
        }
        Edit::Chmod(f, m) => {
            if let Some(p) = pick(&nonroot, *f) {
                let n = node_at_mut(root, p);
                if n.links <= 1 {
                    n.perm = if n.is_dir() { *m | 0o700 } else { *m };
                    n.ctime = MTime(n.ctime.0.saturating_add(tick).min(200_000_000_000), n.ctime.1);
                }
            }
        }
        Edit::Retype(s, n) => {
            if let Some(sp) = pick(&nonroot, *s) {
                if node_at(root, sp).links <= 1 {
                    let old = node_at(root, sp).clone();
                    let mut new = n.clone();
                    new.name = old.name.clone();
                    new.inode = old.inode + 2_000_000;
                    if std::mem::discriminant(&new.kind) != std::mem::discriminant(&old.kind) {
                        *node_at_mut(root, sp) = new;
                        eff.structural = true;
                    }
                }
            }
        }
    }
    root.normalise();
    eff
}
