//! Real-filesystem helpers: per-case scratch directories on tmpfs and an `lstat` walk.

use std::{
    collections::BTreeMap,
    fs,
    os::unix::{ffi::OsStrExt, fs::MetadataExt},
    path::{Path, PathBuf},
    sync::atomic::{AtomicU64, Ordering},
};

static COUNTER: AtomicU64 = AtomicU64::new(0);

/// A scratch directory removed on drop
pub struct Scratch(pub PathBuf);

impl Scratch {
    pub fn new(tag: &str) -> Self {
        let base = if Path::new("/dev/shm").is_dir() {
            PathBuf::from("/dev/shm")
        } else {
            std::env::temp_dir()
        };
        let n = COUNTER.fetch_add(1, Ordering::SeqCst);
        let p = base.join(format!("vp-{}-{tag}-{n}", std::process::id()));
        _ = fs::remove_dir_all(&p);
        fs::create_dir_all(&p).expect("create scratch dir");
        Self(p)
    }
    pub fn path(&self) -> &Path {
        &self.0
    }
}

impl Drop for Scratch {
    fn drop(&mut self) {
        // directories may have been restored without write/search permission
        fn fix(p: &Path) {
            if let Ok(md) = fs::symlink_metadata(p) {
                if md.is_dir() {
                    use std::os::unix::fs::PermissionsExt;
                    _ = fs::set_permissions(p, fs::Permissions::from_mode(0o700));
                    if let Ok(rd) = fs::read_dir(p) {
                        for e in rd.flatten() {
                            fix(&e.path());
                        }
                    }
                }
            }
        }
        fix(&self.0);
        _ = fs::remove_dir_all(&self.0);
    }
}

#[derive(Debug, Clone, PartialEq, Eq)]
pub enum FsKind {
    File(Vec<u8>),
    Dir,
    Symlink(Vec<u8>),
    Other,
}

#[derive(Debug, Clone, PartialEq, Eq)]
pub struct FsEntry {
    pub kind: FsKind,
    pub mode: u32,
    pub mtime: (i64, u32),
    pub ino: u64,
    pub nlink: u64,
    pub uid: u32,
    pub gid: u32,
    pub size: u64,
}

/// walk `root` (not following symlinks); keys are paths relative to `root` as bytes
pub fn walk(root: &Path) -> std::io::Result<BTreeMap<Vec<u8>, FsEntry>> {
    fn rec(dir: &Path, rel: &[u8], out: &mut BTreeMap<Vec<u8>, FsEntry>) -> std::io::Result<()> {
        for e in fs::read_dir(dir)? {
            let e = e?;
            let name = e.file_name();
            let mut key = rel.to_vec();
            if !key.is_empty() {
                key.push(b'/');
            }
            key.extend_from_slice(name.as_bytes());
            let p = e.path();
            let md = fs::symlink_metadata(&p)?;
            let ft = md.file_type();
            let kind = if ft.is_dir() {
                FsKind::Dir
            } else if ft.is_symlink() {
                FsKind::Symlink(fs::read_link(&p)?.as_os_str().as_bytes().to_vec())
            } else if ft.is_file() {
                FsKind::File(fs::read(&p)?)
            } else {
                FsKind::Other
            };
            let is_dir = ft.is_dir();
            _ = out.insert(
                key.clone(),
                FsEntry {
                    kind,
                    mode: md.mode() & 0o7777,
                    mtime: (md.mtime(), md.mtime_nsec() as u32),
                    ino: md.ino(),
                    nlink: md.nlink(),
                    uid: md.uid(),
                    gid: md.gid(),
                    size: md.size(),
                },
            );
            if is_dir {
                rec(&p, &key, out)?;
            }
        }
        Ok(())
    }
    let mut out = BTreeMap::new();
    rec(root, b"", &mut out)?;
    Ok(out)
}
