//! C06 under libFuzzer: bytes are decoded into (polynomial choice, average, min, max, read
//! schedule, stream); the library's chunker (hook `chunk_iter`) must agree with the from-scratch
//! reference chunker of `vpcore::chunkref`. The oracle is inside the target.
#![no_main]
use std::io::Read;

use arbitrary::Unstructured;
use libfuzzer_sys::fuzz_target;
use rustic_core::repofile::{Chunker, ConfigFile};
use vpcore::chunkref::{FpTable, ref_chunks};

const POLYS: [u64; 4] = [
    0x003D_A335_8B4D_C173,
    0x0030_0000_0000_0065,
    0x003F_FFFF_FFFF_FFFF,
    0x0025_5555_5555_5555,
];

struct Sched<'a> {
    data: &'a [u8],
    pos: usize,
    sizes: Vec<u16>,
    step: usize,
    interrupt_every: u8,
    calls: usize,
    interrupted: bool,
}

impl Read for Sched<'_> {
    fn read(&mut self, buf: &mut [u8]) -> std::io::Result<usize> {
        self.calls += 1;
        if self.interrupt_every > 0 && !self.interrupted && self.calls % usize::from(self.interrupt_every) == 0 {
            self.interrupted = true;
            return Err(std::io::Error::from(std::io::ErrorKind::Interrupted));
        }
        self.interrupted = false;
        let mut n = buf.len().min(self.data.len() - self.pos);
        if !self.sizes.is_empty() && n > 0 {
            n = n.min(usize::from(self.sizes[self.step % self.sizes.len()]).max(1));
            self.step += 1;
        }
        buf[..n].copy_from_slice(&self.data[self.pos..self.pos + n]);
        self.pos += n;
        Ok(n)
    }
}

thread_local! {
    static TABS: Vec<FpTable> = POLYS.iter().map(|p| FpTable::new(*p)).collect();
}

fuzz_target!(|bytes: &[u8]| {
    let mut u = Unstructured::new(bytes);
    let Ok(pi) = u.int_in_range(0..=3usize) else { return };
    let Ok(k) = u.int_in_range(6..=12u32) else { return };
    let avg = 1usize << k;
    let Ok(min) = u.int_in_range(64..=avg) else { return };
    let Ok(maxm) = u.int_in_range(0..=7 * avg) else { return };
    let max = avg + maxm;
    let Ok(nsizes) = u.int_in_range(0..=4usize) else { return };
    let mut sizes = Vec::new();
    for _ in 0..nsizes {
        sizes.push(u.int_in_range(1..=5000u16).unwrap_or(1));
    }
    let interrupt_every = u.int_in_range(0..=6u8).unwrap_or(0);
    let data = u.take_rest();

    let mut cfg = ConfigFile::default();
    cfg.version = 2;
    cfg.chunker = Some(Chunker::Rabin);
    cfg.chunker_polynomial = format!("{:x}", POLYS[pi]);
    cfg.chunk_size = Some(avg);
    cfg.chunk_min_size = Some(min);
    cfg.chunk_max_size = Some(max);
    let reader = Sched { data, pos: 0, sizes, step: 0, interrupt_every, calls: 0, interrupted: false };
    let it = rustic_core::verif::chunk_iter(&cfg, reader, data.len()).expect("accepted parameters");
    let mut lens = Vec::new();
    let mut concat = Vec::with_capacity(data.len());
    for c in it {
        let c = c.expect("in-memory reader cannot fail");
        assert!(!c.is_empty(), "empty chunk");
        lens.push(c.len());
        concat.extend_from_slice(&c);
        assert!(concat.len() <= data.len(), "more bytes than the stream");
    }
    assert_eq!(concat, data, "concatenation differs");
    let want = TABS.with(|t| ref_chunks(data, &t[pi], avg, min, max));
    assert_eq!(lens, want.lens, "cut points differ from the reference (avg {avg} min {min} max {max})");
});
