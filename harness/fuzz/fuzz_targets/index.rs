//! C17 under libFuzzer: index files decoded from bytes with `arbitrary`; the library's in-memory
//! index (hook `IndexHandle`, all three modes) must agree with the reference map.
#![no_main]
use arbitrary::Unstructured;
use libfuzzer_sys::fuzz_target;
use rustic_core::{
    repofile::{BlobType, IndexPack},
    verif::{IndexHandle, IndexMode},
};
use vpcore::{
    fmt::{BType, IdxBlob, IdxFile, IdxPack},
    indexref,
};

fn id(n: u8) -> String {
    let mut b = [0u8; 32];
    b[31] = n;
    b[0] = n.wrapping_mul(37);
    hex::encode(b)
}

fuzz_target!(|bytes: &[u8]| {
    let mut u = Unstructured::new(bytes);
    let nfiles = u.int_in_range(0..=4usize).unwrap_or(0);
    let mut files = Vec::new();
    for _ in 0..nfiles {
        let mut f = IdxFile::default();
        for section in 0..2 {
            let np = u.int_in_range(0..=5usize).unwrap_or(0);
            for _ in 0..np {
                let tree = u.arbitrary::<bool>().unwrap_or(false);
                let nb = u.int_in_range(0..=6usize).unwrap_or(0);
                let mut blobs = Vec::new();
                let mut off = 0u32;
                for _ in 0..nb {
                    let len = u.int_in_range(32..=5000u32).unwrap_or(32);
                    blobs.push(IdxBlob {
                        id: id(u.int_in_range(0..=15u8).unwrap_or(0)),
                        tpe: if tree { "tree".into() } else { "data".into() },
                        offset: off,
                        length: len,
                        uncompressed_length: u.arbitrary::<bool>().unwrap_or(false).then_some(len + 3),
                    });
                    off += len;
                }
                let p = IdxPack {
                    id: id(u.int_in_range(100..=120u8).unwrap_or(100)),
                    blobs,
                    time: None,
                    size: u.arbitrary::<bool>().unwrap_or(false).then_some(u.int_in_range(0..=100_000u32).unwrap_or(0)),
                };
                if section == 0 { f.packs.push(p) } else { f.packs_to_delete.push(p) }
            }
        }
        files.push(f);
    }
    let reference = indexref::build(&files);
    let packs: Vec<IndexPack> = files
        .iter()
        .flat_map(|f| f.packs.iter())
        .map(|p| serde_json::from_value(serde_json::to_value(p).unwrap()).expect("IndexPack parses"))
        .collect();
    for mode in [IndexMode::Full, IndexMode::DataIds, IndexMode::OnlyTrees] {
        let h = IndexHandle::new(packs.clone(), mode);
        for n in 0..16u8 {
            for (bt, t) in [(BType::Tree, BlobType::Tree), (BType::Data, BlobType::Data)] {
                let key = (bt, id(n));
                let listed = reference.map.get(&key);
                let bid = id(n).parse::<rustic_core::Id>().unwrap().into();
                let has = h.has(t, &bid);
                let retains_ids = !(mode == IndexMode::OnlyTrees && bt == BType::Data);
                if retains_ids {
                    assert_eq!(has, listed.is_some(), "has({bt:?},{n}) in {mode:?}");
                } else {
                    assert!(!has || listed.is_some());
                }
                if let Some(e) = h.get_id(t, &bid) {
                    let l = listed.expect("get_id found something that no file lists");
                    assert!(l.iter().any(|r| r.pack == e.pack.to_hex().to_string() && r.offset == e.location.offset && r.length == e.location.length),
                        "get_id returned a location no index file lists");
                } else if listed.is_some() && (mode == IndexMode::Full || bt == BType::Tree) {
                    panic!("get_id({bt:?},{n}) found nothing in {mode:?} although it is listed");
                }
            }
        }
        let total = h.total_size(BlobType::Tree) + h.total_size(BlobType::Data);
        assert_eq!(total, reference.size_tree + reference.size_data + reference.size_empty, "total size");
    }
});
