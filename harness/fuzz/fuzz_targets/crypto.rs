//! C04 under libFuzzer. Structured part: (key, plaintext, mutation script) — encrypt with the
//! library, apply the script, `decrypt` must fail unless the bytes equal the original message;
//! the independent codec must agree in both directions. Raw part: arbitrary bytes into decrypt /
//! decode_file / decode_blob / pack header parsing must never panic.
#![no_main]
use std::sync::Arc;

use arbitrary::Unstructured;
use bytes::Bytes;
use libfuzzer_sys::fuzz_target;
use rustic_core::{BytesList, FileType, Id, ReadBackend, RusticResult, WriteBackend, verif::Codec};
use vpcore::fmt::{open_message, seal_message};

#[derive(Debug)]
struct Null;
impl ReadBackend for Null {
    fn location(&self) -> String {
        "null".into()
    }
    fn list_with_size(&self, _: FileType) -> RusticResult<Vec<(Id, u32)>> {
        Ok(vec![])
    }
    fn read_full(&self, _: FileType, _: &Id) -> RusticResult<Bytes> {
        Ok(Bytes::new())
    }
    fn read_partial(&self, _: FileType, _: &Id, _: bool, _: u32, _: u32) -> RusticResult<Bytes> {
        Ok(Bytes::new())
    }
    fn warmup_path(&self, _: FileType, _: &Id) -> String {
        String::new()
    }
}
impl WriteBackend for Null {
    fn write_bytes(&self, _: FileType, _: &Id, _: bool, _: BytesList) -> RusticResult<()> {
        Ok(())
    }
    fn remove(&self, _: FileType, _: &Id, _: bool) -> RusticResult<()> {
        Ok(())
    }
}

fuzz_target!(|bytes: &[u8]| {
    let mut u = Unstructured::new(bytes);
    // Keys are expanded from a seed: real keys are 64 uniformly random bytes. Raw fuzzer-chosen key
    // bytes quickly reach degenerate Poly1305 parameters (r = 0 or tiny), for which forgeries exist
    // by construction of the MAC — that is not a property of the library.
    let Ok(seed) = u.arbitrary::<u64>() else { return };
    let mut key = [0u8; 64];
    let mut z = seed;
    for chunk in key.chunks_mut(8) {
        z = z.wrapping_add(0x9E37_79B9_7F4A_7C15);
        let mut x = z;
        x = (x ^ (x >> 30)).wrapping_mul(0xBF58_476D_1CE4_E5B9);
        x = (x ^ (x >> 27)).wrapping_mul(0x94D0_49BB_1331_11EB);
        chunk.copy_from_slice(&(x ^ (x >> 31)).to_le_bytes());
    }
    let level: Option<i32> = match u.int_in_range(0..=4u8).unwrap_or(0) {
        0 => None,
        1 => Some(0),
        2 => Some(3),
        3 => Some(-3),
        _ => Some(9),
    };
    let nmut = u.int_in_range(0..=3usize).unwrap_or(0);
    let mut muts = Vec::new();
    for _ in 0..nmut {
        muts.push((u.int_in_range(0..=3u8).unwrap_or(0), u.arbitrary::<u16>().unwrap_or(0), u.arbitrary::<u8>().unwrap_or(1)));
    }
    let plain = u.take_rest();

    // round trips
    let msg = rustic_core::verif::encrypt(&key, plain).expect("encrypt");
    assert_eq!(msg.len(), plain.len() + 32);
    assert_eq!(rustic_core::verif::decrypt(&key, &msg).expect("decrypt own message"), plain);
    assert_eq!(open_message(&key, &msg).expect("independent decoder"), plain);
    let mine = seal_message(&key, &[7u8; 16], plain);
    assert_eq!(rustic_core::verif::decrypt(&key, &mine).expect("decrypt independent message"), plain);

    // mutation script
    let mut m = msg.clone();
    // every authentic message of this key that took part: ending up with one of them is substitution
    // by a valid message (e.g. a splice point inside a coinciding nonce prefix), not a forgery
    let mut authentic = vec![msg.clone()];
    for (kind, pos, val) in muts {
        match kind {
            0 => {
                if !m.is_empty() {
                    let p = usize::from(pos) % m.len();
                    m[p] ^= val | 1;
                }
            }
            1 => {
                let p = usize::from(pos) % (m.len() + 1);
                m.truncate(p);
            }
            2 => m.push(val),
            _ => {
                // splice with a second valid message of the same key
                let other = rustic_core::verif::encrypt(&key, &[val; 40]).expect("encrypt");
                // a splice point of 0 would simply substitute another authentic message
                authentic.push(other.clone());
                let upper = m.len().min(other.len());
                if upper > 1 {
                    let p = 1 + usize::from(pos) % (upper - 1);
                    m.truncate(p);
                    m.extend_from_slice(&other[p..]);
                }
            }
        }
    }
    if !authentic.contains(&m) {
        assert!(rustic_core::verif::decrypt(&key, &m).is_err(), "modified message accepted");
    }

    // codec round trips and garbage
    let codec = Codec::new(Arc::new(Null), &key, level);
    if matches!(plain.first(), Some(b'{' | b'[')) {
        let f = codec.encode_file(plain).expect("encode_file");
        assert_eq!(codec.decode_file(&f).expect("decode_file"), plain);
        assert_eq!(vpcore::fmt::decode_file(&key, &f).expect("independent decode_file"), plain);
    }
    if !plain.is_empty() {
        let (b, len, ul) = codec.encode_blob(plain).expect("encode_blob");
        assert_eq!(len as usize, plain.len());
        assert_eq!(&codec.decode_blob(&b, ul).expect("decode_blob")[..], plain);
    }
    // raw bytes must never panic
    _ = rustic_core::verif::decrypt(&key, plain);
    _ = codec.decode_file(plain);
    _ = codec.decode_blob(plain, None);
    _ = codec.decode_blob(plain, std::num::NonZeroU32::new(17));
    _ = rustic_core::verif::pack_header_from_binary(plain);
    // authentic garbage: MAC-valid but arbitrary plaintext
    let auth = seal_message(&key, &[9u8; 16], plain);
    _ = codec.decode_file(&auth);
    _ = codec.decode_blob(&auth, std::num::NonZeroU32::new(plain.len() as u32));
});
